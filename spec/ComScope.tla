------------------------------- MODULE ComScope -------------------------------
(* The partial evaluator (compiler/evaluate.rs: REPL, unused-argument check,  *)
(* *standard-cl-22* front-end optimiser) keeps two kinds of names apart:      *)
(*   args  the parameter list (prog_args) of the code it is working in        *)
(*   env   names bound by enclosing let / assign forms, mapped to their        *)
(*         (unevaluated) expressions                                           *)
(* The branches of an if are not evaluated in place: each is handed to         *)
(* (com ..), i.e. compiled as a program whose parameters are args, and the     *)
(* compiled code is run on the argument values.  A name that is neither a      *)
(* parameter nor bound inside the branch is, for that compilation, an unbound  *)
(* name: a constant of its own spelling (non-strict dialects).                 *)
(*                                                                             *)
(* This module states on a four-construct language why the branch has to be    *)
(* wrapped in bindings for the env names it uses (Rule = "rebind", the repair   *)
(* dc727ec) and that leaving it as written (Rule = "none") changes results.     *)
(* The invariant that trace validation checks on the real evaluator's events    *)
(* (Trace_ComScope) is WellScoped.                                              *)
EXTENDS ComScopeInv, Naturals, Sequences, FiniteSets, TLC
CONSTANTS Depth, Rule

Params == {"p", "q"}
LetNames == {"L", "M"}
\* expressions: <<"var", n>> | <<"k", 0>> | <<"pair", a, b>> | <<"let", n, e, b>> | <<"if", c, t, e>>
RECURSIVE Exprs(_, _)
Exprs(d, scope) ==
  LET leaves == {<<"var", n>> : n \in scope} \cup {<<"k", 0>>}
  IN IF d = 0 THEN leaves
     ELSE LET sub == Exprs(d - 1, scope) IN
          leaves \cup {<<"pair", a, b>> : a \in sub, b \in sub}
                 \cup {<<"if", c, t, e>> : c \in {<<"var", n>> : n \in scope \cap Params}, t \in sub, e \in sub}
                 \cup UNION {{<<"let", n, e, b>> : e \in sub, b \in Exprs(d - 1, scope \cup {n})} : n \in LetNames \ scope}

\* values: <<"v", n>> the value of parameter n, <<"k", 0>>, <<"name", n>> (a leaked name), pairs
ValOf(n) == <<"v", n>>
Truthy(n, T) == n \in T

\* ---- source meaning (T = the set of parameters that are true)
RECURSIVE EvalS(_, _, _)
EvalS(e, rho, T) ==
  CASE e[1] = "var" -> rho[e[2]]
    [] e[1] = "k" -> e
    [] e[1] = "pair" -> <<"pair", EvalS(e[2], rho, T), EvalS(e[3], rho, T)>>
    [] e[1] = "let" -> EvalS(e[4], (e[2] :> EvalS(e[3], rho, T)) @@ rho, T)
    [] e[1] = "if" -> IF Truthy(e[2][2], T) THEN EvalS(e[3], rho, T) ELSE EvalS(e[4], rho, T)

\* ---- free names
RECURSIVE Free(_)
Free(e) ==
  CASE e[1] = "var" -> {e[2]}
    [] e[1] = "k" -> {}
    [] e[1] = "pair" -> Free(e[2]) \cup Free(e[3])
    [] e[1] = "let" -> Free(e[3]) \cup (Free(e[4]) \ {e[2]})
    [] e[1] = "if" -> Free(e[2]) \cup Free(e[3]) \cup Free(e[4])

\* the env names a piece of code needs, transitively through their own expressions
RECURSIVE Needed(_, _, _)
Needed(todo, env, done) ==
  IF todo = {} THEN done
  ELSE LET n == CHOOSE x \in todo : TRUE
           more == (Free(env[n]) \cap DOMAIN env) \ (done \cup {n})
       IN Needed((todo \ {n}) \cup more, env, done \cup {n})

\* ---- compiling a branch as a program over the parameters: names that are neither parameters nor bound inside are
\* constants of their own spelling
RECURSIVE EvalC(_, _, _)
EvalC(e, rho, T) ==
  CASE e[1] = "var" -> IF e[2] \in DOMAIN rho THEN rho[e[2]] ELSE <<"name", e[2]>>
    [] e[1] = "k" -> e
    [] e[1] = "pair" -> <<"pair", EvalC(e[2], rho, T), EvalC(e[3], rho, T)>>
    [] e[1] = "let" -> EvalC(e[4], (e[2] :> EvalC(e[3], rho, T)) @@ rho, T)
    [] e[1] = "if" -> IF Truthy(e[2][2], T) THEN EvalC(e[3], rho, T) ELSE EvalC(e[4], rho, T)

\* wrap a branch in bindings for the env names it needs: a name whose expression uses no other needed name is bound
\* outermost, the others inside it
RECURSIVE WrapOrdered(_, _, _)
WrapOrdered(names, env, body) ==
  IF names = {} THEN body
  ELSE LET n == CHOOSE x \in names : Free(env[x]) \cap names = {}    \* depends on no other needed name: outermost
       IN <<"let", n, env[n], WrapOrdered(names \ {n}, env, body)>>

\* ---- the evaluator: lets extend env (unevaluated); an if hands the chosen branch to com
ParamRho == [n \in Params |-> ValOf(n)]
RECURSIVE EvalE(_, _, _)
EvalE(e, env, T) ==
  CASE e[1] = "var" -> IF e[2] \in DOMAIN env THEN EvalE(env[e[2]], env, T) ELSE ValOf(e[2])
    [] e[1] = "k" -> e
    [] e[1] = "pair" -> <<"pair", EvalE(e[2], env, T), EvalE(e[3], env, T)>>
    [] e[1] = "let" -> EvalE(e[4], (e[2] :> e[3]) @@ env, T)
    [] e[1] = "if" ->
         LET b == IF Truthy(e[2][2], T) THEN e[3] ELSE e[4]
             code == IF Rule = "rebind" THEN WrapOrdered(Needed(Free(b) \cap DOMAIN env, env, {}), env, b) ELSE b
         IN EvalC(code, ParamRho, T)

\* the invariant of ComScopeInv is what makes the two meanings agree: with Rule = "rebind" every com the evaluator
\* performs is well scoped (checked here on the model's own coms, and on the real evaluator's by Trace_ComScope)
RECURSIVE ComsWellScoped(_, _, _)
ComsWellScoped(e, env, T) ==
  CASE e[1] = "pair" -> ComsWellScoped(e[2], env, T) /\ ComsWellScoped(e[3], env, T)
    [] e[1] = "let" -> ComsWellScoped(e[4], (e[2] :> e[3]) @@ env, T)
    [] e[1] = "var" -> IF e[2] \in DOMAIN env THEN ComsWellScoped(env[e[2]], env, T) ELSE TRUE
    [] e[1] = "if" ->
         LET b == IF Truthy(e[2][2], T) THEN e[3] ELSE e[4]
             rebound == IF Rule = "rebind" THEN Needed(Free(b) \cap DOMAIN env, env, {}) ELSE {}
         IN WellScoped(Free(b), DOMAIN env, rebound, [n \in rebound |-> Free(env[n])])
    [] OTHER -> TRUE

VARIABLES expr, done
vars == <<expr, done>>
Init == expr \in Exprs(Depth, Params) /\ done = FALSE
Next == ~done /\ done' = TRUE /\ UNCHANGED expr
Spec == Init /\ [][Next]_vars

EmptyEnv == [n \in {} |-> <<"k", 0>>]
\* the evaluator agrees with the source meaning for every truth assignment of the parameters
Agrees == \A T \in SUBSET Params : EvalE(expr, EmptyEnv, T) = EvalS(expr, ParamRho, T)
\* every com of the model is well scoped under the repaired rule; an ill-scoped com exists under the old one
AllComsWellScoped == \A T \in SUBSET Params : ComsWellScoped(expr, EmptyEnv, T)
=============================================================================
