---------------------------- MODULE MC_Serialize ----------------------------
(* All byte strings of <= MaxLen bytes over Alphabet, grown one byte at a    *)
(* time; for each: the decoder machine is run step by step (one TLC          *)
(* transition per popped operation), DecoderSound is checked at the end and  *)
(* a replay vector is printed.  Trees of <= 3 atoms are round-tripped.        *)
EXTENDS Serialize, Json, TLC
CONSTANTS MaxLen, AlphabetKind

Alphabet == IF AlphabetKind = "full" THEN 0..255
            ELSE {0, 1, 2, 3, 5, 63, 64, 65, 127, 128, 129, 130, 131, 132, 133, 191, 192, 193, 200, 223, 224, 225, 232,
                  239, 240, 241, 244, 247, 248, 249, 251, 252, 253, 254, 255}

VARIABLES input, m, phase
vars == <<input, m, phase>>
Init == input = <<>> /\ m = StartM /\ phase = "grow"
Grow(b) == phase = "grow" /\ Len(input) < MaxLen /\ input' = Append(input, b) /\ UNCHANGED <<m, phase>>
Begin == phase = "grow" /\ phase' = "run" /\ UNCHANGED <<input, m>>
Step == phase = "run" /\ m.ops # <<>> /\ m' = StepM(input, m) /\ UNCHANGED <<input, phase>>
Finish == /\ phase = "run" /\ m.ops = <<>> /\ phase' = "done" /\ UNCHANGED <<input, m>>
          /\ Assert(DecoderSound(input), <<"decoder returns a value the consensus decoder does not", input, ImplDe(input), RefDe(input)>>)
          /\ PrintT(<<"V", ToJson([bytes |-> input, ref |-> RefDe(input), impl |-> ImplDe(input)])>>)
Next == (\E b \in Alphabet : Grow(b)) \/ Begin \/ Step \/ Finish
Spec == Init /\ [][Next]_vars

\* the machine run step by step agrees with the recursive RunM used in the properties
MachineConsistent == phase = "done" => (IF m.oom THEN <<"oom">> ELSE IF m.vals = <<>> THEN <<"err">> ELSE Ok(m.vals[Len(m.vals)])) = ImplDe(input)
\* termination: the op stack never grows beyond what the input can justify
Bounded == Len(m.ops) <= 2 * Len(input) + 1

Atoms == {<<>>, <<0>>, <<1>>, <<127>>, <<128>>, <<255>>, <<1, 2>>, <<255, 255>>, [i \in 1..63 |-> 7], [i \in 1..64 |-> 7], [i \in 1..65 |-> 9]}
Trees == {A(a) : a \in Atoms} \cup {Cons(A(a), A(b)) : a, b \in Atoms}
         \cup {Cons(Cons(A(a), A(b)), A(c)) : a \in {<<>>, <<1>>, <<128>>}, b \in {<<>>, <<255>>}, c \in Atoms}
         \cup {Cons(A(a), Cons(A(b), A(c))) : a \in {<<>>, <<1>>, <<128>>}, b \in {<<>>, <<255>>}, c \in Atoms}
RoundTrips == \A v \in Trees : RoundTrip(v)
\* length classes of the prefix, on abstract lengths (no content materialised)
Lens == {1, 2, 63, 64, 65, 8191, 8192, 8193, 1048575, 1048576, 1048577, 134217727, 134217728, 134217729, 2147483647}
PrefixOk == \A n \in Lens :
   LET p == SizeBlob(n) k == LeadingOnes(p[1]) IN
   /\ k = Len(p) /\ k <= 5
   /\ UnsignedOf(StripZeros(<<p[1] - (256 - Pow2(8 - k))>> \o Tail(p))) = n
   /\ ~TooLargeForFormat(<<p[1] - (256 - Pow2(8 - k))>> \o Tail(p))
=============================================================================
