SPECIFICATION Spec
CONSTANTS CastVariant = "restart"
CHECK_DEADLOCK FALSE
