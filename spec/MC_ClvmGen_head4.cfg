SPECIFICATION Spec
CONSTANTS MaxLen = 4
 Profile = "stepper"
 EnvSet = "headform"
CHECK_DEADLOCK FALSE
