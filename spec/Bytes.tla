------------------------------- MODULE Bytes -------------------------------
(* Byte sequences and the views CLVM takes of them.  An atom is a sequence  *)
(* of numbers 0..255 of any length; TLC integers are 32 bit, so everything  *)
(* that can be done without converting an atom to an Int is done on bytes,  *)
(* and the conversions are guarded (Small).                                  *)
EXTENDS Integers, Sequences

Byte == 0..255

RECURSIVE UnsignedOf(_)
UnsignedOf(bs) == IF bs = <<>> THEN 0
                  ELSE UnsignedOf(SubSeq(bs, 1, Len(bs) - 1)) * 256 + bs[Len(bs)]

RECURSIVE Pow2(_)
Pow2(n) == CASE n = 0 -> 1 [] n = 1 -> 2 [] n = 2 -> 4 [] n = 3 -> 8 [] n = 4 -> 16
             [] n = 5 -> 32 [] n = 6 -> 64 [] n = 7 -> 128 [] n = 8 -> 256
             [] n = 9 -> 512 [] n = 10 -> 1024 [] n = 11 -> 2048 [] n = 12 -> 4096
             [] n = 13 -> 8192 [] n = 14 -> 16384 [] n = 15 -> 32768 [] n = 16 -> 65536
             [] OTHER -> 65536 * Pow2(n - 16)
Pow256(n) == Pow2(8 * n)

\* Small(bs): the signed value of bs fits comfortably in a TLC integer
Small(bs) == Len(bs) <= 3
SignedOf(bs) == IF bs = <<>> THEN 0
                ELSE IF bs[1] >= 128 THEN UnsignedOf(bs) - Pow256(Len(bs)) ELSE UnsignedOf(bs)

RECURSIVE PosBytes(_)
PosBytes(n) == IF n = 0 THEN <<>> ELSE Append(PosBytes(n \div 256), n % 256)

\* strip redundant sign bytes of a two's complement big endian sequence
RECURSIVE Canon(_)
Canon(bs) == IF bs = <<>> THEN <<>>
             ELSE IF Len(bs) = 1 THEN (IF bs[1] = 0 THEN <<>> ELSE bs)
             ELSE IF (bs[1] = 0 /\ bs[2] < 128) \/ (bs[1] = 255 /\ bs[2] >= 128) THEN Canon(Tail(bs))
             ELSE bs
IsCanon(bs) == Canon(bs) = bs

\* canonical signed encoding of an Int with |n| < 2^30
RECURSIVE IntBytes(_)
IntBytes(n) ==
  IF n = 0 THEN <<>>
  ELSE IF n > 0 THEN LET b == PosBytes(n) IN IF b[1] >= 128 THEN <<0>> \o b ELSE b
  ELSE IF n = -1 THEN <<255>>
  ELSE \* two's complement: invert the bytes of -n-1 (no power of 256 is formed, so no 32 bit overflow)
       LET p == IntBytes(-n - 1) IN [i \in 1..Len(p) |-> 255 - p[i]]

\* sign extension to n bytes
SignExt(bs, n) == LET fill == IF bs # <<>> /\ bs[1] >= 128 THEN 255 ELSE 0
                  IN [i \in 1..(n - Len(bs)) |-> fill] \o bs

\* bitwise operations on single bytes (no Bitwise module dependency: 8 bits)
Bit(b, k) == (b \div Pow2(k)) % 2
ByteOp(op, x, y) ==
  LET f(k) == LET p == Bit(x, k) q == Bit(y, k) IN
              CASE op = "and" -> p * q
                [] op = "or"  -> IF p + q > 0 THEN 1 ELSE 0
                [] op = "xor" -> (p + q) % 2
  IN f(0) + 2*f(1) + 4*f(2) + 8*f(3) + 16*f(4) + 32*f(5) + 64*f(6) + 128*f(7)

BitwiseBytes(op, a, b) ==
  LET n == IF Len(a) > Len(b) THEN Len(a) ELSE Len(b)
      x == SignExt(a, n) y == SignExt(b, n)
  IN Canon([i \in 1..n |-> ByteOp(op, x[i], y[i])])

NotBytes(a) == IF a = <<>> THEN <<255>> ELSE Canon([i \in 1..Len(a) |-> 255 - a[i]])

\* lexicographic comparison a > b on unsigned bytes (the >s operator)
RECURSIVE BytesGt(_, _)
BytesGt(a, b) == IF a = <<>> THEN FALSE
                 ELSE IF b = <<>> THEN TRUE
                 ELSE IF a[1] # b[1] THEN a[1] > b[1]
                 ELSE BytesGt(Tail(a), Tail(b))

\* first index of a non zero byte, Len+1 when there is none
RECURSIVE FirstNonZero(_, _)
FirstNonZero(bs, i) == IF i > Len(bs) THEN i ELSE IF bs[i] # 0 THEN i ELSE FirstNonZero(bs, i + 1)

MsbPos(b) == CHOOSE k \in 0..7 : b >= Pow2(k) /\ b < Pow2(k + 1)

\* The bits of a path atom below its most significant 1 bit, least significant first.
\* <<>> for the root (value 1); "nil" paths (all zero / empty) are handled by the caller.
PathBits(bs) ==
  LET f == FirstNonZero(bs, 1)
      top == MsbPos(bs[f])
      nbits == (Len(bs) - f) * 8 + top
  IN [k \in 1..nbits |-> Bit(bs[Len(bs) - ((k - 1) \div 8)], (k - 1) % 8)]
IsZeroPath(bs) == FirstNonZero(bs, 1) > Len(bs)
=============================================================================
