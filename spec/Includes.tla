------------------------------- MODULE Includes -------------------------------
(* Include-file resolution over a search path, and the dependency listing.   *)
(* A file system maps (directory, name) to a content; a content is a sequence *)
(* of forms <<"include", name>>, <<"embed", kind, name>> or <<"nested", c>>   *)
(* (a (mod ...) expression whose own forms are c).  The same name             *)
(* may exist in several directories; the search path is a sequence of         *)
(* directories; a name resolves to the first directory that has it.           *)
(* Two processes walk the same graph: the compiler (reads) and the dependency  *)
(* listing (deps).                                                             *)
EXTENDS Integers, Sequences, FiniteSets, TLC

NoFile == <<"nofile">>
Resolve(fs, path, name) ==
  LET hits == {i \in 1..Len(path) : <<path[i], name>> \in DOMAIN fs} IN
  IF hits = {} THEN NoFile ELSE <<path[CHOOSE i \in hits : \A j \in hits : i <= j], name>>

\* the set of files read when compiling a content, following includes recursively (embedded
\* files are read but not searched for further forms); "err" when a name cannot be found
\* infile: content is that of an included file (a nested (mod ...) there sits in a function nobody calls); lazy: the
\* classic compiler, which never looks at a function that is not called
RECURSIVE ReadsOfG(_, _, _, _, _, _)
ReadsOfG(fs, path, content, fuel, infile, lazy) ==
  IF fuel = 0 \/ content = <<>> THEN [files |-> {}, err |-> FALSE]
  ELSE LET form == content[1] IN
       IF form[1] = "nested" THEN
          \* a (mod ...) used as an expression: its own forms are processed when the expression is parsed
          LET inner == IF infile /\ lazy THEN [files |-> {}, err |-> FALSE] ELSE ReadsOfG(fs, path, form[2], fuel - 1, FALSE, lazy)
              rest == IF inner.err THEN [files |-> {}, err |-> TRUE] ELSE ReadsOfG(fs, path, Tail(content), fuel, infile, lazy)
          IN [files |-> inner.files \cup rest.files, err |-> inner.err \/ rest.err]
       ELSE
       LET name == form[Len(form)]
           tgt == Resolve(fs, path, name) IN
       IF tgt = NoFile THEN [files |-> {}, err |-> TRUE]
       ELSE LET inner == IF form[1] = "include" THEN ReadsOfG(fs, path, fs[tgt], fuel - 1, TRUE, lazy) ELSE [files |-> {}, err |-> FALSE]
                rest == IF inner.err THEN [files |-> {}, err |-> TRUE] ELSE ReadsOfG(fs, path, Tail(content), fuel, infile, lazy)
            IN [files |-> {tgt} \cup inner.files \cup rest.files, err |-> inner.err \/ rest.err]
ReadsOf(fs, path, content, fuel) == ReadsOfG(fs, path, content, fuel, FALSE, FALSE)
ReadsLazy(fs, path, content, fuel) == ReadsOfG(fs, path, content, fuel, FALSE, TRUE)

\* the non-strict modern dialects (cl21, cl22) reject an include or embed-file form that stands in an included file
\* ("unknown keyword in helper"); the classic compiler and the strict dialects process it
RECURSIVE FormInFile(_, _, _, _, _)
FormInFile(fs, path, content, infile, fuel) ==
  IF fuel = 0 \/ content = <<>> THEN FALSE
  ELSE LET form == content[1] IN
       \/ FormInFile(fs, path, Tail(content), infile, fuel)
       \/ IF form[1] = "nested" THEN FormInFile(fs, path, form[2], FALSE, fuel - 1)
          ELSE \/ infile
               \/ form[1] = "include" /\ LET tgt == Resolve(fs, path, form[2]) IN tgt # NoFile /\ FormInFile(fs, path, fs[tgt], TRUE, fuel - 1)

\* the listing, as designed: every file the walk above resolves
DepsOf(fs, path, content, fuel) == ReadsOf(fs, path, content, fuel)
\* the listing that forgets embedded files (the behaviour of the unrepaired code)
RECURSIVE DepsNoEmbed(_, _, _, _)
DepsNoEmbed(fs, path, content, fuel) ==
  IF fuel = 0 \/ content = <<>> THEN {}
  ELSE LET form == content[1] IN
       IF form[1] = "nested" THEN DepsNoEmbed(fs, path, form[2], fuel - 1) \cup DepsNoEmbed(fs, path, Tail(content), fuel)
       ELSE
       LET name == form[Len(form)] tgt == Resolve(fs, path, name) IN
       IF tgt = NoFile THEN {}
       ELSE (IF form[1] = "include" THEN {tgt} \cup DepsNoEmbed(fs, path, fs[tgt], fuel - 1) ELSE {})
            \cup DepsNoEmbed(fs, path, Tail(content), fuel)
\* the listing that looks only at the forms of the program it is given, not at those of the (mod ...) expressions in
\* it (the behaviour of the unrepaired code)
RECURSIVE DepsNoNested(_, _, _, _)
DepsNoNested(fs, path, content, fuel) ==
  IF fuel = 0 \/ content = <<>> THEN {}
  ELSE LET form == content[1] IN
       IF form[1] = "nested" THEN DepsNoNested(fs, path, Tail(content), fuel)
       ELSE
       LET name == form[Len(form)] tgt == Resolve(fs, path, name) IN
       IF tgt = NoFile THEN {}
       ELSE {tgt} \cup (IF form[1] = "include" THEN DepsNoNested(fs, path, fs[tgt], fuel - 1) ELSE {})
            \cup DepsNoNested(fs, path, Tail(content), fuel)

\* C18
ListingComplete(fs, path, main) ==
  LET r == ReadsOf(fs, path, main, 6) d == DepsOf(fs, path, main, 6) IN ~r.err => r.files \subseteq d.files
ListingResolves(fs, path, main) ==
  \A f \in DepsOf(fs, path, main, 6).files : f = Resolve(fs, path, f[2])
=============================================================================
