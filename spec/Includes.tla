------------------------------- MODULE Includes -------------------------------
(* Include-file resolution over a search path, and the dependency listing.   *)
(* A file system maps (directory, name) to a content; a content is a sequence *)
(* of forms <<"include", name>> or <<"embed", kind, name>>.  The same name    *)
(* may exist in several directories; the search path is a sequence of         *)
(* directories; a name resolves to the first directory that has it.           *)
(* Two processes walk the same graph: the compiler (reads) and the dependency  *)
(* listing (deps).                                                             *)
EXTENDS Integers, Sequences, FiniteSets, TLC

NoFile == <<"nofile">>
Resolve(fs, path, name) ==
  LET hits == {i \in 1..Len(path) : <<path[i], name>> \in DOMAIN fs} IN
  IF hits = {} THEN NoFile ELSE <<path[CHOOSE i \in hits : \A j \in hits : i <= j], name>>

\* the set of files read when compiling a content, following includes recursively (embedded
\* files are read but not searched for further forms); "err" when a name cannot be found
RECURSIVE ReadsOf(_, _, _, _)
ReadsOf(fs, path, content, fuel) ==
  IF fuel = 0 \/ content = <<>> THEN [files |-> {}, err |-> FALSE]
  ELSE LET form == content[1]
           name == form[Len(form)]
           tgt == Resolve(fs, path, name) IN
       IF tgt = NoFile THEN [files |-> {}, err |-> TRUE]
       ELSE LET inner == IF form[1] = "include" THEN ReadsOf(fs, path, fs[tgt], fuel - 1) ELSE [files |-> {}, err |-> FALSE]
                rest == IF inner.err THEN [files |-> {}, err |-> TRUE] ELSE ReadsOf(fs, path, Tail(content), fuel)
            IN [files |-> {tgt} \cup inner.files \cup rest.files, err |-> inner.err \/ rest.err]

\* the listing, as designed: every file the walk above resolves
DepsOf(fs, path, content, fuel) == ReadsOf(fs, path, content, fuel)
\* the listing that forgets embedded files (the behaviour of the unrepaired code)
RECURSIVE DepsNoEmbed(_, _, _, _)
DepsNoEmbed(fs, path, content, fuel) ==
  IF fuel = 0 \/ content = <<>> THEN {}
  ELSE LET form == content[1] name == form[Len(form)] tgt == Resolve(fs, path, name) IN
       IF tgt = NoFile THEN {}
       ELSE (IF form[1] = "include" THEN {tgt} \cup DepsNoEmbed(fs, path, fs[tgt], fuel - 1) ELSE {})
            \cup DepsNoEmbed(fs, path, Tail(content), fuel)

\* C18
ListingComplete(fs, path, main) ==
  LET r == ReadsOf(fs, path, main, 6) d == DepsOf(fs, path, main, 6) IN ~r.err => r.files \subseteq d.files
ListingResolves(fs, path, main) ==
  \A f \in DepsOf(fs, path, main, 6).files : f = Resolve(fs, path, f[2])
=============================================================================
