SPECIFICATION Spec
CONSTANTS MaxLen = 4
 Profile = "opt"
 EnvSet = "clean"
 ExtraCheck <- NoExtra
CHECK_DEADLOCK FALSE
