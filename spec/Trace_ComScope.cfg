SPECIFICATION TSpec
INVARIANT Finished
CHECK_DEADLOCK FALSE
