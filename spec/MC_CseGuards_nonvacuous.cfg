SPECIFICATION Spec
CONSTANTS Depth = 2
 Rule = "any"
INVARIANTS SomeSaturated
CHECK_DEADLOCK FALSE
