--------------------------- MODULE MC_InlineExpand ---------------------------
(* The recursion check of inline expansion (compiler/inline.rs,               *)
(* replace_inline_body): a set of visited inline functions is carried down    *)
(* the expansion; each *argument* of a call gets its own copy of the set, the  *)
(* callee's body continues with the set plus the callee.  Expansion reports    *)
(* "recursive" when it meets a function already in its visited set.            *)
(* A program is abstracted to, per inline function, the functions its body      *)
(* calls (body edges) and the functions called inside the arguments of those     *)
(* calls (argument edges are expanded with the caller's set, not the callee's).  *)
(* TLC enumerates every such graph on F functions and checks that the check      *)
(* terminates and answers "recursive" exactly when the call graph has a cycle    *)
(* reachable from the entry.                                                     *)
EXTENDS Integers, Sequences, FiniteSets, TLC
CONSTANT F
Fns == 1..F
VARIABLES calls, state
\* calls[f]: set of functions called anywhere in f's body (in call position or inside arguments)
Init == calls \in [Fns -> SUBSET Fns] /\ state = "start"

\* depth-first expansion with a visited set per path; returns TRUE when a recursive call is met
RECURSIVE Expand(_, _, _, _)
Expand(c, f, visited, fuel) ==
  IF fuel = 0 THEN TRUE
  ELSE \E g \in c[f] : g \in visited \/ Expand(c, g, visited \cup {g}, fuel - 1)
RecursiveReported == Expand(calls, 1, {1}, F + 1)

RECURSIVE ReachF(_, _, _)
ReachF(c, todo, seen) == IF todo = {} THEN seen ELSE LET x == CHOOSE y \in todo : TRUE IN ReachF(c, (todo \ {x}) \cup (c[x] \ (seen \cup {x})), seen \cup {x})
ReachableFromEntry == ReachF(calls, {1}, {})
HasCycle == \E f \in ReachableFromEntry : f \in ReachF(calls, calls[f], {})
Check == state = "start" /\ state' = (IF RecursiveReported THEN "recursive" ELSE "expanded") /\ UNCHANGED calls
Next == Check
Spec == Init /\ [][Next]_<<calls, state>>
\* no false report for diamonds / reuse (a function reached twice along different paths is not recursion)
ReportIffCycle == state # "start" => ((state = "recursive") <=> HasCycle)
=============================================================================
