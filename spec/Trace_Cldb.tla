------------------------------ MODULE Trace_Cldb ------------------------------
(* Trace validation for C12.  One record per run of the debugger:            *)
(*  prog, env, cons (what the consensus evaluator returns for the program),  *)
(*  same_hex (the run of the hex-supplied form produced identical rows),      *)
(*  rows: kind (row / final / failure / other), row number, and for rows that *)
(*  report an operator, its arguments and a value: op, args, value as taken   *)
(*  from the step state, plus cons = clvmr's answer for (op (q . a1) ...).     *)
EXTENDS Cldb, Json, IOUtils, TLC, FiniteSets
\* (the name Trace is Cldb's operator; the records are Rec)
Rec == ndJsonDeserialize(IOEnv.TRACE)
VARIABLES l, bad, specerr, cnt
vars == <<l, bad, specerr, cnt>>
Init == l = 1 /\ bad = {} /\ specerr = {} /\ cnt = [runs |-> 0, rows |-> 0, rows_checked |-> 0, finals |-> 0, failures |-> 0, model_checked |-> 0]
Class(o) == IF o[1] = "ok" THEN o ELSE <<o[1]>>
RECURSIVE SortedSeq(_)
SortedSeq(S) == IF S = {} THEN <<>> ELSE LET m == CHOOSE x \in S : \A y \in S : x <= y IN <<m>> \o SortedSeq(S \ {m})
SetToSortSeq(S) == SortedSeq(S)
Next ==
  /\ l <= Len(Rec) /\ l' = l + 1
  /\ LET e == Rec[l]
         R == 1..Len(e.rows)
         \* rows are numbered consecutively from 0 (terminal and print rows carry no number but are counted)
         numbering == \A i \in R : e.rows[i].row \in {-1, i - 1} /\ (e.rows[i].kind = "row" => e.rows[i].row = i - 1)
         \* every row that reports an operator, its arguments and a value is true of the consensus evaluator
         BadRows == {i \in R : e.rows[i].kind = "row" /\ e.rows[i].has /\ e.rows[i].cons # Ok(e.rows[i].value)}
         \* exactly one terminal row, at the end: the final value equals the consensus result, a failure entry exactly when it fails
         last == IF e.rows = <<>> THEN [kind |-> "none"] ELSE e.rows[Len(e.rows)]
         terminal == /\ e.rows # <<>>
                     /\ \A i \in R : (e.rows[i].kind \in {"final", "failure"}) <=> (i = Len(e.rows))
                     /\ (e.cons[1] = "ok" => (last.kind = "final" /\ Ok(last.value) = e.cons))
                     /\ (e.cons[1] = "err" => last.kind = "failure")
         \* the TLA+ semantics against clvmr on every row (spec error when they differ)
         MS == {i \in R : e.rows[i].kind = "row" /\ e.rows[i].has /\ IsAtom(e.rows[i].op) /\
                   LET m == Apply(BytesOf(e.rows[i].op), e.rows[i].args, 30) IN
                   m[1] \in {"ok", "err"} /\ e.rows[i].cons[1] \in {"ok", "err"} /\ Class(m) # Class(e.rows[i].cons)}
         \* does the row assembler of the specification (Cldb.tla on the ClvmStepper machine, with their documented deviations:
         \* rows of a / i closed by a foreign value, head forms evaluated) produce exactly the rows that were observed?
         Reported == {i \in R : e.rows[i].kind \in {"final", "failure"} \/ (e.rows[i].kind = "row" /\ e.rows[i].has)}
         ObsRow(i) == IF e.rows[i].kind = "row" THEN <<"row", e.rows[i].op, e.rows[i].args, e.rows[i].value>>
                      ELSE IF e.rows[i].kind = "final" THEN <<"final", e.rows[i].value>> ELSE <<"failure">>
         ObsSeq == LET idx == SetToSortSeq(Reported) IN [k \in 1..Len(idx) |-> ObsRow(idx[k])]
         \* "yes" / "no" when the model runs the program to its end; "unknown" when it stops at its step limit or at an
         \* operation outside the modelled arithmetic (large compiled programs)
         explained == LET mt == Trace(e.prog, e.env) IN
                      IF mt = <<>> \/ mt[Len(mt)][1] \notin {"final", "failure"} THEN "unknown"
                      ELSE IF mt = ObsSeq THEN "yes" ELSE "no"
     IN /\ bad' = IF numbering /\ BadRows = {} /\ terminal /\ e.same_hex THEN bad
                  ELSE bad \cup {<<l, [numbering |-> numbering, false_rows |-> BadRows, terminal |-> terminal, same_hex |-> e.same_hex,
                                       model_explains |-> explained]>>}
        /\ specerr' = IF MS = {} THEN specerr ELSE specerr \cup {<<l, MS>>}
        /\ cnt' = [cnt EXCEPT !.runs = @ + 1, !.rows = @ + Len(e.rows),
                              !.rows_checked = @ + Cardinality({i \in R : e.rows[i].kind = "row" /\ e.rows[i].has}),
                              !.finals = @ + (IF last.kind = "final" THEN 1 ELSE 0), !.failures = @ + (IF last.kind = "failure" THEN 1 ELSE 0),
                              !.model_checked = @ + Cardinality({i \in R : e.rows[i].kind = "row" /\ e.rows[i].has /\ IsAtom(e.rows[i].op)})]
Spec == Init /\ [][Next]_vars
Finished == l > Len(Rec) => PrintT(<<"RESULT", ToJson([n |-> Len(Rec), bad |-> bad, specerr |-> specerr, cnt |-> cnt])>>)
=============================================================================
