------------------------------ MODULE Hierarchy ------------------------------
(* The hierarchical (-t) view of the debugger: compiler/cldb_hierarchy.rs,   *)
(* HierarchialRunner::step, one CASE arm per arm of the implementation, on   *)
(* top of the row assembler of Cldb (one CldbRun per frame).                 *)
(*                                                                           *)
(* State: the vector `running` (bottom first, top LAST as in the code) of    *)
(* frames [pur, name, env, nargs, run] and the flag error.  A run is         *)
(* [S, pend, inexpr, ended, fin]: the step machine's chain of ClvmStepper,   *)
(* the row assembler's pending operator, and what CldbRun::is_ended /        *)
(* final_result answer.                                                       *)
(*                                                                           *)
(* One call of step():                                                        *)
(*   Return  the top frame's run has a final result: pop it; an empty stack   *)
(*           is Done; otherwise the value becomes the env of the frame below  *)
(*           and that frame's run is REPLACED by a new run which hands the    *)
(*           value to the parent of its current step (step_return_value)      *)
(*   Call    the top frame's current step is an apply whose arguments are all *)
(*           evaluated and whose program's tree hash is a key of the symbol   *)
(*           table: push a placeholder Main frame and a ComputeArgument frame *)
(*           that runs the function's code on the argument value              *)
(*   Step    otherwise: one CldbRun::step of the top frame; a Failure row     *)
(*           sets error                                                       *)
(* is_ended: no frame, or error, or one frame whose run has ended.            *)
(*                                                                           *)
(* Sym is the symbol table as a set of records [code, name, formals, left]:   *)
(* the code whose tree hash is the key, the name stored under it, the         *)
(* argument list stored under <hash>_arguments and the <hash>_left_env flag.  *)
(* (Equality of code stands for equality of tree hashes.)                     *)
EXTENDS Cldb

NewRun(S) == [S |-> S, pend |-> <<>>, inexpr |-> FALSE, ended |-> FALSE, fin |-> <<>>, lim |-> FALSE]

\* CldbRun::step: <<run', row>>, row = <<>> (no output) | <<"row", op, args, v>> | <<"final", v>> | <<"failure">>
RunStep1(r) ==
  LET N == StepFn(r.S, "int") t == N[1] IN
  CASE t[1] = "Fail" -> (IF Len(t) > 1 /\ t[2] \in {"oom", "fuel"}
                         THEN <<[r EXCEPT !.ended = TRUE, !.lim = TRUE], <<"limit">>>>      \* outside the modelled arithmetic
                         ELSE <<[r EXCEPT !.ended = TRUE], <<"failure">>>>)                \* the step is kept
    [] t[1] = "Done" -> <<[r EXCEPT !.S = N, !.ended = TRUE, !.fin = <<t[2]>>], <<"final", t[2]>>>>
    [] t[1] = "OpN"  -> <<[r EXCEPT !.S = N, !.pend = <<t[2], ListItems(t[4])>>, !.inexpr = TRUE], <<>>>>
    [] t[1] = "Res"  -> IF r.inexpr /\ r.pend # <<>>
                        THEN <<[r EXCEPT !.S = N, !.inexpr = FALSE], <<"row", r.pend[1], r.pend[2], t[2]>>>>
                        ELSE <<[r EXCEPT !.S = N, !.inexpr = FALSE], <<>>>>
    [] OTHER -> <<[r EXCEPT !.S = N], <<>>>>

\* clvm::step_return_value: the value is handed to the parent of the current step (an OpResult on top of the
\* producer, which run_step skips); a step without parent becomes Done(value)
ReturnValue(S, v) == IF Len(S) <= 1 THEN <<FDone(v)>> ELSE <<FRes(v)>> \o S

\* get_args_from_env: the formal parameter tree walked against the runtime value; with left_env the value's
\* first element (the function table) is skipped once.  Result: sequence of <<name bytes, value>> in insertion
\* order (a later entry for the same name replaces an earlier one in the implementation's map)
RECURSIVE ArgsFromEnv(_, _, _)
ArgsFromEnv(formals, env, left) ==
  IF IsPair(formals) /\ IsPair(env)
  THEN IF left THEN ArgsFromEnv(formals, Rest(env), FALSE)
       ELSE ArgsFromEnv(First(formals), First(env), FALSE) \o ArgsFromEnv(Rest(formals), Rest(env), FALSE)
  ELSE IF IsAtom(formals) /\ BytesOf(formals) # <<>> THEN << <<BytesOf(formals), env>> >>
  ELSE <<>>
\* as a map: the last entry per name wins
ArgMap(seq) == { seq[i] : i \in { j \in 1..Len(seq) : \A k \in (j + 1)..Len(seq) : seq[k][1] # seq[j][1] } }

\* FALSE: the code as repaired (an apply with anything after its second argument fails in the evaluator and is
\* not a call); TRUE: the code before the repair, which took (a F ENV EXTRA) for a call of F -- TLC refutes
\* HierFinalOk for it (configuration MC_HierGen_loose overrides this definition)
LooseArity == FALSE
SymFor(Sym, code) == { s \in Sym : s.code = code }
\* relevant_run_step_info: Op(head, _, args, Some([]), _) with head the apply operator and args = (prog env . _)
CallInfo(Sym, S) ==
  LET t == S[1] IN
  IF t[1] = "Op" /\ t[5] = <<>> /\ IsAtom(t[2]) /\ BytesOf(t[2]) = <<2>> /\ IsPair(t[4]) /\ IsPair(Rest(t[4]))
     /\ (LooseArity \/ ~Truthy(Rest(Rest(t[4]))))
     /\ SymFor(Sym, First(t[4])) # {}
  THEN LET s == CHOOSE x \in SymFor(Sym, First(t[4])) : TRUE IN
       << [name |-> s.name, prog |-> First(t[4]), argv |-> First(Rest(t[4])), formals |-> s.formals, left |-> s.left] >>
  ELSE <<>>

Frame(pur, name, env, nargs, run) == [pur |-> pur, name |-> name, env |-> env, nargs |-> nargs, run |-> run]
HInit(p, e, mainformals, mainname) ==
  [frames |-> << Frame("main", mainname, e, ArgMap(ArgsFromEnv(mainformals, e, FALSE)), NewRun(Start(p, e))) >>, error |-> FALSE]
HEnded(st) == st.frames = <<>> \/ st.error \/ (Len(st.frames) = 1 /\ st.frames[1].run.ended)

\* one HierarchialRunner::step: <<state', event>>; event = <<"done">> | <<"shape", kind>> | <<"info", row>> | <<"none">>
HStep(Sym, st) ==
  LET n == Len(st.frames) top == st.frames[n] IN
  IF top.run.fin # <<>> THEN
     IF n = 1 THEN << [st EXCEPT !.frames = <<>>], <<"done">> >>
     ELSE LET out == top.run.fin[1]
              par == st.frames[n - 1]
              par2 == [par EXCEPT !.env = out, !.run = NewRun(ReturnValue(par.run.S, out))]
          IN << [st EXCEPT !.frames = Append(SubSeq(st.frames, 1, n - 2), par2)], <<"shape", "return", top.pur, out>> >>
  ELSE LET ci == CallInfo(Sym, top.run.S) IN
  IF ci # <<>> THEN
     LET c == ci[1]
         na == ArgMap(ArgsFromEnv(c.formals, c.argv, c.left))
         holder == Frame("main", c.name, top.env, na, NewRun(Start(c.prog, top.env)))
         argf == Frame("arg", c.name, c.argv, na, NewRun(Start(c.prog, c.argv)))
     IN << [st EXCEPT !.frames = st.frames \o <<holder, argf>>], <<"shape", "call", c.prog, c.argv>> >>
  ELSE LET rs == RunStep1(top.run) IN
       << [frames |-> [st.frames EXCEPT ![n] = [top EXCEPT !.run = rs[1]]],
           error |-> st.error \/ rs[2] = <<"failure">>],
          IF rs[2] = <<>> THEN <<"none">> ELSE <<"info", rs[2]>> >>

\* the run as the command-line driver performs it: step until is_ended; the trace is the sequence of
\* [ev, depth, name, pur] after each step (depth, name, purpose of the top frame after the step)
RECURSIVE HRun(_, _, _, _)
HRun(Sym, st, acc, fuel) ==
  IF HEnded(st) THEN acc
  ELSE IF fuel = 0 THEN Append(acc, [ev |-> <<"limit">>, d |-> 0, name |-> "", pur |-> "", na |-> {}])
  ELSE LET r == HStep(Sym, st)
           s2 == r[1]
           d == Len(s2.frames)
           e == [ev |-> r[2], d |-> d, name |-> IF d = 0 THEN "" ELSE s2.frames[d].name,
                 pur |-> IF d = 0 THEN "" ELSE s2.frames[d].pur, na |-> IF d = 0 THEN {} ELSE s2.frames[d].nargs]
       IN IF r[2] = <<"info", <<"limit">>>> THEN Append(acc, [ev |-> <<"limit">>, d |-> 0, name |-> "", pur |-> "", na |-> {}])
          ELSE HRun(Sym, s2, Append(acc, e), fuel - 1)
HTrace(Sym, p, e, mainformals, mainname) == HRun(Sym, HInit(p, e, mainformals, mainname), <<>>, 900)

Infos(tr) == SelectSeq(tr, LAMBDA x : x.ev[1] = "info")
Limited(tr) == tr # <<>> /\ tr[Len(tr)].ev = <<"limit">>

\* C12 for the hierarchical view, on the model (tr = HTrace(Sym, p, e, ..)): the run ends; its last row is the
\* Final row of the outermost frame carrying the big-step result, or a failure row exactly when the semantics
\* fails; every return of a ComputeArgument frame hands over the value the big-step semantics gives for
\* (code, argument value); the stack never drops below the outermost frame before the end
HierFinalOk(tr, p, e) ==
  LET b == Eval(p, e, 30) inf == Infos(tr) IN
  Limited(tr) \/ b[1] \notin {"ok", "err"} \/
  ( /\ inf # <<>>
    /\ LET last == inf[Len(inf)] IN
       /\ (b[1] = "ok" => last.ev[2] = <<"final", b[2]>> /\ last.d = 1)
       /\ (b[1] = "err" => last.ev[2] = <<"failure">>)
       /\ \A i \in 1..Len(inf) : inf[i].ev[2] = <<"failure">> => i = Len(inf) )
ReturnsOk(tr) ==
  \A i \in 1..Len(tr) :
     (tr[i].ev[1] = "shape" /\ tr[i].ev[2] = "call") =>
        \* the matching return of the ComputeArgument frame: the first later return that leaves depth d - 1
        LET d == tr[i].d
            J == { j \in (i + 1)..Len(tr) : tr[j].ev[1] = "shape" /\ tr[j].ev[2] = "return" /\ tr[j].d = d - 1 }
        IN J = {} \/ LET j == CHOOSE x \in J : \A y \in J : x <= y
                         m == Eval(tr[i].ev[3], tr[i].ev[4], 30) IN
                     tr[j].ev[3] = "arg" /\ (m[1] \in {"fuel", "oom"} \/ m = Ok(tr[j].ev[4]))
Balanced(tr) == \A i \in 1..Len(tr) : tr[i].ev = <<"done">> \/ tr[i].ev = <<"limit">> \/ tr[i].d >= 1
\* with an empty symbol table the hierarchical view is the flat debugger: same rows in the same order
FlatWhenNoSymbols(p, e) ==
  LET tr == HTrace({}, p, e, Nil, "main") flat == Trace(p, e) inf == Infos(tr) IN
  Limited(tr) \/ flat[Len(flat)] = <<"limit">> \/ [i \in 1..Len(inf) |-> inf[i].ev[2]] = flat
HierAll(Sym, p, e) == LET tr == HTrace(Sym, p, e, Nil, "main") IN HierFinalOk(tr, p, e) /\ ReturnsOk(tr) /\ Balanced(tr)
=============================================================================
