SPECIFICATION Spec
CONSTANTS Writers = {1, 2}
 NChunks = 2
 InitKind = "different"
 InPlace = TRUE
INVARIANTS TargetIntact
CHECK_DEADLOCK FALSE
