---------------------------- MODULE MC_CseGuards ----------------------------
(* Exhaustive check of CseGuards over all trees of the given depth, and one  *)
(* vector per tree with at least two instances of the repeated subexpression *)
(* for replay through the real compilers (C02).                              *)
EXTENDS CseGuards, Json
Show(o) == IF o[1] = "fail" THEN "fail" ELSE IF o[1] = "E" THEN "E" ELSE IF o[2] = 1 THEN "K1" ELSE "K2"
Combos == <<<<FALSE, FALSE, FALSE>>, <<FALSE, TRUE, FALSE>>, <<TRUE, FALSE, FALSE>>, <<TRUE, TRUE, FALSE>>,
            <<FALSE, FALSE, TRUE>>, <<FALSE, TRUE, TRUE>>, <<TRUE, FALSE, TRUE>>, <<TRUE, TRUE, TRUE>>>>
G(c) == [i \in Guards |-> IF i = 1 THEN c[1] ELSE c[2]]
Rows(t) == [k \in 1..Len(Combos) |-> [g1 |-> Combos[k][1], g2 |-> Combos[k][2], efail |-> Combos[k][3],
                                       out |-> Show(Eval(t, G(Combos[k]), Combos[k][3]))]]
Emit == (emitted /\ Cardinality(Instances(tree)) >= 2) =>
           PrintT(<<"V", ToJson([tree |-> tree, saturated |-> Saturated(tree), rows |-> Rows(tree)])>>)
=============================================================================
