---------------------------- MODULE MC_CseGuards ----------------------------
(* Exhaustive check of CseGuards over all trees of the given depth, and one  *)
(* vector per tree with at least two instances of the repeated subexpression *)
(* for replay through the real compilers (C02).                              *)
EXTENDS CseGuards, Json
Show(o) == o[1]
Combos == <<<<FALSE, FALSE, FALSE>>, <<FALSE, TRUE, FALSE>>, <<TRUE, FALSE, FALSE>>, <<TRUE, TRUE, FALSE>>,
            <<FALSE, FALSE, TRUE>>, <<FALSE, TRUE, TRUE>>, <<TRUE, FALSE, TRUE>>, <<TRUE, TRUE, TRUE>>>>
G(c) == [i \in Guards |-> IF i = 1 THEN c[1] ELSE c[2]]
Rows(t) == [k \in 1..Len(Combos) |-> [g1 |-> Combos[k][1], g2 |-> Combos[k][2], efail |-> Combos[k][3],
                                       out |-> Show(Eval(t, G(Combos[k]), Combos[k][3]))]]
\* trees on which an unsound lift would be visible: two or more instances, and the source returns a value on some row
\* on which the subexpression itself fails
Interesting(t) == Cardinality(Instances(t)) >= 2 /\ \E k \in 1..Len(Combos) : Combos[k][3] /\ Eval(t, G(Combos[k]), TRUE) # Fail
Emit == (emitted /\ (Interesting(tree) \/ Saturated(tree))) =>
           PrintT(<<"V", ToJson([tree |-> tree, saturated |-> Saturated(tree), rows |-> Rows(tree)])>>)
=============================================================================
