SPECIFICATION Spec
CONSTANTS MaxLen = 5
CHECK_DEADLOCK FALSE
