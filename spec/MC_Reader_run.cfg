SPECIFICATION Spec
CONSTANTS MaxLen = 4
CHECK_DEADLOCK FALSE
