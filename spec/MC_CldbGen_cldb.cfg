SPECIFICATION Spec
CONSTANTS MaxLen = 4
 Profile = "stepper"
 EnvSet = "clean"
 ExtraCheck <- CldbCheck
CHECK_DEADLOCK FALSE
