----------------------------- MODULE MC_OptGen -----------------------------
(* The term generator of MC_ClvmGen with the rule-level model of the classic  *)
(* optimiser (ClassicOpt.tla) evaluated on every emitted vector:              *)
(*  - C04 on the model: where the term returns v in the environment, the       *)
(*    model's optimiser accepts the term and its output returns v there;       *)
(*  - the model's output is printed ("O" line) so that the harness can compare *)
(*    it with what the real optimize_sexp returns for the same term (drift).   *)
EXTENDS MC_ClvmGen, ClassicOpt
OptCheck(t, e) ==
  LET o == Optimize(t)
      r == Eval(t, e, 30)
  IN /\ PrintT(<<"O", ToJson([prog |-> t, env |-> e, mopt |-> o])>>)
     /\ (r[1] = "ok" /\ o[1] # "unk") =>
           /\ Assert(o[1] = "ok", <<"the model's optimiser rejects a term that returns a value", t, e, r>>)
           /\ LET r2 == Eval(o[2], e, 30) IN
              Assert(r2[1] \in {"oom", "fuel"} \/ r2 = r, <<"the model's optimiser changes the value", t, e, r, o, r2>>)
=============================================================================
