------------------------------ MODULE MC_Reader ------------------------------
(* All texts of <= MaxLen bytes over a 14 symbol alphabet, one byte at a time *)
(* through the reader machine (one TLC transition per byte = one push), then  *)
(* finalize.  On the model: the result is a list of forms or an error, the    *)
(* properties P1-P3 of Trace_Reader hold of the *model's* result for every    *)
(* regular text, and one replay vector is printed per text.                    *)
EXTENDS Reader, Tokens, Json, FiniteSets
CONSTANTS MaxLen
Alphabet == {40, 41, 46, 32, 10, 59, 34, 39, 92, 35, 97, 48, 120, 45}
VARIABLES text, m, done
vars == <<text, m, done>>
Init == text = <<>> /\ m = Start /\ done = FALSE
PushByte(b) == /\ ~done /\ m.err = <<>> /\ Len(text) < MaxLen
               /\ text' = Append(text, b) /\ m' = Push(m, b) /\ UNCHANGED done

EndOf(loc) == IF loc[4] = 0 THEN <<loc[2], loc[3] + 1>> ELSE <<loc[4], loc[5]>>
Le(a, b) == a[1] < b[1] \/ (a[1] = b[1] /\ a[2] <= b[2])
LeafOk(o, d) == o[2][1] = "in" /\ o[2][2] = d[2] /\ o[2][3] = d[3] /\ EndOf(o[2]) = <<d[4], d[5]>>
Within(loc, d) == loc[1] = "in" /\ Le(<<d[2], d[3]>>, <<loc[2], loc[3]>>) /\ Le(EndOf(loc), <<d[4], d[5]>>)
RECURSIVE FormOk(_, _), SpineOk(_, _, _, _)
FormOk(o, d) ==
  IF d[1] = "tok" THEN o[1] # "cons" /\ LeafOk(o, d)
  ELSE IF d[6] = <<>> THEN o[1] = "nil" /\ Within(o[2], d)
  ELSE o[1] = "cons" /\ Within(o[2], d) /\ SpineOk(o, d[6], d[7], 1)
SpineOk(o, items, tail, k) ==
  IF k > Len(items) THEN (IF tail = <<>> THEN o[1] = "nil" ELSE FormOk(o, tail[1]))
  ELSE o[1] = "cons" /\ FormOk(o[3], items[k]) /\ SpineOk(o[4], items, tail, k + 1)
RECURSIVE Lens(_, _, _)
Lens(T, i, acc) == IF i > Len(T) THEN acc
                   ELSE IF T[i] = 10 THEN Lens(T, i + 1, Append(acc, 0))
                   ELSE Lens(T, i + 1, [acc EXCEPT ![Len(acc)] = @ + 1])
PosIn(l, c, lens) == l >= 1 /\ l <= Len(lens) /\ c >= 1 /\ c <= lens[l] + 2
ModelOk(T, r) ==
  LET d == Read(T) IN
  IF r.ok THEN (d = Bad \/ Len(r.forms) > Len(d[2]) \/
                 \A j \in 1..Len(r.forms) : FormOk(r.forms[Len(r.forms) - j + 1], d[2][Len(d[2]) - j + 1]))
  ELSE LET lens == Lens(T, 1, <<0>>) IN r.loc[1] = "in" /\ PosIn(r.loc[2], r.loc[3], lens) /\ (r.loc[4] = 0 \/ PosIn(r.loc[4], r.loc[5], lens))

Finish == /\ ~done /\ done' = TRUE /\ UNCHANGED <<text, m>>
          /\ LET r == Finalize(m) IN
             /\ Assert(ModelOk(text, r), <<"the reader model violates P1-P3 on", text, r, Read(text)>>)
             /\ PrintT(<<"V", ToJson([text |-> text, res |-> r])>>)
Next == (\E b \in Alphabet : PushByte(b)) \/ Finish
Spec == Init /\ [][Next]_vars
=============================================================================
