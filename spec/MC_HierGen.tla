---------------------------- MODULE MC_HierGen ----------------------------
(* The term generator of MC_ClvmGen (profile "hier": quoted constants are    *)
(* small programs) with the hierarchical debugger view (Hierarchy) asserted   *)
(* on every emitted (term, environment) under three symbol tables: every      *)
(* quoted program and every pair in the environment registered as a function  *)
(* (without and with the left-env flag), and only the atom programs.  With    *)
(* the empty table the view must be the flat debugger's.  Each vector is      *)
(* printed with the event sequence the model predicts for the first table.    *)
EXTENDS MC_ClvmGen, Hierarchy
Loose == TRUE
Formals == Cons(A(<<88>>), A(<<89>>))     \* (X . Y)
RECURSIVE PairsOf(_)
PairsOf(v) == IF IsAtom(v) THEN {} ELSE {v} \cup PairsOf(First(v)) \cup PairsOf(Rest(v))
SymAll(e, left) == { [code |-> c, name |-> "fn", formals |-> Formals, left |-> left] : c \in Quoted \cup PairsOf(e) }
SymAtoms == { [code |-> c, name |-> "fa", formals |-> Formals, left |-> FALSE] : c \in { q \in Quoted : IsAtom(q) } }
HierCheck(t, e) ==
  /\ HierAll(SymAll(e, FALSE), t, e)
  /\ HierAll(SymAll(e, TRUE), t, e)
  /\ HierAll(SymAtoms, t, e)
  /\ FlatWhenNoSymbols(t, e)
  /\ PrintT(<<"H", ToJson([prog |-> t, env |-> e, calls |-> Len(SelectSeq(HTrace(SymAll(e, FALSE), t, e, Nil, "main"), LAMBDA x : x.ev[1] = "shape" /\ x.ev[2] = "call"))])>>)
=============================================================================
