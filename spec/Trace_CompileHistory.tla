------------------------- MODULE Trace_CompileHistory -------------------------
(* Trace validation for C05.  A trace is a sequence of processes ("Start":    *)
(* starting counter and starting integer mode) each followed by the jobs it   *)
(* compiled ("Job": thread, job key, output id (by content), the integer mode *)
(* observed on the compiling thread before and after, the counter before and  *)
(* after).  The observations are folded into the `out` relation of            *)
(* CompileHistory.tla and its invariants are evaluated on what was observed.   *)
EXTENDS Integers, Sequences, FiniteSets, TLC, Json, IOUtils
Rec == ndJsonDeserialize(IOEnv.TRACE)
VARIABLES l, out, m0, badpure, badmode, badctr, cnt
vars == <<l, out, m0, badpure, badmode, badctr, cnt>>
Init == l = 1 /\ out = {} /\ m0 = TRUE /\ badpure = {} /\ badmode = {} /\ badctr = {} /\ cnt = [procs |-> 0, jobs |-> 0]
Next ==
  /\ l <= Len(Rec) /\ l' = l + 1
  /\ LET e == Rec[l] IN
     IF e.ev = "Start"
     THEN /\ m0' = e.m0 /\ cnt' = [cnt EXCEPT !.procs = @ + 1] /\ UNCHANGED <<out, badpure, badmode, badctr>>
     ELSE /\ out' = out \cup {<<e.key, e.out>>}
          \* Pure: the same job never has two different outputs (a failure is an output too)
          /\ badpure' = IF \E p \in out : p[1] = e.key /\ p[2] # e.out THEN badpure \cup {l} ELSE badpure
          \* ModeRestored: the compiling thread has its starting mode before and after every job
          /\ badmode' = IF e.mode_before # m0 \/ e.mode_after # m0 THEN badmode \cup {l} ELSE badmode
          \* the counter only grows (model conformance: Gensym is the only action that changes it)
          /\ badctr' = IF e.ctr_after < e.ctr_before THEN badctr \cup {l} ELSE badctr
          /\ cnt' = [cnt EXCEPT !.jobs = @ + 1]
          /\ UNCHANGED m0
Spec == Init /\ [][Next]_vars
Finished == l > Len(Rec) =>
  PrintT(<<"RESULT", ToJson([n |-> Len(Rec), badpure |-> badpure, badmode |-> badmode, badctr |-> badctr, cnt |-> cnt,
                              keys |-> Cardinality({p[1] : p \in out})])>>)
=============================================================================
