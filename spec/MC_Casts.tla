------------------------------ MODULE MC_Casts ------------------------------
(* Casts!Positional for every input length int_from_bytes accepts (0..8),   *)
(* and one replay vector per (length, position, byte) plus dense patterns:  *)
(* the real int_from_bytes must return the big-endian value of the input.   *)
EXTENDS Casts, Json, TLC
VARIABLES n, done
Init == n = 0 /\ done = FALSE
Probe(len) == { [i \in 1..len |-> IF i = p THEN v ELSE 0] : p \in 1..len, v \in {1, 127, 128, 255} }
              \cup { [i \in 1..len |-> 255], [i \in 1..len |-> i], [i \in 1..len |-> IF i = 1 THEN 1 ELSE 0],
                     [i \in 1..len |-> IF i = len THEN 1 ELSE 0], [i \in 1..len |-> IF i % 2 = 1 THEN 128 ELSE 1] }
Next == /\ ~done /\ n' = (IF n < 8 THEN n + 1 ELSE n) /\ done' = (n = 8)
        /\ Assert(Positional(n) /\ Injective(n), <<"int_from_bytes does not weight byte positions as a big-endian number", n,
                                                   [i \in 1..n |-> ExpOf(n, i)]>>)
        /\ \A bs \in Probe(n) : PrintT(<<"V", ToJson([bytes |-> bs, value |-> ValueBytes(bs)])>>)
Spec == Init /\ [][Next]_<<n, done>>
=============================================================================
