----------------------------- MODULE RichValues -----------------------------
(* The compiler's rich s-expression atoms and their relation to CLVM atoms.  *)
(*   <<"nil">> | <<"int", bytes>> | <<"str", quote, bytes>> | <<"sym", bytes>> *)
(* An Integer is represented by the bytes u8_from_number gives for it (its    *)
(* minimal signed encoding; zero is <<0>>), so no TLC integer is involved.    *)
(* fixed = TRUE is the current integer mode, FALSE the legacy one.            *)
EXTENDS ClvmValues

\* printable(a, quoted) of compiler/sexp.rs
PrintableByte(c, quoted) == ~(c < 32 \/ c > 126 \/ (~quoted /\ (c \in {32, 9, 10, 12, 13, 39})) \/ c = 34 \/ c = 92)
Printable(bs, quoted) == \A i \in 1..Len(bs) : PrintableByte(bs[i], quoted)

\* u8_from_number(number_from_u8(bs)) = bs
SelfCanon(bs) == bs # <<>> /\ (IsCanon(bs) \/ bs = <<0>>)

FromClvmAtom(bs, fixed) ==
  IF bs = <<>> THEN <<"nil">>
  ELSE IF SelfCanon(bs) THEN (IF fixed /\ bs = <<0>> THEN <<"str", 120, bs>> ELSE <<"int", bs>>)
  ELSE IF fixed /\ ~Printable(bs, TRUE) THEN <<"str", 120, bs>>
  ELSE <<"sym", bs>>

ToClvmAtom(r, fixed) ==
  CASE r[1] = "nil" -> <<>>
    [] r[1] = "sym" -> r[2]
    [] r[1] = "str" -> r[3]
    [] r[1] = "int" -> IF fixed /\ r[2] = <<0>> THEN <<>> ELSE r[2]

RichBytes(r) == CASE r[1] = "nil" -> <<>> [] r[1] = "sym" -> r[2] [] r[1] = "str" -> r[3] [] r[1] = "int" -> r[2]
RichNilp(r) == \/ r[1] = "nil" \/ (r[1] = "sym" /\ r[2] = <<>>) \/ (r[1] = "str" /\ r[3] = <<>>)
               \/ (r[1] = "int" /\ r[2] = <<0>>)
\* SExp::equal_to on atoms
RichEq(x, y) == IF RichNilp(x) /\ RichNilp(y) THEN TRUE
                ELSE IF RichNilp(x) \/ RichNilp(y) THEN FALSE
                ELSE RichBytes(x) = RichBytes(y)

\* C07, conversion clause
RoundTrip(bs, fixed) == ToClvmAtom(FromClvmAtom(bs, fixed), fixed) = bs
\* C07, equality clause (fixed mode)
EqIffSameEncoding(x, y) == RichEq(x, y) <=> (ToClvmAtom(x, TRUE) = ToClvmAtom(y, TRUE))
=============================================================================
