------------------------------ MODULE Trace_Hier ------------------------------
(* Trace validation for C12, hierarchical (-t) view.  One record per run of   *)
(* the real HierarchialRunner, stepped as cmds.rs::cldb_hierarchy steps it:   *)
(*  prog, env, cons (the consensus evaluator on the program), syms (the       *)
(*  symbol table: code, name, formals, left per key whose code occurs), main    *)
(*  (name and formals of the outermost frame), flat_steps, end, and events:    *)
(*   none(n) | info(d, name, pur, nargs, kind, has, op, args, value, cons)    *)
(*   | call(d, name, pur, code, argv, holder, nargs) | return(d, name, pur,   *)
(*   from, value, cons?) | done(d) | error.                                    *)
(* Judged on what C12 states (terminal row, truth of rows, termination) and   *)
(* on the truth of what a function frame claims (name, arguments, returned    *)
(* value); the model of Hierarchy.tla must reproduce the events (drift).      *)
EXTENDS Hierarchy, Json, IOUtils, TLC, FiniteSets
Rec == ndJsonDeserialize(IOEnv.TRACE)
VARIABLES l, bad, cnt, drift
vars == <<l, bad, cnt, drift>>
Init == l = 1 /\ bad = {} /\ drift = {} /\ cnt = [runs |-> 0, events |-> 0, rows_checked |-> 0, calls |-> 0, returns_checked |-> 0,
                                    explained |-> 0, unexplained |-> 0, model_unknown |-> 0, limit |-> 0]
SetOfSeq(s) == { s[i] : i \in 1..Len(s) }
NArgs(x) == { <<x[i][1], x[i][2]>> : i \in 1..Len(x) }
SymSet(e) == { [code |-> e.syms[i].code, name |-> e.syms[i].name, formals |-> e.syms[i].formals, left |-> e.syms[i].left] : i \in 1..Len(e.syms) }

\* the observed events in the normal form shared with the model
ObsRow(x) == IF x.kind = "row" THEN (IF x.has THEN <<"row", x.op, x.args, x.value>> ELSE <<"row?">>)
             ELSE IF x.kind = "final" THEN <<"final", x.value>> ELSE IF x.kind = "failure" THEN <<"failure">> ELSE <<"other">>
ObsNorm(x) == CASE x.k = "none" -> <<"none", x.n>>
                [] x.k = "info" -> <<"info", x.d, x.name, x.pur, ObsRow(x), NArgs(x.nargs)>>
                [] x.k = "call" -> <<"call", x.d, x.name, x.code, x.argv, NArgs(x.nargs)>>
                [] x.k = "return" -> <<"return", x.d, x.name, x.pur, x.from, x.value>>
                [] x.k = "done" -> <<"done", x.d>>
                [] OTHER -> <<"error">>
\* the model's trace in the same form, runs of silent steps counted
RECURSIVE ModNorm(_, _, _, _)
ModNorm(tr, i, run, acc) ==
  LET flush == IF run > 0 THEN Append(acc, <<"none", run>>) ELSE acc IN
  IF i > Len(tr) THEN flush
  ELSE LET t == tr[i] IN
       CASE t.ev = <<"none">> -> ModNorm(tr, i + 1, run + 1, acc)
         [] t.ev[1] = "info" -> ModNorm(tr, i + 1, 0, Append(flush, <<"info", t.d, t.name, t.pur, t.ev[2], t.na>>))
         [] t.ev[1] = "shape" /\ t.ev[2] = "call" -> ModNorm(tr, i + 1, 0, Append(flush, <<"call", t.d, t.name, t.ev[3], t.ev[4], t.na>>))
         [] t.ev[1] = "shape" -> ModNorm(tr, i + 1, 0, Append(flush, <<"return", t.d, t.name, t.pur, t.ev[3], t.ev[4]>>))
         [] t.ev = <<"done">> -> ModNorm(tr, i + 1, 0, Append(flush, <<"done", t.d>>))
         [] OTHER -> Append(flush, <<"limit">>)

Next ==
  /\ l <= Len(Rec) /\ l' = l + 1
  /\ LET e == Rec[l]
         E == e.events
         R == 1..Len(E)
         Sym == SymSet(e)
         InfoIdx == { i \in R : E[i].k = "info" }
         lastinfo == IF InfoIdx = {} THEN 0 ELSE CHOOSE i \in InfoIdx : \A j \in InfoIdx : j <= i
         \* the run ends (a step limit is only a verdict when the flat debugger needs far fewer steps)
         finishes == e.end = "ended" \/ (e.end = "limit" /\ 3 * e.flat_steps + 100 > e.limit)
         \* exactly one terminal row, the last one: the Final row of the outermost frame carrying the consensus value,
         \* a failure row exactly when the consensus evaluator fails
         terminal == e.end # "ended" \/ e.cons[1] \notin {"ok", "err"} \/
                     ( /\ lastinfo # 0
                       /\ (e.cons[1] = "ok" => E[lastinfo].kind = "final" /\ E[lastinfo].d = 1 /\ Ok(E[lastinfo].value) = e.cons)
                       /\ (e.cons[1] = "err" => E[lastinfo].kind = "failure")
                       /\ \A i \in InfoIdx : E[i].kind = "failure" => i = lastinfo )
         \* every row that reports an operator, its arguments and a value is true of the consensus evaluator
         BadRows == { i \in InfoIdx : E[i].kind = "row" /\ E[i].has /\ E[i].cons # Ok(E[i].value) }
         \* a function frame is what it says: the name the symbol table stores for the code it runs, the arguments
         \* found where the recorded parameter list puts them, a placeholder frame of the same function below it
         BadCalls == { i \in R : E[i].k = "call" /\
                         ~( /\ \E s \in Sym : s.code = E[i].code /\ s.name = E[i].name
                                              /\ NArgs(E[i].nargs) = ArgMap(ArgsFromEnv(s.formals, E[i].argv, s.left))
                            /\ E[i].pur = "arg" /\ E[i].holder.name = E[i].name /\ E[i].holder.pur = "main" /\ E[i].d >= 3 ) }
         \* ... and hands back what the consensus evaluator computes for (code, argument value)
         Returns == { i \in R : E[i].k = "return" /\ "cons" \in DOMAIN E[i] }
         BadReturns == { i \in Returns : E[i].cons # Ok(E[i].value) }
         depthok == \A i \in R : E[i].k \in {"none", "done", "error"} \/ E[i].d >= 1
         \* does the frame machine of the specification produce exactly these events?
         mt == HTrace(Sym, e.prog, e.env, e.main.formals, e.main.name)
         mn == ModNorm(mt, 1, 0, <<>>)
         on == [i \in R |-> ObsNorm(E[i])]
         FirstDiff == LET D == { i \in 1..(IF Len(mn) < Len(on) THEN Len(mn) ELSE Len(on)) : mn[i] # on[i] } IN
                      IF D = {} THEN (IF Len(mn) < Len(on) THEN Len(mn) ELSE Len(on)) + 1 ELSE CHOOSE i \in D : \A j \in D : i <= j
         explained == IF Limited(mt) \/ e.end # "ended" THEN "unknown"
                      ELSE IF mn = on THEN "yes" ELSE "no"
         good == finishes /\ terminal /\ BadRows = {} /\ BadCalls = {} /\ BadReturns = {} /\ depthok /\ e.end # "error"
     IN /\ bad' = IF good THEN bad
                  ELSE bad \cup {<<l, [finishes |-> finishes, terminal |-> terminal, false_rows |-> BadRows, bad_calls |-> BadCalls,
                                       bad_returns |-> BadReturns, depthok |-> depthok, end |-> e.end, model_explains |-> explained]>>}
        /\ drift' = IF explained = "no" /\ Cardinality(drift) < 6
                     THEN drift \cup {<<l, FirstDiff, IF FirstDiff <= Len(mn) THEN mn[FirstDiff] ELSE <<"end">>,
                                        IF FirstDiff <= Len(on) THEN on[FirstDiff] ELSE <<"end">>>>} ELSE drift
        /\ cnt' = [cnt EXCEPT !.runs = @ + 1, !.events = @ + Len(E),
                              !.rows_checked = @ + Cardinality({ i \in InfoIdx : E[i].kind = "row" /\ E[i].has }),
                              !.calls = @ + Cardinality({ i \in R : E[i].k = "call" }),
                              !.returns_checked = @ + Cardinality(Returns),
                              !.explained = @ + (IF explained = "yes" THEN 1 ELSE 0),
                              !.unexplained = @ + (IF explained = "no" THEN 1 ELSE 0),
                              !.model_unknown = @ + (IF explained = "unknown" THEN 1 ELSE 0),
                              !.limit = @ + (IF e.end = "limit" THEN 1 ELSE 0)]
Spec == Init /\ [][Next]_vars
Finished == l > Len(Rec) => PrintT(<<"RESULT", ToJson([n |-> Len(Rec), bad |-> bad, cnt |-> cnt, drift |-> drift])>>)
=============================================================================
