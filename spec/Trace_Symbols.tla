----------------------------- MODULE Trace_Symbols -----------------------------
(* Trace validation for C13.  One record per (program, build): the AST and,   *)
(* for every function entry of the symbol table (a 64-hex-digit key h with a   *)
(* companion h_arguments): the name it maps to, the argument text recorded,    *)
(* the parameter list of the source function of that name as the harness       *)
(* prints it, whether code with tree hash h occurs in the emitted program, and *)
(* the outcomes of running the code extracted through the entry on argument    *)
(* trees.                                                                       *)
EXTENDS Chialisp, Json, IOUtils, FiniteSets
Rec == ndJsonDeserialize(IOEnv.TRACE)

FnNames(P) == {P.helpers[i][2] : i \in {j \in 1..Len(P.helpers) : P.helpers[j][1] = "defun"}}
Inline(P, n) == HelperNamed(P, n)[5]
\* functions called (by name) in an expression, looking through everything
RECURSIVE CalledIn(_)
CalledIn(e) ==
  CASE e[1] \in {"lit", "mod"} -> {}
    [] e[1] = "var" -> {e[2]}          \* a function name used as a value keeps the function alive
    [] e[1] = "prim" -> UNION {CalledIn(e[3][i]) : i \in 1..Len(e[3])}
    [] e[1] = "list" -> UNION {CalledIn(e[2][i]) : i \in 1..Len(e[2])}
    [] e[1] = "call" -> {e[2]} \cup UNION {CalledIn(e[3][i]) : i \in 1..Len(e[3])} \cup (IF e[4][1] = "none" THEN {} ELSE CalledIn(e[4]))
    [] e[1] = "if" -> CalledIn(e[2]) \cup CalledIn(e[3]) \cup CalledIn(e[4])
    [] e[1] = "let" -> UNION {CalledIn(e[3][i][2]) : i \in 1..Len(e[3])} \cup CalledIn(e[4])
    [] e[1] = "assign" -> UNION {CalledIn(e[2][i][2]) : i \in 1..Len(e[2])} \cup CalledIn(e[3])
    [] e[1] = "lambda" -> CalledIn(e[4])
    [] e[1] = "apply" -> CalledIn(e[2]) \cup CalledIn(e[3])
    [] OTHER -> {}
RECURSIVE ReachFrom(_, _, _)
ReachFrom(P, todo, done) ==
  IF todo = {} THEN done
  ELSE LET n == CHOOSE x \in todo : TRUE
           body == HelperNamed(P, n)[4]
           next == (CalledIn(body) \cap FnNames(P)) \ (done \cup {n})
       IN ReachFrom(P, (todo \ {n}) \cup next, done \cup {n})
Reachable(P) == ReachFrom(P, CalledIn(P.body) \cap FnNames(P), {})

VARIABLES l, bad, cnt
vars == <<l, bad, cnt>>
Init == l = 1 /\ bad = {} /\ cnt = [records |-> 0, entries |-> 0, calls |-> 0, calls_compared |-> 0, presence_checked |-> 0]
Synth(n) == FALSE
Next ==
  /\ l <= Len(Rec) /\ l' = l + 1
  /\ LET e == Rec[l]
         P == e.ast
         E == 1..Len(e.entries)
         \* an entry whose code occurs in the program names a function of the source with that function's parameter list
         B1 == {<<l, "name-or-arguments", i>> : i \in {j \in E : e.entries[j].in_program /\ e.entries[j].is_user_function
                                                         /\ e.entries[j].args_text # e.entries[j].pat_text}}
         \* extracting the code through the entry and running it gives what calling the function in the source gives
         CallsOf(i) == 1..Len(e.entries[i].calls)
         Src(i, k) == SApply(P, <<"clo", "fn", e.entries[i].name>>, e.entries[i].calls[k].args, 60)
         Clean(o) == o[1] # "ok" \/ ~HasClo(o[2])
         B2 == {<<l, "extracted-code-differs", i>> : i \in {j \in E : \E k \in CallsOf(j) :
                      LET s == Src(j, k) IN s[1] = "ok" /\ Clean(s) /\ e.entries[j].calls[k].out # s}}
         \* without optimisation every non-inline function reachable from the main expression has an entry whose code occurs
         Present == {e.entries[i].name : i \in {j \in E : e.entries[j].in_program}}
         \* (the table is keyed by the tree hash of the code: functions with identical code have one entry between them, so
         \* as many names may be absent as the function table has leaves repeating the code of another leaf: e.shared_code)
         Missing == {m \in Reachable(P) : ~Inline(P, m) /\ m \notin Present}
         B3 == IF e.optimized \/ ~e.reports_symbols \/ Cardinality(Missing) <= e.shared_code THEN {}
               ELSE {<<l, "reachable-function-without-entry", n>> : n \in Missing}
     IN /\ bad' = bad \cup B1 \cup B2 \cup B3
        /\ cnt' = [cnt EXCEPT !.records = @ + 1, !.entries = @ + Len(e.entries),
                              !.calls = @ + Cardinality({<<i, k>> \in E \X (1..3) : k \in CallsOf(i)}),
                              !.calls_compared = @ + Cardinality({<<i, k>> \in E \X (1..3) : k \in CallsOf(i) /\ Src(i, k)[1] = "ok"}),
                              !.presence_checked = @ + (IF e.optimized \/ ~e.reports_symbols THEN 0 ELSE Cardinality({m \in Reachable(P) : ~Inline(P, m)}))]
Spec == Init /\ [][Next]_vars
Finished == l > Len(Rec) => PrintT(<<"RESULT", ToJson([n |-> Len(Rec), bad |-> bad, cnt |-> cnt])>>)
=============================================================================
