-------------------------- MODULE Trace_AtomicWrite --------------------------
(* Trace validation for C19.  Every record is one scenario run against the   *)
(* real code in child processes:                                             *)
(*  Hook    one writer, crash injected at a hook point (or none): the hook   *)
(*          labels it logged, its exit, the final state of the target         *)
(*  Sys     the file-system calls of one clean writer (from strace), mapped   *)
(*          to abstract operations                                            *)
(*  SysKill the writer killed before its k-th traced system call              *)
(*  Conc    n concurrent writer processes and polling readers                 *)
(*  Compile the file-to-file entry point compile_clvm with a crash point      *)
(*  Fault   compile_clvm / gentle_overwrite under a file size limit that      *)
(*          stops the staged write part way                                    *)
(* The one-writer program of AtomicWrite.tla (instantiated with one writer,   *)
(* one chunk) gives the admissible label sequences and final states.          *)
EXTENDS Integers, Sequences, FiniteSets, TLC, Json, IOUtils
Rec == ndJsonDeserialize(IOEnv.TRACE)

IsPrefix(p, s) == Len(p) <= Len(s) /\ SubSeq(s, 1, Len(p)) = p
Existed(kind) == kind # "absent"
Same(kind) == kind \in {"same", "readonly_same"}
Writable(kind) == kind \notin {"readonly", "readonly_same"}
\* the labels of a complete run of the one-writer program (AtomicWrite!Labels)
Labels(kind) ==
  <<"gentle.start">> \o (IF Existed(kind) THEN <<"gentle.read_prev">> ELSE <<>>) \o <<"atomic.start">>
  \o (IF Writable(kind) THEN <<"atomic.temp_created", "atomic.written", "atomic.persisted">> ELSE <<>>)
InSeq(x, s) == \E i \in 1..Len(s) : s[i] = x
Intact(kind, fin) == \/ (fin = "old" /\ Existed(kind))
                     \/ (fin = "absent" /\ ~Existed(kind))
                     \/ fin \notin {"old", "absent", "empty", "partial", "unreadable"}    \* new:<id>, a complete new content
\* what the model says the target holds after the logged prefix of the program
Predicted(kind, labels) == IF InSeq("atomic.persisted", labels) /\ ~Same(kind) THEN "new"
                           ELSE IF Existed(kind) THEN "old" ELSE "absent"

HookOk(e) ==
  LET full == Labels(e.kind)
      crashed == e.crash_at # "" /\ InSeq(e.crash_at, full) IN
  /\ IsPrefix(e.labels, full)                                          \* the run is a behaviour of the model's writer
  /\ (crashed => (e.result = "killed" /\ e.labels # <<>> /\ e.labels[Len(e.labels)] = e.crash_at))
  /\ (~crashed => (e.labels = full /\ e.result = (IF Writable(e.kind) \/ Same(e.kind) THEN "ok" ELSE "err")))
  /\ Intact(e.kind, e.final)                                           \* C19, crash clause
  /\ (Predicted(e.kind, e.labels) = "new" => e.final \notin {"old", "absent"})
  /\ (Predicted(e.kind, e.labels) # "new" => e.final = Predicted(e.kind, e.labels))

\* open(T) read-only at most once first, one exclusive temporary, writes to it, one rename onto T, nothing else on T
SysOk(e) ==
  LET c == e.calls
      body == IF c # <<>> /\ c[1] = "open_T_rdonly" THEN Tail(c) ELSE c IN
  /\ ~InSeq("mutate_T", c)
  /\ Len(body) >= 3 /\ body[1] = "open_excl_tmp" /\ body[Len(body)] = "rename_tmp_T"
  /\ \A i \in 2..(Len(body) - 1) : body[i] = "write_tmp"
  /\ Intact(e.kind, e.final)

ConcOk(e) == /\ \A i \in 1..Len(e.observations) : Intact(e.kind, e.observations[i])
             /\ Intact(e.kind, e.final)
             /\ \A i \in 1..Len(e.exit_codes) : e.exit_codes[i] = 0

CompileOk(e) == e.final \in {"old", "new:compiled"} /\ (e.crash_at \in {"", "atomic.persisted"} => e.final = "new:compiled")

\* Fault: the staged write was stopped part way by the environment (file size limit); AtomicWrite!WriteFails with
\* OnError = "report": the target is as it was, equal contents still succeed, a failure is not reported as success
FaultOk(e) == /\ Intact(e.kind, e.final)
              /\ (Same(e.kind) => e.result = "ok")
              /\ (e.result = "ok" /\ ~Same(e.kind) => e.final \notin {"old", "absent"})
              /\ (e.fault_hit /\ ~Same(e.kind) => (e.result = "err" /\ e.final = (IF Existed(e.kind) THEN "old" ELSE "absent")))

VARIABLES l, bad, cnt
vars == <<l, bad, cnt>>
Init == l = 1 /\ bad = {} /\ cnt = [Hook |-> 0, Sys |-> 0, SysKill |-> 0, Conc |-> 0, Compile |-> 0, Fault |-> 0, reached |-> {}]
Next == /\ l <= Len(Rec) /\ l' = l + 1
        /\ LET e == Rec[l]
               ok == CASE e.ev = "Hook" -> HookOk(e)
                       [] e.ev = "Sys" -> SysOk(e)
                       [] e.ev = "SysKill" -> Intact(e.kind, e.final)
                       [] e.ev = "Conc" -> ConcOk(e)
                       [] e.ev = "Compile" -> CompileOk(e)
                       [] e.ev = "Fault" -> FaultOk(e)
                       [] OTHER -> TRUE
           IN /\ bad' = IF ok THEN bad ELSE bad \cup {l}
              /\ cnt' = [cnt EXCEPT ![e.ev] = @ + 1,
                                    !.reached = IF e.ev = "Hook" /\ e.result = "killed" THEN @ \cup {e.crash_at} ELSE @]
Spec == Init /\ [][Next]_vars
Finished == l > Len(Rec) => PrintT(<<"RESULT", ToJson([n |-> Len(Rec), bad |-> bad, cnt |-> cnt])>>)
=============================================================================
