---------------------------- MODULE ClvmStepper ----------------------------
(* The tool's own step machine (compiler/clvm.rs: run_step / combine), one  *)
(* CASE arm per arm of the implementation.  A state is the chain of frames, *)
(* top first; the bottom of every chain is Done(program).                   *)
(*   <<"Step", x, env>>   <<"Op", head, env, done, rest>>                   *)
(*   <<"OpN", head, env, args>>  (Op with no arguments left to evaluate)    *)
(*   <<"Res", v>>  <<"Done", v>>                                            *)
(* Values are CLVM values; HeadMode says how operator atoms are spelled:    *)
(* "int" (numbers, as converted from CLVM) or "sym" (names as read from     *)
(* text, translated through the primitive table).                           *)
EXTENDS Clvm

FStep(x, e) == <<"Step", x, e>>
FOp(h, e, done, rest) == <<"Op", h, e, done, rest>>
FOpN(h, e, args) == <<"OpN", h, e, args>>
FRes(v) == <<"Res", v>>
FDone(v) == <<"Done", v>>
Start(p, e) == << FStep(p, e), FDone(p) >>
FailS == << <<"Fail">> >>

RECURSIVE Combine(_, _)
Combine(v, S) ==
   LET t == S[1] IN
   CASE t[1] = "Done" -> << FDone(v) >>
     [] t[1] = "Op"   -> << FOp(t[2], t[3], Cons(v, t[4]), t[5]) >> \o Tail(S)
     [] OTHER         -> Combine(v, Tail(S))

\* the primitive table (name bytes -> opcode bytes), compiler/prims.rs
NameOp(bs) ==
  CASE bs = <<113>> -> <<1>>  [] bs = <<97>> -> <<2>>   [] bs = <<105>> -> <<3>>  [] bs = <<99>> -> <<4>>
    [] bs = <<102>> -> <<5>>  [] bs = <<114>> -> <<6>>  [] bs = <<108>> -> <<7>>  [] bs = <<120>> -> <<8>>
    [] bs = <<61>> -> <<9>>   [] bs = <<62, 115>> -> <<10>>  [] bs = <<43>> -> <<16>>  [] bs = <<45>> -> <<17>>
    [] bs = <<42>> -> <<18>>  [] bs = <<47>> -> <<19>>  [] bs = <<62>> -> <<21>>  [] bs = <<37>> -> <<61>>
    [] OTHER -> bs

\* an unsigned number's canonical signed spelling: leading zero bytes stripped, one kept when the top bit is set
PosCanon(bs) == LET f == FirstNonZero(bs, 1) IN
                IF f > Len(bs) THEN <<>>
                ELSE LET t == SubSeq(bs, f, Len(bs)) IN IF t[1] >= 128 THEN <<0>> \o t ELSE t

\* truthy() of the stepping evaluator in the fixed integer mode, on a value whose
\* atoms came from CLVM: canonical integers are numbers (zero is impossible but for
\* the empty atom), everything else is a byte string, truthy iff non-empty
StepTruthy(v) == Truthy(v)

RECURSIVE StepFn(_, _), RunSteps(_, _, _)

FailWith(kind) == << <<"Fail", kind>> >>

\* the part of Step(Cons(a, b)) after the head has been translated to opcode bytes h
AfterHead(h, b, env, S) ==
   IF Canon(h) = <<1>> THEN Combine(b, Tail(S))
   ELSE IF StepTruthy(ListTail(b)) THEN FailS
   ELSE <<FOp(A(Canon(h)), env, ListTail(b), ListItems(b))>> \o Tail(S)

StepFn(S, HeadMode) ==
  LET t == S[1] IN
  CASE t[1] = "Res" -> Combine(t[2], Tail(Tail(S)))   \* the producer frame is skipped, then as combine does
    [] t[1] = "Step" ->
         LET x == t[2] env == t[3] IN
         IF IsAtom(x) THEN
            IF BytesOf(x) = <<>> THEN <<FRes(Nil)>> \o S
            ELSE IF ~IsCanon(BytesOf(x))
                 THEN \* Atom / QuotedString spelling is re-read as an unsigned number first (one machine step)
                      <<FStep(A(PosCanon(BytesOf(x))), env)>> \o Tail(S)
            ELSE LET r == Lookup(BytesOf(x), env) IN IF r[1] = "ok" THEN <<FRes(r[2])>> \o S ELSE FailS
         ELSE
            LET a == First(x) b == Rest(x) IN
            IF IsPair(a) THEN
               \* a one-element list in head position is *evaluated* (a nested run of this
               \* machine) and its value used as the operator -- a deliberate deviation of
               \* the implementation from the consensus ((X) ...) form, modelled as it is
               IF Rest(a) # Nil THEN FailS
               ELSE LET hv == RunSteps(Start(a, env), HeadMode, 100) IN
                    IF hv[1] # "ok" THEN FailWith(hv[1])
                    ELSE IF IsPair(hv[2]) THEN FailS
                    ELSE AfterHead(BytesOf(hv[2]), b, env, S)
            ELSE IF BytesOf(a) = <<>> THEN FailS
            ELSE LET h == IF HeadMode = "sym" THEN NameOp(BytesOf(a)) ELSE BytesOf(a) IN
                 \* bytes that are not the minimal spelling of a number are not an opcode
                 IF ~IsCanon(h) THEN FailS ELSE AfterHead(h, b, env, S)
    [] t[1] = "Op" ->
         IF t[5] = <<>> THEN <<FOpN(t[2], t[3], t[4])>> \o Tail(S)
         ELSE LET n == Len(t[5]) IN
              <<FStep(t[5][n], t[3]), FOp(t[2], t[3], t[4], SubSeq(t[5], 1, n - 1))>> \o Tail(S)
    [] t[1] = "OpN" ->
         LET h == Canon(BytesOf(t[2])) args == ListItems(t[4]) IN
         IF StepTruthy(ListTail(t[4])) THEN FailS ELSE
         (CASE h = <<3>> -> IF Len(args) # 3 THEN FailS
                           ELSE Combine(IF StepTruthy(args[1]) THEN args[2] ELSE args[3], Tail(S))
           [] h = <<4>> -> IF Len(args) # 2 THEN FailS ELSE <<FRes(Cons(args[1], args[2]))>> \o S
           [] h = <<5>> -> IF Len(args) # 1 \/ IsAtom(args[1]) THEN FailS ELSE <<FRes(First(args[1]))>> \o S
           [] h = <<6>> -> IF Len(args) # 1 \/ IsAtom(args[1]) THEN FailS ELSE <<FRes(Rest(args[1]))>> \o S
           [] h = <<2>> -> IF Len(args) # 2 THEN FailS ELSE <<FStep(args[1], args[2])>> \o Tail(S)
           [] OTHER -> \* delegated to the consensus evaluator with the head as written
                       LET r == Apply(h, args, 1000) IN
                       IF r[1] = "ok" THEN <<FRes(r[2])>> \o S ELSE FailWith(r[1]))
    [] OTHER -> FailS

IsFinal(S) == S[1][1] \in {"Done", "Fail"}

RunSteps(S, HeadMode, fuel) ==
  IF fuel = 0 THEN OutOfFuel
  ELSE IF S[1][1] = "Done" THEN Ok(S[1][2])
  ELSE IF S[1][1] = "Fail" THEN (IF Len(S[1]) > 1 /\ S[1][2] = "oom" THEN Oom
                                 ELSE IF Len(S[1]) > 1 /\ S[1][2] = "fuel" THEN OutOfFuel ELSE Err)
  ELSE RunSteps(StepFn(S, HeadMode), HeadMode, fuel - 1)

StepperOutcome(p, e, HeadMode) == RunSteps(Start(p, e), HeadMode, 400)

\* C06 at model level: the machine finishes with v exactly when the big-step semantics
\* returns v and fails exactly when it fails (fuel / out-of-model outcomes are not compared)
Agrees(p, e, HeadMode) ==
  LET b == Eval(p, e, 30) s == StepperOutcome(p, e, HeadMode) IN
  (b[1] \in {"ok", "err"} /\ s[1] \in {"ok", "err"}) => b = s

\* projection logged by the harness after every real run_step
Proj(S) == LET t == S[1] IN
   CASE t[1] = "Step" -> [k |-> "Step", v |-> t[2], e |-> t[3], d |-> Len(S)]
     [] t[1] = "Op"   -> [k |-> "Op", h |-> t[2], v |-> t[4], rest |-> t[5], d |-> Len(S)]
     [] t[1] = "OpN"  -> [k |-> "OpN", h |-> t[2], v |-> t[4], d |-> Len(S)]
     [] t[1] = "Res"  -> [k |-> "Res", v |-> t[2], d |-> Len(S)]
     [] t[1] = "Done" -> [k |-> "Done", v |-> t[2], d |-> Len(S)]
     [] OTHER -> [k |-> "Fail"]
=============================================================================
