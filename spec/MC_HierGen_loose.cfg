SPECIFICATION Spec
CONSTANTS MaxLen = 5
 Profile = "hier"
 EnvSet = "hier"
 ExtraCheck <- HierCheck
 LooseArity <- Loose
CHECK_DEADLOCK FALSE
