SPECIFICATION Spec
CONSTANTS Writers = {1, 2}
 NChunks = 2
 InitKind = "different"
 InPlace = FALSE
 Faults = TRUE
 OnError = "inplace"
INVARIANTS TargetIntact ReaderSeesComplete
CHECK_DEADLOCK FALSE
