-------------------------------- MODULE Cldb --------------------------------
(* The debugger's row assembler (compiler/cldb.rs, CldbRun::step) on top of  *)
(* the step machine of ClvmStepper.  After every machine step the new top    *)
(* frame is observed:                                                        *)
(*   Op with all arguments evaluated -> remember operator and arguments,      *)
(*                                      in_expr := TRUE                       *)
(*   an operator result while in_expr -> emit a row (operator, arguments,     *)
(*                                      value), in_expr := FALSE              *)
(*   Done -> emit the Final row;  failure -> emit the Failure row.            *)
(* A run is the sequence of rows  <<"row", op, args, value>> | <<"final", v>> *)
(* | <<"failure">>.                                                           *)
EXTENDS ClvmStepper

RECURSIVE Rows(_, _, _, _, _)
\* S machine state, pend = <<>> | <<op, args>>, inexpr, acc rows, fuel
Rows(S, pend, inexpr, acc, fuel) ==
  IF fuel = 0 THEN Append(acc, <<"limit">>)
  ELSE LET N == StepFn(S, "int") t == N[1] IN
       CASE t[1] = "Fail" -> (IF Len(t) > 1 /\ t[2] = "oom" THEN Append(acc, <<"limit">>)   \* outside the modelled arithmetic
                               ELSE Append(acc, <<"failure">>))
         [] t[1] = "Done" -> Append(acc, <<"final", t[2]>>)
         [] t[1] = "OpN"  -> Rows(N, <<t[2], ListItems(t[4])>>, TRUE, acc, fuel - 1)
         [] t[1] = "Res"  -> IF inexpr /\ pend # <<>>
                             THEN Rows(N, pend, FALSE, Append(acc, <<"row", pend[1], pend[2], t[2]>>), fuel - 1)
                             ELSE Rows(N, pend, FALSE, acc, fuel - 1)
         [] OTHER -> Rows(N, pend, inexpr, acc, fuel - 1)
Trace(p, e) == Rows(Start(p, e), <<>>, FALSE, <<>>, 400)

\* C12 on the model
RowTrue(r) == LET m == Apply(BytesOf(r[2]), r[3], 30) IN m[1] \in {"oom", "fuel"} \/ m = Ok(r[4])
FinalOk(p, e) == LET tr == Trace(p, e) b == Eval(p, e, 30) last == tr[Len(tr)] IN
                 (b[1] = "ok" => last = <<"final", b[2]>>) /\ (b[1] = "err" => last = <<"failure">>)
FalseRows(p, e) == LET tr == Trace(p, e) IN {i \in 1..Len(tr) : tr[i][1] = "row" /\ ~RowTrue(tr[i])}
\* the deliberate deviation: a row whose operator is apply (or if) carries the next value computed elsewhere (these operators have no result event)
OnlyApplyRowsFalse(p, e) == LET tr == Trace(p, e) IN \A i \in FalseRows(p, e) : BytesOf(tr[i][2]) \in {<<2>>, <<3>>}
=============================================================================
