------------------------------- MODULE MC_Rich -------------------------------
(* All atoms of <= MaxLen bytes (Full) / over a boundary alphabet (longer),  *)
(* both integer modes: conversion round trip on the model, one replay vector *)
(* per (atom, mode).  All pairs of spellings of a boundary set of atoms:      *)
(* equality iff same encoding.                                                *)
EXTENDS RichValues, Json, TLC
CONSTANTS FullLen, BoundaryLen
Boundary == {0, 1, 9, 32, 34, 39, 48, 65, 92, 97, 120, 126, 127, 128, 129, 200, 254, 255}
VARIABLES bs, emitted
vars == <<bs, emitted>>
Init == bs = <<>> /\ emitted = FALSE
Grow(b) == /\ ~emitted
           /\ \/ Len(bs) < FullLen
              \/ (Len(bs) < BoundaryLen /\ b \in Boundary /\ \A i \in 1..Len(bs) : bs[i] \in Boundary)
           /\ bs' = Append(bs, b) /\ UNCHANGED emitted
Emit == /\ ~emitted /\ emitted' = TRUE /\ UNCHANGED bs
        /\ \A fixed \in BOOLEAN :
             /\ Assert(RoundTrip(bs, fixed), <<"round trip fails on the model", bs, fixed>>)
             /\ PrintT(<<"V", ToJson([atom |-> bs, fixed |-> fixed, rich |-> FromClvmAtom(bs, fixed)])>>)
Next == (\E b \in 0..255 : Grow(b)) \/ Emit
Spec == Init /\ [][Next]_vars

EqAtoms == {<<>>, <<0>>, <<1>>, <<127>>, <<128>>, <<255>>, <<97>>, <<34>>, <<0, 1>>, <<0, 128>>, <<255, 255>>, <<255, 127>>, <<97, 98>>, <<1, 0>>}
Spellings(a) == {<<"sym", a>>, <<"str", 34, a>>, <<"str", 120, a>>}
                \cup (IF a = <<>> THEN {<<"nil">>} ELSE {})
                \* Integer 0 is not obtainable in the fixed mode: the reader turns 0 into Nil and
                \* the conversion from CLVM turns the atom 0x00 into a byte string
                \cup (IF SelfCanon(a) /\ a # <<0>> THEN {<<"int", a>>} ELSE {})
RichSet == UNION {Spellings(a) : a \in EqAtoms}
EqClause == \A x \in RichSet, y \in RichSet : EqIffSameEncoding(x, y)
PrintPairs == \A x \in RichSet, y \in RichSet : PrintT(<<"W", ToJson([x |-> x, y |-> y, eq |-> RichEq(x, y)])>>)
=============================================================================
