SPECIFICATION Spec
INVARIANT Finished
CHECK_DEADLOCK FALSE
