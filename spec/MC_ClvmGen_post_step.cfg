SPECIFICATION Spec
CONSTANTS MaxLen = 4
 Profile = "stepper"
 EnvSet = "clean"
 ExtraCheck <- NoExtra
CHECK_DEADLOCK FALSE
