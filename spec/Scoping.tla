------------------------------- MODULE Scoping -------------------------------
(* Static well-formedness of Chialisp programs, decided from the AST alone:  *)
(*  - Unbound(P): variables used in reachable code that no binder in scope    *)
(*    introduces (parameters, let/assign names, lambda captures and args,     *)
(*    constants, function names)                                              *)
(*  - Duplicates(P): helper names defined twice                               *)
(*  - InlineCycle(P): a cycle in the call graph restricted to inline          *)
(*    functions, reachable from the main expression                           *)
(*  - AssignBad(P): an assign form with a repeated name or cyclic bindings    *)
(* Also two small algorithm models the compiler relies on: the visited-set    *)
(* discipline of inline expansion and the topological sort of bindings.       *)
EXTENDS Chialisp, FiniteSets

RECURSIVE PatNames(_)
PatNames(p) == CASE p[1] = "pn" -> {} [] p[1] = "pv" -> {p[2]} [] p[1] = "pat" -> {p[2]} \cup PatNames(p[3])
                 [] p[1] = "pc" -> PatNames(p[2]) \cup PatNames(p[3])
Globals(P) == {P.helpers[i][2] : i \in 1..Len(P.helpers)}

\* free variables of an expression that are not in `bound` (names in call position are function names, not variables)
RECURSIVE FreeIn(_, _), FreeSeq(_, _, _)
FreeSeq(es, k, bound) == IF k > Len(es) THEN {} ELSE FreeIn(es[k], bound) \cup FreeSeq(es, k + 1, bound)
RECURSIVE LetSeqFree(_, _, _, _), AssignFree(_, _, _, _)
LetSeqFree(bs, k, body, bound) == IF k > Len(bs) THEN FreeIn(body, bound)
                                  ELSE FreeIn(bs[k][2], bound) \cup LetSeqFree(bs, k + 1, body, bound \cup {bs[k][1]})
AssignFree(bs, k, body, bound) == \* assign bindings may refer to each other in any order
   LET all == bound \cup UNION {PatNames(bs[i][1]) : i \in 1..Len(bs)} IN
   UNION {FreeIn(bs[i][2], all) : i \in 1..Len(bs)} \cup FreeIn(body, all)
FreeIn(e, bound) ==
  CASE e[1] \in {"lit", "mod"} -> {}
    [] e[1] = "var" -> IF e[2] \in bound THEN {} ELSE {e[2]}
    [] e[1] = "prim" -> FreeSeq(e[3], 1, bound)
    [] e[1] = "list" -> FreeSeq(e[2], 1, bound)
    [] e[1] = "call" -> FreeSeq(e[3], 1, bound) \cup (IF e[4][1] = "none" THEN {} ELSE FreeIn(e[4], bound))
    [] e[1] = "if" -> FreeIn(e[2], bound) \cup FreeIn(e[3], bound) \cup FreeIn(e[4], bound)
    [] e[1] = "let" -> IF e[2] = "seq" THEN LetSeqFree(e[3], 1, e[4], bound)
                       ELSE UNION {FreeIn(e[3][i][2], bound) : i \in 1..Len(e[3])} \cup FreeIn(e[4], bound \cup {e[3][i][1] : i \in 1..Len(e[3])})
    [] e[1] = "assign" -> AssignFree(e[2], 1, e[3], bound)
    [] e[1] = "lambda" -> {n \in {e[2][i] : i \in 1..Len(e[2])} : n \notin bound}      \* a capture must itself be in scope
                          \cup FreeIn(e[4], {e[2][i] : i \in 1..Len(e[2])} \cup PatNames(e[3]))
    [] e[1] = "apply" -> FreeIn(e[2], bound) \cup FreeIn(e[3], bound)
    [] OTHER -> {}

\* helpers reachable from the main expression (by name, through everything)
RECURSIVE NamesIn(_)
NamesIn(e) ==
  CASE e[1] \in {"lit", "mod"} -> {}
    [] e[1] = "var" -> {e[2]}
    [] e[1] = "prim" -> UNION {NamesIn(e[3][i]) : i \in 1..Len(e[3])}
    [] e[1] = "list" -> UNION {NamesIn(e[2][i]) : i \in 1..Len(e[2])}
    [] e[1] = "call" -> {e[2]} \cup UNION {NamesIn(e[3][i]) : i \in 1..Len(e[3])} \cup (IF e[4][1] = "none" THEN {} ELSE NamesIn(e[4]))
    [] e[1] = "if" -> NamesIn(e[2]) \cup NamesIn(e[3]) \cup NamesIn(e[4])
    [] e[1] = "let" -> UNION {NamesIn(e[3][i][2]) : i \in 1..Len(e[3])} \cup NamesIn(e[4])
    [] e[1] = "assign" -> UNION {NamesIn(e[2][i][2]) : i \in 1..Len(e[2])} \cup NamesIn(e[3])
    [] e[1] = "lambda" -> NamesIn(e[4])
    [] e[1] = "apply" -> NamesIn(e[2]) \cup NamesIn(e[3])
    [] OTHER -> {}
Defuns(P) == {i \in 1..Len(P.helpers) : P.helpers[i][1] = "defun"}
BodyOf(P, n) == LET I == {i \in Defuns(P) : P.helpers[i][2] = n} IN P.helpers[CHOOSE i \in I : \A j \in I : i <= j][4]
RECURSIVE ReachNames(_, _, _)
ReachNames(P, todo, done) ==
  IF todo = {} THEN done
  ELSE LET n == CHOOSE x \in todo : TRUE
           next == (NamesIn(BodyOf(P, n)) \cap {P.helpers[i][2] : i \in Defuns(P)}) \ (done \cup {n})
       IN ReachNames(P, (todo \ {n}) \cup next, done \cup {n})
ReachableFns(P) == ReachNames(P, NamesIn(P.body) \cap {P.helpers[i][2] : i \in Defuns(P)}, {})

\* FreeIn works on local names only (a lambda body sees its captures and arguments, not the enclosing locals);
\* helper and constant names are visible everywhere
UnboundIn(P) ==
  (FreeIn(P.body, PatNames(P.args))
   \cup UNION {FreeIn(P.helpers[i][4], PatNames(P.helpers[i][3])) : i \in {j \in Defuns(P) : P.helpers[j][2] \in ReachableFns(P)}})
  \ Globals(P)
Duplicates(P) == {P.helpers[i][2] : i \in {j \in 1..Len(P.helpers) : \E k \in 1..Len(P.helpers) : k # j /\ P.helpers[k][2] = P.helpers[j][2]}}
InlineFns(P) == {P.helpers[i][2] : i \in {j \in Defuns(P) : P.helpers[j][5]}}
InlineEdges(P) == {<<a, b>> \in InlineFns(P) \X InlineFns(P) : b \in NamesIn(BodyOf(P, a))}
RECURSIVE ReachSet(_, _, _)
ReachSet(E, todo, done) == IF todo = {} THEN done
                           ELSE LET n == CHOOSE x \in todo : TRUE IN
                                ReachSet(E, (todo \ {n}) \cup ({e[2] : e \in {x \in E : x[1] = n}} \ (done \cup {n})), done \cup {n})
InlineCycle(P) == \E a \in InlineFns(P) \cap ReachableFns(P) : a \in ReachSet(InlineEdges(P), {e[2] : e \in {x \in InlineEdges(P) : x[1] = a}}, {})
AssignsIn(e) == {x \in SubExprs(e) : x[1] = "assign"}
AssignDup(a) == \E i, j \in 1..Len(a[2]) : i # j /\ PatNames(a[2][i][1]) \cap PatNames(a[2][j][1]) # {}
AssignCyclic(a) ==
  LET N == 1..Len(a[2])
      deps == {<<i, j>> \in N \X N : PatNames(a[2][j][1]) \cap NamesIn(a[2][i][2]) # {}}
  IN \E i \in N : i \in ReachSet(deps, {d[2] : d \in {x \in deps : x[1] = i}}, {})
AssignBad(P) == \E b \in AllBodies(P) : \E a \in AssignsIn(b) : AssignDup(a) \/ AssignCyclic(a)
IllScoped(P, strict) == (strict /\ UnboundIn(P) # {}) \/ Duplicates(P) # {} \/ InlineCycle(P) \/ AssignBad(P)
=============================================================================
