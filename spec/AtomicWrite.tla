----------------------------- MODULE AtomicWrite -----------------------------
(* The output-writing routine of file-to-file compilation                     *)
(* (util::gentle_overwrite / atomic_write_file) as processes over a small     *)
(* POSIX-like file system: a directory maps names to inodes, an inode holds   *)
(* a sequence of chunks; rename replaces a directory entry atomically.        *)
(* Writers may crash at every program point; readers open (snapshot of the    *)
(* entry) and then read.  InPlace = TRUE is the buggy variant that opens the  *)
(* target with truncation (kept to show the invariants are not vacuous).      *)
(* Faults = TRUE adds what the environment can do to a writer short of        *)
(* killing it: creating the temporary file fails (name too long, no inodes),  *)
(* a write to it fails part way (disk full, quota, file size limit).  OnError *)
(* is what the caller (clvmc::compile_clvm) does when the staged replacement  *)
(* reports an error: "report" (the code: the error is returned, the target    *)
(* is as it was) or "inplace" (fall back to writing the target directly; the  *)
(* variant TLC refutes).                                                      *)
EXTENDS Integers, Sequences, FiniteSets, TLC
CONSTANTS Writers, NChunks, InitKind, InPlace, Faults, OnError
\* InitKind \in {"absent", "same", "different", "readonly", "readonly_same"}

T == "target"
OldData == <<<<"old", 1>>>>
NewData(w) == [i \in 1..NChunks |-> <<w, i>>]
\* under "same"/"readonly_same" the first writer's content equals the old content
FirstWriter == CHOOSE x \in Writers : \A y \in Writers : x <= y
SameAs(w) == InitKind \in {"same", "readonly_same"} /\ w = FirstWriter
ContentOf(w) == IF SameAs(w) THEN OldData ELSE NewData(w)
Complete == {OldData} \cup {ContentOf(w) : w \in Writers}
DirWritable == InitKind \notin {"readonly", "readonly_same"}

VARIABLES dir, data, pc, tmp, prev, snap, seen, inodes
vars == <<dir, data, pc, tmp, prev, snap, seen, inodes>>

Init == /\ inodes = 1
        /\ dir = [n \in {T} |-> IF InitKind = "absent" THEN 0 ELSE 1]
        /\ data = [i \in {1} |-> OldData]
        /\ pc = [w \in Writers |-> "start"]
        /\ tmp = [w \in Writers |-> 0]
        /\ prev = [w \in Writers |-> <<>>]
        /\ snap = 0 /\ seen = {}

\* gentle_overwrite: read the previous contents
ReadPrev(w) == /\ pc[w] = "start"
               /\ prev' = [prev EXCEPT ![w] = IF dir[T] = 0 THEN <<"none">> ELSE data[dir[T]]]
               /\ pc' = [pc EXCEPT ![w] = "astart"]
               /\ UNCHANGED <<dir, data, tmp, snap, seen, inodes>>
IsSame(w) == prev[w] = ContentOf(w)
\* atomic_write_file: create the temporary sibling (O_EXCL, fresh name, same directory)
CreateTemp(w) == /\ pc[w] = "astart"
                 /\ IF InPlace
                    THEN /\ inodes' = inodes + 1
                         /\ data' = (inodes + 1 :> <<>>) @@ data
                         /\ dir' = [dir EXCEPT ![T] = inodes + 1]          \* open(T, O_TRUNC): T is empty at once
                         /\ tmp' = [tmp EXCEPT ![w] = inodes + 1]
                         /\ pc' = [pc EXCEPT ![w] = "write"]
                    ELSE IF DirWritable
                    THEN /\ inodes' = inodes + 1
                         /\ data' = (inodes + 1 :> <<>>) @@ data
                         /\ tmp' = [tmp EXCEPT ![w] = inodes + 1]
                         /\ pc' = [pc EXCEPT ![w] = "write"]
                         /\ UNCHANGED dir
                    ELSE \* cannot create the sibling: an error, swallowed when the contents are the same
                         /\ pc' = [pc EXCEPT ![w] = IF IsSame(w) THEN "ok" ELSE "err"]
                         /\ UNCHANGED <<inodes, data, tmp, dir>>
                 /\ UNCHANGED <<prev, snap, seen>>
WriteChunk(w) == /\ pc[w] = "write"
                 /\ LET k == Len(data[tmp[w]]) + 1 IN
                    /\ data' = [data EXCEPT ![tmp[w]] = Append(@, ContentOf(w)[k])]
                    /\ pc' = [pc EXCEPT ![w] = IF k = Len(ContentOf(w)) THEN (IF InPlace THEN "ok" ELSE "persist") ELSE "write"]
                 /\ UNCHANGED <<dir, tmp, prev, snap, seen, inodes>>
\* rename(temp, T)
Persist(w) == /\ pc[w] = "persist"
              /\ dir' = [dir EXCEPT ![T] = tmp[w]]
              /\ pc' = [pc EXCEPT ![w] = "ok"]
              /\ UNCHANGED <<data, tmp, prev, snap, seen, inodes>>
\* ---- faults of the environment and the caller's reaction ------------------------------
\* where a writer whose staged replacement failed goes next
AfterFailure(w) == IF IsSame(w) THEN "ok" ELSE IF OnError = "inplace" THEN "fallback" ELSE "err"
\* the temporary sibling cannot be created although the directory is writable
TempFails(w) == /\ Faults /\ ~InPlace /\ pc[w] = "astart" /\ DirWritable
                /\ pc' = [pc EXCEPT ![w] = AfterFailure(w)]
                /\ UNCHANGED <<dir, data, tmp, prev, snap, seen, inodes>>
\* a write to the temporary file fails: the partial temporary is abandoned (removed when its handle is dropped)
WriteFails(w) == /\ Faults /\ ~InPlace /\ pc[w] = "write"
                 /\ pc' = [pc EXCEPT ![w] = AfterFailure(w)]
                 /\ tmp' = [tmp EXCEPT ![w] = 0]
                 /\ UNCHANGED <<dir, data, prev, snap, seen, inodes>>
\* OnError = "inplace": open(T, O_TRUNC | O_CREAT), then the chunks, any of which may fail in turn
FallbackOpen(w) == /\ pc[w] = "fallback"
                   /\ inodes' = inodes + 1
                   /\ data' = (inodes + 1 :> <<>>) @@ data
                   /\ dir' = [dir EXCEPT ![T] = inodes + 1]
                   /\ tmp' = [tmp EXCEPT ![w] = inodes + 1]
                   /\ pc' = [pc EXCEPT ![w] = "fbwrite"]
                   /\ UNCHANGED <<prev, snap, seen>>
FallbackWrite(w) == /\ pc[w] = "fbwrite"
                    /\ LET k == Len(data[tmp[w]]) + 1 IN
                       /\ data' = [data EXCEPT ![tmp[w]] = Append(@, ContentOf(w)[k])]
                       /\ pc' = [pc EXCEPT ![w] = IF k = Len(ContentOf(w)) THEN "ok" ELSE "fbwrite"]
                    /\ UNCHANGED <<dir, tmp, prev, snap, seen, inodes>>
FallbackFails(w) == /\ Faults /\ pc[w] = "fbwrite"
                    /\ pc' = [pc EXCEPT ![w] = "err"]
                    /\ UNCHANGED <<dir, data, tmp, prev, snap, seen, inodes>>
Crash(w) == /\ pc[w] \notin {"ok", "err", "dead"}
            /\ pc' = [pc EXCEPT ![w] = "dead"]
            /\ UNCHANGED <<dir, data, tmp, prev, snap, seen, inodes>>
ROpen == /\ snap = 0 /\ dir[T] # 0 /\ snap' = dir[T] /\ UNCHANGED <<dir, data, pc, tmp, prev, seen, inodes>>
RRead == /\ snap # 0 /\ seen' = seen \cup {data[snap]} /\ snap' = 0 /\ UNCHANGED <<dir, data, pc, tmp, prev, inodes>>

Next == \/ \E w \in Writers : ReadPrev(w) \/ CreateTemp(w) \/ WriteChunk(w) \/ Persist(w) \/ Crash(w)
        \/ \E w \in Writers : TempFails(w) \/ WriteFails(w) \/ FallbackOpen(w) \/ FallbackWrite(w) \/ FallbackFails(w)
        \/ ROpen \/ RRead
Spec == Init /\ [][Next]_vars

\* C19
TargetIntact == /\ (dir[T] = 0) => (InitKind = "absent" /\ \A w \in Writers : pc[w] # "ok")
                /\ (dir[T] # 0) => (data[dir[T]] \in Complete)
ReaderSeesComplete == seen \subseteq Complete
SameContentSucceeds == \A w \in Writers : (pc[w] = "err") => ~IsSame(w)
\* a writer that returned ok with different contents really replaced the file at some point, or the
\* file holds a complete content of some writer (sanity of "ok")
\* a failure of the environment is reported, not papered over: a writer whose new contents never reached the
\* target does not return ok (unless they equal the old ones)
FailureIsReported == \A w \in Writers : (pc[w] = "ok" /\ ~IsSame(w) /\ ~InPlace /\ OnError = "report") =>
                        \E i \in DOMAIN data : data[i] = ContentOf(w)
OkMeansWritten == \A w \in Writers : (pc[w] = "ok" /\ ~IsSame(w) /\ ~InPlace) => dir[T] # 0

\* ---- one writer run to completion, as a list of hook labels (used by the trace specification) ----
\* hook label reached at each pc of a run without crash, given whether T existed
Labels(existed, same, writable) ==
  <<"gentle.start">> \o (IF existed THEN <<"gentle.read_prev">> ELSE <<>>) \o <<"atomic.start">>
  \o (IF writable THEN <<"atomic.temp_created", "atomic.written", "atomic.persisted">> ELSE <<>>)
  \* when the contents are the same and the write succeeded nothing else happens; when they differ likewise
=============================================================================
