SPECIFICATION Spec
INVARIANTS LibraryIsCliWithO DebuggerIsCli
CHECK_DEADLOCK FALSE
