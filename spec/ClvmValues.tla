---------------------------- MODULE ClvmValues ----------------------------
(* CLVM values: <<"a", bytes>> | <<"p", l, r>>; outcomes; path lookup.      *)
EXTENDS Bytes

Nil == <<"a", <<>>>>
A(b) == <<"a", b>>
IsAtom(v) == v[1] = "a"
IsPair(v) == v[1] = "p"
BytesOf(v) == v[2]
Cons(l, r) == <<"p", l, r>>
First(v) == v[2]
Rest(v) == v[3]
IsNil(v) == v = Nil
IntAtom(n) == <<"a", IntBytes(n)>>
One == A(<<1>>)

Ok(v) == <<"ok", v>>
Err == <<"err">>
OutOfFuel == <<"fuel">>
Oom == <<"oom">>

\* consensus truthiness: only the empty atom is false
Truthy(v) == ~(IsAtom(v) /\ BytesOf(v) = <<>>)

RECURSIVE Walk(_, _, _)
Walk(bits, i, env) == IF i > Len(bits) THEN Ok(env)
                      ELSE IF IsAtom(env) THEN Err
                      ELSE Walk(bits, i + 1, IF bits[i] = 0 THEN First(env) ELSE Rest(env))
\* path lookup for a path atom of any width
Lookup(bs, env) == IF IsZeroPath(bs) THEN Ok(Nil) ELSE Walk(PathBits(bs), 1, env)

RECURSIVE ListVal(_, _)
ListVal(vs, tl) == IF vs = <<>> THEN tl ELSE Cons(vs[1], ListVal(Tail(vs), tl))
RECURSIVE ListItems(_)
ListItems(v) == IF IsPair(v) THEN <<First(v)>> \o ListItems(Rest(v)) ELSE <<>>
RECURSIVE ListTail(_)
ListTail(v) == IF IsPair(v) THEN ListTail(Rest(v)) ELSE v
ProperList(v) == ListTail(v) = Nil
RECURSIVE TreeSize(_)
TreeSize(v) == IF IsAtom(v) THEN 1 ELSE 1 + TreeSize(First(v)) + TreeSize(Rest(v))
=============================================================================
