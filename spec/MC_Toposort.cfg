SPECIFICATION Spec
CONSTANT N = 4
INVARIANTS OrderIsPermutation OkMeansOrdered DeadlockIffCyclic Progress
CHECK_DEADLOCK FALSE
