--------------------------- MODULE Trace_Printers ---------------------------
(* Trace validation for C09 on random longer atoms and trees.  Each record:  *)
(* the value, what the assembler read back from the disassembler's text for  *)
(* operator-set versions 0,1,2 (c0,c1,c2), what the modern reader (m) and    *)
(* the classic assembler (mc) read back from the modern printer's text; for  *)
(* atoms also the two texts, compared with the token model (drift).          *)
EXTENDS Printers, Json, IOUtils, TLC, FiniteSets
Rec == ndJsonDeserialize(IOEnv.TRACE)
VARIABLES l, bad, drift, cnt
vars == <<l, bad, drift, cnt>>
Init == l = 1 /\ bad = {} /\ drift = {} /\ cnt = [atoms |-> 0, all |-> 0, model_compared |-> 0]
Next ==
  /\ l <= Len(Rec) /\ l' = l + 1
  /\ LET e == Rec[l]
         want == Ok(e.value)
         comparable == e.t.is_atom /\ Len(e.t.atom) <= 24
         mm == IF comparable THEN ModernPrint(FromClvmAtom(e.t.atom, TRUE)) ELSE <<>>
     IN
     \* P: every printed text re-reads to the identical value
     /\ bad' = IF e.c0 # want \/ e.c1 # want \/ e.c2 # want \/ e.m # want \/ e.mc # want THEN bad \cup {l} ELSE bad
     /\ drift' = IF comparable /\ (DisasmAtom(e.t.atom, FALSE, 2) # e.t.classic \/ (mm # OomText /\ mm # e.t.modern))
                 THEN drift \cup {l} ELSE drift
     /\ cnt' = [cnt EXCEPT !.all = @ + 1, !.atoms = @ + (IF e.t.is_atom THEN 1 ELSE 0),
                           !.model_compared = @ + (IF comparable THEN 1 ELSE 0)]
Spec == Init /\ [][Next]_vars
Finished == l > Len(Rec) =>
   PrintT(<<"RESULT", ToJson([n |-> Len(Rec), bad |-> bad, drift |-> drift, cnt |-> cnt])>>)
=============================================================================
