--------------------------- MODULE Trace_OpTables ---------------------------
(* C20.  The rows are the operator tables as observed in the running code:   *)
(*  kw / kwinv : keyword_to_atom(v) / keyword_from_atom(v), v = 0,1,2        *)
(*  prim       : the modern primitive list                                   *)
(*  impl       : does the evaluator of operator-set version v implement the  *)
(*               opcode (anything but "unimplemented operator"); v = 3 is    *)
(*               the stepping evaluator                                       *)
(*  use        : per name, the opcode it assembles to, behaves as when        *)
(*               compiled by the classic and the modern compiler, is mapped   *)
(*               to by the stepping evaluator's table and by #name            *)
(*  disasm     : the head printed for (opcode 2) under version v              *)
(* TLC folds them into tables and evaluates the property on them; the         *)
(* canonical tables of OpTables.tla are compared as well (drift).             *)
EXTENDS OpTables, Json, IOUtils, TLC
Rec == ndJsonDeserialize(IOEnv.TRACE)
Rows(ev) == {Rec[i] : i \in {j \in 1..Len(Rec) : Rec[j].ev = ev}}
Kw(v) == {<<r.name, r.opcode>> : r \in {x \in Rows("kw") : x.v = v}}
KwInv(v) == {<<r.name, r.opcode>> : r \in {x \in Rows("kwinv") : x.v = v}}
Prims == {<<r.name, r.opcode>> : r \in Rows("prim")}
Impl(v) == {r.opcode : r \in {x \in Rows("impl") : x.v = v /\ x.implemented}}
Uses == Rows("use")
Disasm(v) == {<<r.opcode, r.head>> : r \in {x \in Rows("disasm") : x.v = v}}

\* name <-> opcode mutually inverse within each version
InverseOk == \A v \in 0..2 : /\ Kw(v) = KwInv(v)
                             /\ \A p, q \in Kw(v) : (p[1] = q[1]) <=> (p[2] = q[2])
\* versions only ever add names
MonotoneOk == Kw(0) \subseteq Kw(1) /\ Kw(1) \subseteq Kw(2)
\* every name known to any table denotes the same opcode in every table that knows it
UseOk(u) == \A p \in Kw(2) \cup Prims : p[1] = u.name =>
                      /\ u.assembled = p[2]
                      /\ u.stepper \in {p[2], <<-1>>}           \* a table that does not know the name says nothing
                      /\ u.hash_syntax \in {p[2], <<-1>>}
                      /\ u.classic_compiled \in {p[2], <<-2>>}  \* -2: special form (q), not compiled as a call
                      /\ u.modern_compiled \in {p[2], <<-2>>}
                      /\ u.stepper_runs \in {p[2], <<-2>>}      \* the stepping evaluator runs the opcode as the consensus one does
SameOpcodeOk == /\ \A p \in Kw(2), q \in Prims : p[1] = q[1] => p[2] = q[2]
                /\ \A u \in Uses : UseOk(u)
\* every name of the latest classic table is known to the modern compiler and the stepping evaluator, and vice versa
CoverageOk == /\ \A p \in Kw(2) : \E q \in Prims : q[1] = p[1]
              /\ \A q \in Prims : \E p \in Kw(2) : p[1] = q[1]
\* every opcode of a version's table is implemented by that version's evaluator (q and a are built in)
\* ... and every named opcode by the stepping evaluator ("version" 3: cldb, compile-time evaluation, the REPL)
ImplementedOk == /\ \A v \in 0..2 : \A p \in Kw(v) : p[2] \in Impl(v)
                 /\ \A p \in Kw(2) \cup Prims : p[2] \in Impl(3)
\* the disassembler of version v prints exactly the names of table v, for opcodes of <= 2 bytes
DisasmOk == \A v \in 0..2 : \A p \in Kw(v) : Len(p[2]) <= 2 => <<p[2], p[1]>> \in Disasm(v)

Drift == [kw0 |-> Kw(0) # {<<r[1], r[2]>> : r \in KwTable(0)},
          kw1 |-> Kw(1) # {<<r[1], r[2]>> : r \in KwTable(1)},
          kw2 |-> Kw(2) # {<<r[1], r[2]>> : r \in KwTable(2)},
          prims |-> Prims # Modern]

VARIABLE done
Init == done = FALSE
Next == ~done /\ done' = TRUE
Spec == Init /\ [][Next]_done
Finished == done =>
   PrintT(<<"RESULT", ToJson([inverse |-> InverseOk, monotone |-> MonotoneOk, same_opcode |-> SameOpcodeOk, coverage |-> CoverageOk,
                               implemented |-> ImplementedOk, disasm |-> DisasmOk, canonical_consistent |-> TablesConsistent,
                               drift |-> Drift, bad_names |-> {u.name : u \in {x \in Uses : ~UseOk(x)}},
                               unimplemented |-> UNION {{<<v, q[1]>> : q \in {x \in Kw(v) : x[2] \notin Impl(v)}} : v \in 0..2}
                                                  \cup {<<3, q[1]>> : q \in {x \in Kw(2) \cup Prims : x[2] \notin Impl(3)}}, names |-> Cardinality({u.name : u \in Uses}), rows |-> Len(Rec)])>>)
=============================================================================
