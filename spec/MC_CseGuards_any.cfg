SPECIFICATION Spec
CONSTANTS Depth = 2
 Rule = "any"
INVARIANTS HoistingIsSafe Emit
CHECK_DEADLOCK FALSE
