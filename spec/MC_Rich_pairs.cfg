SPECIFICATION Spec
CONSTANTS FullLen = 0
 BoundaryLen = 0
INVARIANTS EqClause PrintPairs
CHECK_DEADLOCK FALSE
