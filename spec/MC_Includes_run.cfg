SPECIFICATION Spec
CONSTANTS MaxFiles = 2
CHECK_DEADLOCK FALSE
