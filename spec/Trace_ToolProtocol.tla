-------------------------- MODULE Trace_ToolProtocol --------------------------
(* Trace validation for C14: one record per (input, entry point): the outcome *)
(* observed (ok / err / panic / abort / timeout) and, for errors of the modern  *)
(* compiler, the location and the line lengths of the text its file names.      *)
EXTENDS ToolProtocol, Json, IOUtils
Rec == ndJsonDeserialize(IOEnv.TRACE)
VARIABLES l, bad, cnt
tvars == <<l, bad, cnt>>
TInit == l = 1 /\ bad = {} /\ cnt = [calls |-> 0, ok |-> 0, err |-> 0, slow |-> 0, located |-> 0, located_checked |-> 0]
TNext ==
  /\ l <= Len(Rec) /\ l' = l + 1
  /\ LET e == Rec[l]
         crash == e.outcome \notin Outcomes \cup Inconclusive
         \* a located error names the input, an include file or a built-in pseudo-file, and lies within that text
         badloc == e.outcome = "err" /\ e.located /\ (~e.known_file \/ ~LocWithin(e.line, e.col, e.uline, e.ucol, e.lens))
     IN /\ bad' = IF crash \/ badloc THEN bad \cup {<<l, IF crash THEN "crash" ELSE "location">>} ELSE bad
        /\ cnt' = [cnt EXCEPT !.calls = @ + 1, !.ok = @ + (IF e.outcome = "ok" THEN 1 ELSE 0), !.err = @ + (IF e.outcome = "err" THEN 1 ELSE 0), !.slow = @ + (IF e.outcome \in Inconclusive THEN 1 ELSE 0),
                              !.located = @ + (IF e.located THEN 1 ELSE 0), !.located_checked = @ + (IF e.located /\ e.known_file THEN 1 ELSE 0)]
        /\ UNCHANGED <<pending, log>>
TSpec == TInit /\ Init /\ [][TNext]_<<tvars, pending, log>>
Finished == l > Len(Rec) => PrintT(<<"RESULT", ToJson([n |-> Len(Rec), bad |-> bad, cnt |-> cnt])>>)
=============================================================================
