----------------------------- MODULE ToolProtocol -----------------------------
(* The call/return protocol of the tool entry points: every Call(entry,      *)
(* input) is answered by ReturnOk or ReturnErr; Panic, Abort and Timeout are  *)
(* actions of the environment that C14 forbids.  An error of the modern       *)
(* compiler carries a location <<file, line, col, uline, ucol>>; LocWithin     *)
(* says the position lies within the text the file name stands for (the input,  *)
(* an include file or a built-in pseudo-file), given that text's line lengths.   *)
EXTENDS Integers, Sequences, FiniteSets, TLC
Entries == {"compile", "assemble", "disassemble", "deserialise", "brun", "run", "cldb", "cldb-file", "preprocess", "deps", "usecheck", "repl"}
Outcomes == {"ok", "err"}
Forbidden == {"panic", "abort", "timeout", "garbled"}
\* "slow": the observer gave up on a call that was still running without any evidence of a loop (a valid program whose
\* inline expansion is exponential by design): inconclusive, neither an outcome nor forbidden
Inconclusive == {"slow"}
VARIABLES pending, log
Init == pending = <<>> /\ log = <<>>
Call(e) == pending = <<>> /\ pending' = <<e>> /\ UNCHANGED log
Return(o) == pending # <<>> /\ log' = Append(log, <<pending[1], o>>) /\ pending' = <<>>
Next == (\E e \in Entries : Call(e)) \/ (\E o \in Outcomes \cup Forbidden : Return(o))
Spec == Init /\ [][Next]_<<pending, log>>
\* C14 as a property of a log
NeverCrashes(lg) == \A i \in 1..Len(lg) : lg[i][2] \in Outcomes
\* positions: line 1..#lines, column 1..len+2 (the cursor may stand one past the end of a line / of the text)
PosIn(l, c, lens) == l >= 1 /\ l <= Len(lens) /\ c >= 1 /\ c <= lens[l] + 2
LocWithin(line, col, uline, ucol, lens) == PosIn(line, col, lens) /\ (uline = 0 \/ PosIn(uline, ucol, lens))
=============================================================================
