SPECIFICATION Spec
CONSTANTS MaxLen = 4
 Profile = "opt"
 EnvSet = "clean"
 ExtraCheck <- OptCheck
 Variant = "faithful"
CHECK_DEADLOCK FALSE
