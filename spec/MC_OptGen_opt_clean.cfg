SPECIFICATION Spec
CONSTANTS MaxLen = 4
 Profile = "opt"
 EnvSet = "clean"
 ExtraCheck <- OptCheck
CHECK_DEADLOCK FALSE
