--------------------------- MODULE MC_CompileHistory ---------------------------
EXTENDS CompileHistory, Json
\* job classes: (fix, draws, fails, sets)
MCJobs == { [id |-> 1, fix |-> FALSE, draws |-> 2, fails |-> FALSE, sets |-> TRUE],    \* cl21-like, draws names
            [id |-> 2, fix |-> TRUE,  draws |-> 2, fails |-> FALSE, sets |-> TRUE],    \* cl23.1-like
            [id |-> 3, fix |-> TRUE,  draws |-> 1, fails |-> TRUE,  sets |-> TRUE],    \* fails after drawing a name
            [id |-> 4, fix |-> TRUE,  draws |-> 0, fails |-> FALSE, sets |-> FALSE],   \* classic: installs no mode
            [id |-> 5, fix |-> FALSE, draws |-> 1, fails |-> TRUE,  sets |-> TRUE] }   \* legacy-mode dialect, fails
\* every completed history is printed once (when all threads are idle and the job budget is used)
EmitHistories == (Idle /\ done = MaxJobs) => PrintT(<<"V", ToJson([c0 |-> start[1], m0 |-> start[2], hist |-> hist])>>)
\* out contains a different output for one job under two different starting conditions only via the leak channels:
\* Pure is checked across starting conditions by the harness on the union of observations
=============================================================================
