----------------------------- MODULE ComScopeInv -----------------------------
(* What has to hold whenever the partial evaluator hands code to (com ..):   *)
(* free     the names occurring in the code                                   *)
(* envonly  the names bound by enclosing let / assign forms (not parameters)  *)
(* rebound  the names re-bound around the code before it is compiled          *)
(* deps     for each rebound name, the names occurring in its expression      *)
(* Every let-bound name the code uses, directly or through the expression of  *)
(* a rebound name, is rebound.  ComScope.tla shows on a small language that   *)
(* this is what makes the evaluator agree with the source meaning.            *)
WellScoped(free, envonly, rebound, deps) ==
  /\ (free \cap envonly) \subseteq rebound
  /\ \A n \in rebound : (deps[n] \cap envonly) \subseteq rebound
=============================================================================
