SPECIFICATION Spec
CONSTANTS MaxLen = 4
 Profile = "stepper"
 EnvSet = "clean"
CHECK_DEADLOCK FALSE
