SPECIFICATION Spec
CONSTANTS MaxLen = 0
 AlphabetKind = "boundary"
INVARIANTS RoundTrips PrefixOk
CHECK_DEADLOCK FALSE
