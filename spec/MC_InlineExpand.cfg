SPECIFICATION Spec
CONSTANT F = 4
INVARIANT ReportIffCycle
CHECK_DEADLOCK FALSE
