---------------------------- MODULE Trace_ComScope ----------------------------
(* Trace validation of the evaluator's scope discipline (ComScope.tla) on the  *)
(* events recorded by the hook in bind_let_names_for_com (one per (com ..) the  *)
(* real evaluator processes; names as renamed by the compiler (x_$_n), plus     *)
(* u_free / u_known: the same names without the renaming suffix).               *)
(* One record per session / program:                                            *)
(*   idents  the variable names of the program (parameters and binders)         *)
(*   events  sequence of [args, env_only, free, bound_inside, rebound, deps]    *)
(* bad     events that violate ComScope!WellScoped: a let-bound name is used in  *)
(*         code handed to com (or in the expression of a name that is rebound)  *)
(*         without being rebound around it                                      *)
(* unbound events in which a program variable is free in the code and is        *)
(*         neither a parameter nor in the environment (the REPL's free           *)
(*         variables: open finding C16-K1 seen at its source)                   *)
EXTENDS ComScopeInv, Json, IOUtils, Naturals, Sequences, FiniteSets, TLC
Rec == ndJsonDeserialize(IOEnv.TRACE)
VARIABLES l, bad, unbound, cnt
tvars == <<l, bad, unbound, cnt>>
ToSet(s) == {s[i] : i \in 1..Len(s)}
TInit == l = 1 /\ bad = {} /\ unbound = {} /\ cnt = [records |-> 0, events |-> 0, rebinding_events |-> 0]
TNext ==
  /\ l <= Len(Rec) /\ l' = l + 1
  /\ LET r == Rec[l]
         E == 1..Len(r.events)
         Ok(i) == LET ev == r.events[i]
                      deps == [n \in ToSet(ev.rebound) |->
                                 LET I == {k \in 1..Len(ev.deps) : ev.deps[k][1] = n}
                                 IN IF I = {} THEN {} ELSE ToSet(ev.deps[CHOOSE k \in I : TRUE][2])]
                  IN WellScoped(ToSet(ev.free), ToSet(ev.env_only), ToSet(ev.rebound), deps)
         Unb(i) == LET ev == r.events[i]
                   IN (ToSet(ev.u_free) \cap ToSet(r.idents)) \ ToSet(ev.u_known)
     IN /\ bad' = bad \cup {<<l, i>> : i \in {j \in E : ~Ok(j)}}
        /\ unbound' = unbound \cup {<<l, i>> : i \in {j \in E : Unb(j) # {}}}
        /\ cnt' = [cnt EXCEPT !.records = @ + 1, !.events = @ + Len(r.events),
                              !.rebinding_events = @ + Cardinality({j \in E : r.events[j].rebound # <<>>})]
TSpec == TInit /\ [][TNext]_tvars
Finished == l > Len(Rec) => PrintT(<<"RESULT", ToJson([n |-> Len(Rec), bad |-> bad, unbound |-> unbound, cnt |-> cnt])>>)
=============================================================================
