SPECIFICATION Spec
CONSTANTS MaxLen = 3
 Profile = "stepper"
 EnvSet = "headform"
CHECK_DEADLOCK FALSE
