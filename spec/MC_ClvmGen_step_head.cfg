SPECIFICATION Spec
CONSTANTS MaxLen = 3
 Profile = "stepper"
 EnvSet = "headform"
 ExtraCheck <- NoExtra
CHECK_DEADLOCK FALSE
