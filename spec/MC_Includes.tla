----------------------------- MODULE MC_Includes -----------------------------
(* File systems of <= MaxFiles files over Names x Dirs, built one file at a  *)
(* time, each with a content from a small set; every search-path order; the   *)
(* main program includes/embeds from MainForms.  One vector per configuration. *)
EXTENDS Includes, Json
CONSTANTS MaxFiles
Names == {"fa", "fb", "fc"}
Dirs == {"d1", "d2"}
Contents == {<<>>} \cup {<< <<"include", n>> >> : n \in Names} \cup {<< <<"embed", "sexp", n>> >> : n \in Names}
            \cup {<< <<"include", n>>, <<"embed", "bin", m>> >> : n \in {"fb"}, m \in {"fc"}}
            \cup {<< <<"nested", << <<"include", n>> >> >> >> : n \in {"fc"}}
Mains == {<< <<"include", "fa">> >>, << <<"embed", "bin", "fa">> >>, << <<"include", "fa">>, <<"include", "fb">> >>,
          << <<"nested", << <<"include", "fa">> >> >> >>, << <<"include", "fb">>, <<"nested", << <<"embed", "sexp", "fa">> >> >> >>}
Paths == {<<"d1", "d2">>, <<"d2", "d1">>, <<"d1">>}

SetToSeq(S) == CHOOSE s \in [1..Cardinality(S) -> S] : \A i, j \in 1..Cardinality(S) : i # j => s[i] # s[j]

VARIABLES fs, emitted
vars == <<fs, emitted>>
Init == fs = <<>> /\ emitted = FALSE
AddFile(d, n, c) == /\ ~emitted /\ Cardinality(DOMAIN fs) < MaxFiles /\ <<d, n>> \notin DOMAIN fs
                    /\ fs' = (<<d, n>> :> c) @@ fs /\ UNCHANGED emitted
\* acyclic include graphs only (a cyclic one makes both the compiler and the listing loop by design bound `fuel`)
RECURSIVE Acyclic(_, _, _)
Acyclic(f, c, seen) == \A i \in 1..Len(c) :
                         /\ c[i][1] = "include" =>
                              LET n == c[i][2] IN n \notin seen /\ \A d \in Dirs : <<d, n>> \in DOMAIN f => Acyclic(f, f[<<d, n>>], seen \cup {n})
                         /\ c[i][1] = "nested" => Acyclic(f, c[i][2], seen)
Emit == /\ ~emitted /\ emitted' = TRUE /\ UNCHANGED fs
        /\ \A main \in Mains : Acyclic(fs, main, {}) =>
             \A p \in Paths :
               /\ Assert(ListingComplete(fs, p, main), <<"listing misses a file that is read", fs, p, main>>)
               /\ Assert(ListingResolves(fs, p, main), <<"listing names a file that is not the first match", fs, p, main>>)
               /\ PrintT(<<"V", ToJson([files |-> LET ks == SetToSeq(DOMAIN fs) IN [i \in 1..Len(ks) |-> <<ks[i][1], ks[i][2], fs[ks[i]]>>], path |-> p, main |-> main,
                                         reads |-> SetToSeq(ReadsOf(fs, p, main, 6).files), err |-> ReadsOf(fs, p, main, 6).err,
                                         reads_lazy |-> SetToSeq(ReadsLazy(fs, p, main, 6).files), err_lazy |-> ReadsLazy(fs, p, main, 6).err, form_in_file |-> FormInFile(fs, p, main, FALSE, 6),
                                         noembed_differs |-> DepsNoEmbed(fs, p, main, 6) # ReadsOf(fs, p, main, 6).files,
                                         nonested_differs |-> DepsNoNested(fs, p, main, 6) # ReadsOf(fs, p, main, 6).files])>>)
Next == (\E d \in Dirs, n \in Names, c \in Contents : AddFile(d, n, c)) \/ Emit
Spec == Init /\ [][Next]_vars
=============================================================================
