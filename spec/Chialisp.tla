------------------------------ MODULE Chialisp ------------------------------
(* The call-by-value meaning of Chialisp source programs (the surface        *)
(* language both compilers accept), independent of any compiler.             *)
(*                                                                            *)
(* AST (JSON arrays = tuples, program = record [args, helpers, body]):       *)
(*  Pat    <<"pn">> | <<"pv",n>> | <<"pc",p,p>> | <<"pat",n,p>>              *)
(*  Helper <<"defun",n,pat,body,inline>> | <<"defconstant",n,value>>         *)
(*         | <<"defconst",n,expr>> | <<"defmacro",n,params,template>>        *)
(*  Expr   <<"lit",v>> | <<"var",n>> | <<"prim",op,args>>                    *)
(*         | <<"call",f,args,rest>> | <<"if",c,t,e>> | <<"list",args>>       *)
(*         | <<"let",kind,bindings,body>> | <<"assign",bindings,body>>       *)
(*         | <<"lambda",caps,pat,body>> | <<"apply",f,arg>> | <<"mod",prog>> *)
(* Values are CLVM values plus closures <<"clo", ...>> (whose bytes are       *)
(* compiler specific: a closure reaching an operator other than c/f/r/i, or   *)
(* the final result, gives the outcome oom).                                  *)
(* Binding is strict: a call fails when a named position of the callee's      *)
(* pattern cannot be reached in the argument tree (compiled code may be       *)
(* lazier; every value this rule yields is also the lazy rule's value).       *)
EXTENDS Clvm, TLC

HelperNamed(P, n) ==
  LET I == {i \in 1..Len(P.helpers) : P.helpers[i][2] = n}
  IN IF I = {} THEN <<"none">> ELSE P.helpers[CHOOSE i \in I : TRUE]

EmptyEnv == [x \in {} |-> Err]

RECURSIVE Bind(_, _, _)
Bind(pat, o, acc) ==
  CASE pat[1] = "pn"  -> acc
    [] pat[1] = "pv"  -> (pat[2] :> o) @@ acc
    [] pat[1] = "pat" -> Bind(pat[3], o, (pat[2] :> o) @@ acc)
    [] pat[1] = "pc"  ->
         LET isp == o[1] = "ok" /\ o[2][1] = "p"
             l == IF isp THEN Ok(First(o[2])) ELSE Err
             r == IF isp THEN Ok(Rest(o[2])) ELSE Err
         IN Bind(pat[3], r, Bind(pat[2], l, acc))

BindS(pat, o, acc) == LET b == Bind(pat, o, EmptyEnv) IN
   IF \E n \in DOMAIN b : b[n][1] # "ok" THEN <<"err">> ELSE <<"ok", b @@ acc>>

IsClo(v) == v[1] = "clo"
RECURSIVE HasClo(_)
HasClo(v) == IF v[1] = "clo" THEN TRUE ELSE IF v[1] = "a" THEN FALSE ELSE HasClo(v[2]) \/ HasClo(v[3])

\* primitives may only see closure-free values, except c (4) and i (3) which only move them and f/r which look at pairs
PrimOk(op, as) == \/ op \in {3, 4}
                  \/ (op \in {5, 6} /\ \A i \in 1..Len(as) : ~IsClo(as[i]))
                  \/ \A i \in 1..Len(as) : ~HasClo(as[i])

Unk == <<"unk">>
RECURSIVE PatNameSet(_)
PatNameSet(p) == CASE p[1] = "pn" -> {} [] p[1] = "pv" -> {p[2]} [] p[1] = "pat" -> {p[2]} \cup PatNameSet(p[3]) [] p[1] = "pc" -> PatNameSet(p[2]) \cup PatNameSet(p[3])
UnkEnv(names) == [n \in names |-> Unk]
\* bind a pattern to an outcome: unknown or failed outcomes make every name of the pattern unknown
SBindU(pat, o, rho) == IF o[1] = "ok" /\ ~HasClo(o[2]) THEN Bind(pat, o, EmptyEnv) @@ rho ELSE UnkEnv(PatNameSet(pat)) @@ rho
\* a parameter list against an argument list of which some outcomes are unknown: what an unknown argument reaches is
\* unknown, the rest is bound as usual (names beyond the arguments given are unknown)
RECURSIVE SBindArgs(_, _, _, _)
SBindArgs(pat, outs, i, rho) ==
  IF pat[1] = "pc" /\ i <= Len(outs) THEN SBindArgs(pat[3], outs, i + 1, SBindU(pat[2], outs[i], rho))
  ELSE UnkEnv(PatNameSet(pat)) @@ rho

RECURSIVE SEval(_, _, _, _), SEvalList(_, _, _, _), SLetSeq(_, _, _, _, _), SAssign(_, _, _, _, _), SApply(_, _, _, _)

SAssign(P, bs, body, rho, fuel) ==
  IF bs = <<>> THEN SEval(P, body, rho, fuel) ELSE
  LET v == SEval(P, bs[1][2], rho, fuel) IN
  IF v[1] # "ok" THEN v ELSE
  LET b == BindS(bs[1][1], v, rho) IN
  IF b[1] # "ok" THEN Err ELSE SAssign(P, Tail(bs), body, b[2], fuel)

SApply(P, f, arg, fuel) ==
  IF f[1] # "clo" THEN (IF HasClo(f) \/ HasClo(arg) THEN Oom ELSE Eval(f, arg, fuel))
  ELSE CASE f[2] = "fn"  -> LET h == HelperNamed(P, f[3]) b == BindS(h[3], Ok(arg), EmptyEnv) IN
                            IF b[1] # "ok" THEN Err ELSE SEval(P, h[4], b[2], fuel - 1)
         [] f[2] = "lam" -> LET b == BindS(f[4], Ok(arg), f[3]) IN
                            IF b[1] # "ok" THEN Err ELSE SEval(P, f[5], b[2], fuel - 1)
         [] f[2] = "mod" -> LET b == BindS(f[3].args, Ok(arg), EmptyEnv) IN
                            IF b[1] # "ok" THEN Err ELSE SEval(f[3], f[3].body, b[2], fuel - 1)

SEvalList(P, es, rho, fuel) ==
  IF es = <<>> THEN Ok(<<>>) ELSE
  LET h == SEval(P, es[1], rho, fuel) IN
  \* (the outcome <<"unk">> only arises in the static analysis below: an unknown element does not hide a later certain failure)
  IF h[1] = "unk" THEN (LET t == SEvalList(P, Tail(es), rho, fuel) IN IF t[1] = "err" THEN t ELSE h) ELSE
  IF h[1] # "ok" THEN h ELSE
  LET t == SEvalList(P, Tail(es), rho, fuel) IN
  IF t[1] # "ok" THEN t ELSE Ok(<<h[2]>> \o t[2])

SLetSeq(P, bs, body, rho, fuel) ==
  IF bs = <<>> THEN SEval(P, body, rho, fuel) ELSE
  LET v == SEval(P, bs[1][2], rho, fuel) IN
  IF v[1] # "ok" THEN v ELSE SLetSeq(P, Tail(bs), body, (bs[1][1] :> v) @@ rho, fuel)

SEval(P, e, rho, fuel) ==
  IF fuel <= 0 THEN OutOfFuel ELSE
  CASE e[1] = "lit" -> Ok(e[2])
    [] e[1] = "var" ->
         IF e[2] \in DOMAIN rho THEN
            (IF rho[e[2]][1] = "thunk" THEN SEval(P, rho[e[2]][2], rho[e[2]][3], fuel - 1) ELSE rho[e[2]])
         ELSE LET h == HelperNamed(P, e[2]) IN
              IF h[1] = "defconstant" THEN Ok(h[3])
              ELSE IF h[1] = "defconst" THEN SEval(P, h[3], EmptyEnv, fuel - 1)
              ELSE IF h[1] = "defun" THEN Ok(<<"clo", "fn", e[2]>>) ELSE Oom
    [] e[1] = "prim" ->
         LET as == SEvalList(P, e[3], rho, fuel) IN
         IF as[1] # "ok" THEN as ELSE IF ~PrimOk(e[2], as[2]) THEN Oom ELSE ApplyOp(e[2], as[2])
    [] e[1] = "if" ->
         LET c == SEval(P, e[2], rho, fuel) IN
         IF c[1] # "ok" THEN c
         ELSE IF Truthy(c[2]) THEN SEval(P, e[3], rho, fuel) ELSE SEval(P, e[4], rho, fuel)
    [] e[1] = "list" ->
         LET as == SEvalList(P, e[2], rho, fuel) IN
         IF as[1] # "ok" THEN as ELSE Ok(ListVal(as[2], Nil))
    [] e[1] = "call" ->
         LET h == HelperNamed(P, e[2]) IN
         IF h[1] = "defmacro" THEN
            \* a macro is substitution of argument *expressions*: parameters are bound to thunks over the caller's scope
            IF Len(e[3]) # Len(h[3]) THEN Oom
            ELSE SEval(P, h[4], [n \in {h[3][i] : i \in 1..Len(h[3])} |->
                                    <<"thunk", e[3][CHOOSE i \in 1..Len(h[3]) : h[3][i] = n], rho>>], fuel - 1)
         ELSE IF h[1] # "defun" THEN Oom ELSE
         LET as == SEvalList(P, e[3], rho, fuel) IN
         \* some arguments unknown, none failing (static scan only): the body is evaluated with those parameters unknown.
         \* Its outcome then reads "if the call returns at all, it returns this" / "the call never returns a value" --
         \* (logand (f X) ()) with f returning a pair whatever X is fails for every input
         IF as[1] = "unk" /\ e[4][1] = "none" THEN
            LET r == SEval(P, h[4], SBindArgs(h[3], [i \in 1..Len(e[3]) |-> SEval(P, e[3][i], rho, fuel)], 1, EmptyEnv), fuel - 1) IN
            IF r[1] \in {"ok", "err"} THEN r ELSE Unk
         ELSE
         IF as[1] # "ok" THEN as ELSE
         LET tl == IF e[4][1] = "none" THEN Ok(Nil) ELSE SEval(P, e[4], rho, fuel) IN
         IF tl[1] # "ok" THEN tl ELSE
         LET b == BindS(h[3], Ok(ListVal(as[2], tl[2])), EmptyEnv) IN
         IF b[1] # "ok" THEN Err ELSE SEval(P, h[4], b[2], fuel - 1)
    [] e[1] = "let" ->
         IF e[2] = "seq" THEN SLetSeq(P, e[3], e[4], rho, fuel)
         ELSE LET vs == SEvalList(P, [i \in 1..Len(e[3]) |-> e[3][i][2]], rho, fuel) IN
              IF vs[1] # "ok" THEN vs ELSE
              SEval(P, e[4], [n \in {e[3][i][1] : i \in 1..Len(e[3])} |->
                                Ok(vs[2][CHOOSE i \in 1..Len(e[3]) : e[3][i][1] = n])] @@ rho, fuel)
    [] e[1] = "assign" -> SAssign(P, e[2], e[3], rho, fuel)
    [] e[1] = "lambda" ->
         LET caps == [n \in {e[2][i] : i \in 1..Len(e[2])} |-> SEval(P, <<"var", n>>, rho, fuel)]
             badc == {n \in DOMAIN caps : caps[n][1] # "ok"}
         IN IF badc # {} THEN caps[CHOOSE n \in badc : TRUE] ELSE Ok(<<"clo", "lam", caps, e[3], e[4]>>)
    [] e[1] = "mod" -> Ok(<<"clo", "mod", e[2]>>)
    [] e[1] = "apply" ->
         LET f == SEval(P, e[2], rho, fuel) IN
         IF f[1] # "ok" THEN f ELSE
         LET xx == SEval(P, e[3], rho, fuel) IN
         IF xx[1] # "ok" THEN xx ELSE SApply(P, f[2], xx[2], fuel)
    [] OTHER -> Oom

\* ---- closed subexpressions that fail for every input (the folding optimisers evaluate and reject them by design) ----
RECURSIVE SubExprs(_)
SeqUnion(f, es) == UNION {f[i] : i \in 1..Len(es)}
SubExprs(e) ==
  {e} \cup
  (CASE e[1] \in {"lit", "var", "mod"} -> {}
     [] e[1] = "prim" -> UNION {SubExprs(e[3][i]) : i \in 1..Len(e[3])}
     [] e[1] = "list" -> UNION {SubExprs(e[2][i]) : i \in 1..Len(e[2])}
     [] e[1] = "call" -> UNION {SubExprs(e[3][i]) : i \in 1..Len(e[3])} \cup (IF e[4][1] = "none" THEN {} ELSE SubExprs(e[4]))
     [] e[1] = "if" -> SubExprs(e[2]) \cup SubExprs(e[3]) \cup SubExprs(e[4])
     [] e[1] = "let" -> UNION {SubExprs(e[3][i][2]) : i \in 1..Len(e[3])} \cup SubExprs(e[4])
     [] e[1] = "assign" -> UNION {SubExprs(e[2][i][2]) : i \in 1..Len(e[2])} \cup SubExprs(e[3])
     [] e[1] = "lambda" -> SubExprs(e[4])
     [] e[1] = "apply" -> SubExprs(e[2]) \cup SubExprs(e[3])
     [] OTHER -> {})
\* syntactically closed: built from literals, primitives, if and list only (no variables, calls or binders)
RECURSIVE Closed(_)
Closed(e) ==
  CASE e[1] = "lit" -> TRUE
    [] e[1] = "prim" -> \A i \in 1..Len(e[3]) : Closed(e[3][i])
    [] e[1] = "list" -> \A i \in 1..Len(e[2]) : Closed(e[2][i])
    [] e[1] = "if" -> Closed(e[2]) /\ Closed(e[3]) /\ Closed(e[4])
    [] OTHER -> FALSE
AllBodies(P) == {P.body} \cup {P.helpers[i][4] : i \in {j \in 1..Len(P.helpers) : P.helpers[j][1] \in {"defun", "defmacro"}}}
\* ... and subexpressions that fail for every input once the literals bound by enclosing let / assign forms (and passed
\* to functions) are propagated: every occurrence of a subexpression is evaluated in its static environment, in which
\* parameters have the outcome <<"unk">> (unknown) and let-bound names the outcome of their binding
Fails(P, e, rho) == e[1] \notin {"lit", "var"} /\ SEval(P, e, rho, 20)[1] = "err"
RECURSIVE Scan(_, _, _), ScanSeq(_, _, _, _), ScanAssign(_, _, _, _)
ScanSeq(P, bs, body, rho) ==
  IF bs = <<>> THEN Scan(P, body, rho)
  ELSE Scan(P, bs[1][2], rho) \/ ScanSeq(P, Tail(bs), body, (bs[1][1] :> SEval(P, bs[1][2], rho, 20)) @@ rho)
ScanAssign(P, bs, body, rho) ==
  IF bs = <<>> THEN Scan(P, body, rho)
  ELSE Scan(P, bs[1][2], rho) \/ ScanAssign(P, Tail(bs), body, SBindU(bs[1][1], SEval(P, bs[1][2], rho, 20), rho))
Scan(P, e, rho) ==
  \/ Fails(P, e, rho)
  \/ CASE e[1] = "prim" -> \E i \in 1..Len(e[3]) : Scan(P, e[3][i], rho)
        [] e[1] = "list" -> \E i \in 1..Len(e[2]) : Scan(P, e[2][i], rho)
        [] e[1] = "call" -> (\E i \in 1..Len(e[3]) : Scan(P, e[3][i], rho)) \/ (e[4][1] # "none" /\ Scan(P, e[4], rho))
        [] e[1] = "if" -> Scan(P, e[2], rho) \/ Scan(P, e[3], rho) \/ Scan(P, e[4], rho)
        [] e[1] = "let" -> IF e[2] = "seq" THEN ScanSeq(P, e[3], e[4], rho)
                           ELSE (\E i \in 1..Len(e[3]) : Scan(P, e[3][i][2], rho))
                                \/ Scan(P, e[4], [n \in {e[3][i][1] : i \in 1..Len(e[3])} |->
                                        SEval(P, e[3][CHOOSE i \in 1..Len(e[3]) : e[3][i][1] = n][2], rho, 20)] @@ rho)
        [] e[1] = "assign" -> ScanAssign(P, e[2], e[3], rho)
        [] e[1] = "lambda" -> Scan(P, e[4], UnkEnv(PatNameSet(e[3])) @@ rho)
        [] e[1] = "apply" -> Scan(P, e[2], rho) \/ Scan(P, e[3], rho)
        [] OTHER -> FALSE
StaticFail(P) ==
  \/ \E b \in AllBodies(P) : \E e \in SubExprs(b) : e[1] # "lit" /\ Closed(e) /\ SEval(P, e, EmptyEnv, 20)[1] = "err"
  \/ Scan(P, P.body, UnkEnv(PatNameSet(P.args)))
  \/ \E i \in 1..Len(P.helpers) :
        \/ P.helpers[i][1] = "defun" /\ Scan(P, P.helpers[i][4], UnkEnv(PatNameSet(P.helpers[i][3])))
        \/ P.helpers[i][1] = "defmacro" /\ Scan(P, P.helpers[i][4], UnkEnv({P.helpers[i][3][k] : k \in 1..Len(P.helpers[i][3])}))
        \/ P.helpers[i][1] = "defconst" /\ Scan(P, P.helpers[i][3], EmptyEnv)

RunProgram(P, args, fuel) ==
  LET b == BindS(P.args, Ok(args), EmptyEnv)
      r == IF b[1] # "ok" THEN Err ELSE SEval(P, P.body, b[2], fuel) IN
  IF r[1] = "ok" /\ HasClo(r[2]) THEN Oom ELSE r
=============================================================================
