SPECIFICATION Spec
CONSTANTS MaxLen = 3
 AlphabetKind = "boundary"
INVARIANTS MachineConsistent Bounded
CHECK_DEADLOCK FALSE
