---------------------------- MODULE Trace_Reader ----------------------------
(* Trace validation for C15.  One record per text: the text, the lengths of   *)
(* its lines, and what the real reader returned for it (forms with locations, *)
(* or an error location).  Tokens!Read gives, from the text alone, where every *)
(* token and every parenthesised group is; the properties are evaluated on the  *)
(* observed forms:                                                              *)
(*  P1 each leaf's location addresses exactly the characters of its token       *)
(*  P2 each list's location lies between its opening and closing parenthesis    *)
(*  P3 an error location lies within the text (cursor positions one past the    *)
(*     end of a line / of the text included)                                    *)
(* A location [f, l, c, ul, uc] addresses [c, uc) on line l, or [c, c+1) when   *)
(* there is no until part (ul = 0), up to line ul.                               *)
EXTENDS Tokens, Json, IOUtils, FiniteSets
Rec == ndJsonDeserialize(IOEnv.TRACE)

EndOf(loc) == IF loc[4] = 0 THEN <<loc[2], loc[3] + 1>> ELSE <<loc[4], loc[5]>>
Le(a, b) == a[1] < b[1] \/ (a[1] = b[1] /\ a[2] <= b[2])
LeafOk(o, d) == o[2][1] = "in" /\ o[2][2] = d[2] /\ o[2][3] = d[3] /\ EndOf(o[2]) = <<d[4], d[5]>>
Within(loc, d) == loc[1] = "in" /\ Le(<<d[2], d[3]>>, <<loc[2], loc[3]>>) /\ Le(EndOf(loc), <<d[4], d[5]>>)
                  /\ Le(<<loc[2], loc[3]>>, EndOf(loc))

\* set of reasons why the observed form o does not match the declared form d
RECURSIVE Mismatch(_, _), SpineMismatch(_, _, _, _)
Mismatch(o, d) ==
  IF d[1] = "tok" THEN
     IF o[1] = "cons" THEN {<<"shape", d>>}
     ELSE IF LeafOk(o, d) THEN {} ELSE {<<"P1", o[2], d>>}
  ELSE \* group
     IF d[6] = <<>> THEN (IF o[1] # "nil" THEN {<<"shape", d>>} ELSE IF Within(o[2], d) THEN {} ELSE {<<"P2", o[2], d>>})
     ELSE IF o[1] # "cons" THEN {<<"shape", d>>}
     ELSE (IF Within(o[2], d) THEN {} ELSE {<<"P2", o[2], d>>}) \cup SpineMismatch(o, d[6], d[7], 1)
SpineMismatch(o, items, tail, k) ==
  IF k > Len(items) THEN
     (IF tail = <<>> THEN (IF o[1] = "nil" THEN {} ELSE {<<"shape-tail", o[1]>>})
      ELSE Mismatch(o, tail[1]))
  ELSE IF o[1] # "cons" THEN {<<"shape-short", k>>}
  ELSE Mismatch(o[3], items[k]) \cup SpineMismatch(o[4], items, tail, k + 1)

\* an error location lies within the text: line 1..#lines (+1 only for an empty last position), column 1..len+1
\* and its end, when present, too
PosIn(l, c, lens) == l >= 1 /\ l <= Len(lens) /\ c >= 1 /\ c <= lens[l] + 2
ErrLocOk(loc, lens) == loc[1] = "in" /\ PosIn(loc[2], loc[3], lens) /\ (loc[4] = 0 \/ PosIn(loc[4], loc[5], lens))

VARIABLES l, bad, cnt
vars == <<l, bad, cnt>>
Init == l = 1 /\ bad = {} /\ cnt = [texts |-> 0, regular |-> 0, leaves_and_lists |-> 0, errors |-> 0, skipped |-> 0]
Next ==
  /\ l <= Len(Rec) /\ l' = l + 1
  /\ LET e == Rec[l]
         d == Read(e.text)
         forms == IF e.res.ok THEN e.res.forms ELSE <<>>
         \* the reader returns only a trailing top-level bareword's form in some cases: compare from the end
         n == IF d = Bad THEN 0 ELSE Len(d[2])
         m == Len(forms)
         k == IF m < n THEN m ELSE n
         comparable == e.res.ok /\ d # Bad /\ m <= n
         B == IF comparable THEN UNION {Mismatch(forms[m - j + 1], d[2][n - j + 1]) : j \in 1..k} ELSE {}
         E == IF ~e.res.ok /\ ~ErrLocOk(e.res.loc, e.lens) THEN {<<"P3", e.res.loc>>} ELSE {}
         S == IF ~e.same THEN {<<"bytewise">>} ELSE {}
     IN /\ bad' = IF B \cup E \cup S = {} THEN bad ELSE bad \cup {<<l, B \cup E \cup S>>}
        /\ cnt' = [cnt EXCEPT !.texts = @ + 1, !.regular = @ + (IF comparable THEN 1 ELSE 0),
                              !.errors = @ + (IF e.res.ok THEN 0 ELSE 1),
                              !.skipped = @ + (IF e.res.ok /\ ~comparable THEN 1 ELSE 0),
                              !.leaves_and_lists = @ + (IF comparable THEN k ELSE 0)]
Spec == Init /\ [][Next]_vars
Finished == l > Len(Rec) => PrintT(<<"RESULT", ToJson([n |-> Len(Rec), bad |-> bad, cnt |-> cnt])>>)
=============================================================================
