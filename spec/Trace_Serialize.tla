-------------------------- MODULE Trace_Serialize --------------------------
(* Trace validation for C08.  Records from the real code:                    *)
(*  Enc: value, bytes written by the classic serialiser (impl) and by clvmr  *)
(*       (cons), and the classic deserialiser's reading of impl (back)       *)
(*  Dec: arbitrary bytes, outcome of the classic deserialiser (impl), clvmr  *)
(*  Big: an atom of `len` bytes (content not in the trace): first bytes of   *)
(*       both encodings, whether both encodings were byte-identical (same)   *)
(*       and whether the round trip gave the value back                      *)
EXTENDS Serialize, Json, IOUtils, TLC, FiniteSets
Rec == ndJsonDeserialize(IOEnv.TRACE)
VARIABLES l, bad, specerr, drift, cnt
vars == <<l, bad, specerr, drift, cnt>>
Init == l = 1 /\ bad = {} /\ specerr = {} /\ drift = {} /\ cnt = [enc |-> 0, dec |-> 0, dec_ok |-> 0, big |-> 0]

IsPrefixOf(p, s) == Len(p) <= Len(s) /\ SubSeq(s, 1, Len(p)) = p

Next ==
  /\ l <= Len(Rec) /\ l' = l + 1
  /\ LET e == Rec[l] IN
     CASE e.ev = "Enc" ->
            LET s == Ser(e.value) IN
            /\ specerr' = IF s # e.cons THEN specerr \cup {l} ELSE specerr
            \* P: byte-identical to the consensus serialiser, and reading it back gives the value
            /\ bad' = IF e.impl # e.cons \/ e.back # Ok(e.value) THEN bad \cup {l} ELSE bad
            /\ drift' = drift
            /\ cnt' = [cnt EXCEPT !.enc = @ + 1]
       [] e.ev = "Dec" ->
            LET r == RefDe(e.bytes) m == ImplDe(e.bytes) IN
            /\ specerr' = IF r[1] # "oom" /\ r # e.cons THEN specerr \cup {l} ELSE specerr
            \* P: a value is only ever returned when the consensus deserialiser returns that value
            /\ bad' = IF e.impl[1] = "ok" /\ e.impl # e.cons THEN bad \cup {l} ELSE bad
            /\ drift' = IF m[1] # "oom" /\ m # e.impl THEN drift \cup {l} ELSE drift
            /\ cnt' = [cnt EXCEPT !.dec = @ + 1, !.dec_ok = @ + (IF e.impl[1] = "ok" THEN 1 ELSE 0)]
       [] e.ev = "Big" ->
            LET want == (IF e.paired THEN <<255>> ELSE <<>>) \o SizeBlob(e.len) IN
            /\ specerr' = IF ~IsPrefixOf(want, e.cons_prefix) THEN specerr \cup {l} ELSE specerr
            /\ bad' = IF ~e.same \/ ~e.back_ok \/ ~IsPrefixOf(want, e.impl_prefix) THEN bad \cup {l} ELSE bad
            /\ drift' = drift
            /\ cnt' = [cnt EXCEPT !.big = @ + 1]
       [] e.ev = "EncAbs" ->
            \* a large value that is not a single atom: only the two verdicts are in the trace
            /\ bad' = IF ~e.same \/ ~e.back_ok THEN bad \cup {l} ELSE bad
            /\ UNCHANGED <<specerr, drift>>
            /\ cnt' = [cnt EXCEPT !.enc = @ + 1]
       [] OTHER -> UNCHANGED <<bad, specerr, drift, cnt>>
Spec == Init /\ [][Next]_vars
Finished == l > Len(Rec) =>
   PrintT(<<"RESULT", ToJson([n |-> Len(Rec), bad |-> bad, specerr |-> specerr, drift |-> drift, cnt |-> cnt])>>)
=============================================================================
