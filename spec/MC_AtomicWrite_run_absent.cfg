SPECIFICATION Spec
CONSTANTS Writers = {1, 2}
 NChunks = 2
 InitKind = "absent"
 InPlace = FALSE
 Faults = TRUE
 OnError = "report"
INVARIANTS TargetIntact ReaderSeesComplete SameContentSucceeds OkMeansWritten FailureIsReported
CHECK_DEADLOCK FALSE
