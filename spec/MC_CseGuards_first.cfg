SPECIFICATION Spec
CONSTANTS Depth = 2
 Rule = "first"
INVARIANTS HoistingIsSafe
CHECK_DEADLOCK FALSE
