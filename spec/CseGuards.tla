------------------------------ MODULE CseGuards ------------------------------
(* When may a repeated subexpression be evaluated once, before the conditions *)
(* around its instances?  (compiler/optimize/cse.rs: cse_classify_by_        *)
(* conditions / cse_is_covering; C02 "hoisting a subexpression above the      *)
(* guard that protects it".)                                                  *)
(*                                                                            *)
(* A function body is a tree of                                               *)
(*   <<"E", 0>>         an instance of the repeated subexpression (it may     *)
(*                      fail, e.g. (sha256 (f (f X)) 1) on an atom X; its     *)
(*                      value is true)                                        *)
(*   <<"K", 0>>         a (true) constant                                     *)
(*   <<"g", i>>         a guard variable: a parameter that is true or nil     *)
(*   <<"if", c, t, e>>  c, t, e are trees (conditions may be ifs themselves)  *)
(* Source meaning: call by value with a lazy if.  Binding E once above the    *)
(* tree ("hoisting") evaluates it unconditionally.  The rule the compiler     *)
(* uses: hoist only when every condition above an instance is *covered*: E    *)
(* occurs in the condition itself or in both branches.                        *)
(*   Rule = "any"    conditions above any instance are examined (7b1881c)     *)
(*   Rule = "first"  only conditions above the first instance (the defect)    *)
EXTENDS Naturals, Sequences, FiniteSets, TLC
CONSTANTS Depth, Rule

Guards == {1, 2}
Leaves == {<<"E", 0>>, <<"K", 0>>, <<"g", 1>>, <<"g", 2>>}
RECURSIVE Trees(_)
Trees(d) == IF d = 0 THEN Leaves
            ELSE Trees(d - 1) \cup {<<"if", c, t, e>> : c \in Trees(d - 1), t \in Trees(d - 1), e \in Trees(d - 1)}

\* ---- source meaning; the outcome is Fail, EVal (the value of the subexpression), <<"K", 0>>, True or Nil
Fail == <<"fail", 0>>
EVal == <<"E", 0>>
True == <<"t", 0>>
Nil == <<"n", 0>>
RECURSIVE Eval(_, _, _)
Eval(t, G, efail) ==
  CASE t[1] = "E" -> IF efail THEN Fail ELSE EVal
    [] t[1] = "K" -> t
    [] t[1] = "g" -> IF G[t[2]] THEN True ELSE Nil
    [] t[1] = "if" ->
         LET c == Eval(t[2], G, efail)
         IN IF c = Fail THEN Fail ELSE IF c # Nil THEN Eval(t[3], G, efail) ELSE Eval(t[4], G, efail)

\* ---- paths: sequences over {1 (condition), 2, 3}
RECURSIVE Instances(_)
Instances(t) ==
  CASE t[1] = "E" -> {<<>>}
    [] t[1] = "if" -> {<<1>> \o p : p \in Instances(t[2])} \cup {<<2>> \o p : p \in Instances(t[3])} \cup {<<3>> \o p : p \in Instances(t[4])}
    [] OTHER -> {}
RECURSIVE CondPaths(_)
CondPaths(t) == IF t[1] # "if" THEN {} ELSE
   {<<>>} \cup {<<1>> \o p : p \in CondPaths(t[2])} \cup {<<2>> \o p : p \in CondPaths(t[3])} \cup {<<3>> \o p : p \in CondPaths(t[4])}
IsPrefix(p, q) == Len(p) <= Len(q) /\ SubSeq(q, 1, Len(p)) = p
Above(c, i) == IsPrefix(c, i) /\ c # i       \* condition c encloses instance i (an instance in c's own condition counts)
Covering(c, I) == \/ \E i \in I : IsPrefix(c \o <<1>>, i)
                  \/ (\E i \in I : IsPrefix(c \o <<2>>, i)) /\ (\E i \in I : IsPrefix(c \o <<3>>, i))
\* the first instance in traversal order (cse.rs visits condition, then-branch, else-branch)
RECURSIVE Less(_, _)
Less(p, q) == IF p = <<>> THEN q # <<>> ELSE IF q = <<>> THEN FALSE
              ELSE IF p[1] # q[1] THEN p[1] < q[1] ELSE Less(Tail(p), Tail(q))
First(I) == CHOOSE i \in I : \A j \in I : j = i \/ Less(i, j)

Saturated(t) ==
  LET I == Instances(t)
      examined == IF Rule = "first" THEN {c \in CondPaths(t) : Above(c, First(I))}
                  ELSE {c \in CondPaths(t) : \E i \in I : Above(c, i)}
  IN Cardinality(I) >= 2 /\ \A c \in examined : Covering(c, I)

\* ---- meaning after the transformation
Hoisted(t, G, efail) == IF Saturated(t) THEN (IF efail THEN Fail ELSE Eval(t, G, FALSE)) ELSE Eval(t, G, efail)

Assignments == [Guards -> BOOLEAN]
Safe(t) == \A G \in Assignments, efail \in BOOLEAN : Eval(t, G, efail) # Fail => Hoisted(t, G, efail) = Eval(t, G, efail)

VARIABLES tree, emitted
vars == <<tree, emitted>>
Init == tree \in Trees(Depth) /\ emitted = FALSE
Next == ~emitted /\ emitted' = TRUE /\ UNCHANGED tree
Spec == Init /\ [][Next]_vars

\* C02 on the model: hoisting under the rule never changes a returned value
HoistingIsSafe == Safe(tree)
\* non-vacuity: some trees are hoisted
SomeSaturated == ~Saturated(tree)
=============================================================================
