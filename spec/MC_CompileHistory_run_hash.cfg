SPECIFICATION Spec
CONSTANTS Threads = {1, 2}
 Jobs <- MCJobs
 StartCtrs = {8, 98}
 Leak = "hash"
 MaxJobs = 2
 MaxRestarts = 1
INVARIANTS Pure ModeRestored
CHECK_DEADLOCK FALSE
