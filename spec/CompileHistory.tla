---------------------------- MODULE CompileHistory ----------------------------
(* Process-level state that outlives one compilation: the global fresh-name  *)
(* counter (gensym.rs) and the per-thread integer-conversion mode with its    *)
(* RAII guard (clvm.rs).  Threads compile jobs; a job draws fresh names       *)
(* (interleaved freely with other threads) and produces an output.            *)
(* Leak selects how the output may depend on the names drawn:                 *)
(*   "none"  - output is a function of the job only (the design)              *)
(*   "order" - output depends on the lexicographic order of the drawn names   *)
(*             (sorted listings, maps keyed by name): differs when the        *)
(*             decimal counter crosses a digit-length boundary                *)
(*   "text"  - output contains a generated name as data                       *)
(*   "mode"  - output depends on the integer mode the thread had *before*     *)
(*             the job (a compile path that does not install its own mode)    *)
(*   "noguard" - the mode guard is not dropped on the error path              *)
(*   "hash"  - output depends on the iteration order of a hash set, i.e. on   *)
(*             the hash seed the process drew at start (a greedy search that  *)
(*             tries candidates in set-iteration order: deinline.rs before    *)
(*             the repair 53721f9)                                            *)
EXTENDS Integers, Sequences, FiniteSets, TLC
CONSTANTS Threads, Jobs, StartCtrs, Leak, MaxJobs, MaxRestarts
\* a job: [id, fix (the dialect's integer mode), draws (names drawn), fails (ends in an error), sets (installs its mode)]

VARIABLES ctr, mode, guards, running, drawn, out, done, hist, start, restarts, seed
vars == <<ctr, mode, guards, running, drawn, out, done, hist, start, restarts, seed>>
\* hash seeds a process can draw (two suffice: the order of a two-element set is either way round)
Seeds == {0, 1}
NoJob == [id |-> 0, fix |-> TRUE, draws |-> 0, fails |-> FALSE, sets |-> TRUE]

\* start = <<counter, mode>> of the current process; a process is started with any of them
Init == /\ \E c \in StartCtrs, m \in BOOLEAN : start = <<c, m>> /\ ctr = c /\ mode = [t \in Threads |-> m]
        /\ restarts = 0 /\ seed \in Seeds
        /\ guards = [t \in Threads |-> <<>>]
        /\ running = [t \in Threads |-> NoJob]
        /\ drawn = [t \in Threads |-> <<>>]
        /\ out = {}
        /\ done = 0
        /\ hist = <<>>

Begin(t, j) == /\ running[t].id = 0 /\ done + Cardinality({u \in Threads : running[u].id # 0}) < MaxJobs
               /\ running' = [running EXCEPT ![t] = j]
               /\ guards' = [guards EXCEPT ![t] = IF j.sets THEN <<mode[t]>> \o @ ELSE @]
               /\ mode' = [mode EXCEPT ![t] = IF j.sets THEN j.fix ELSE @]
               /\ drawn' = [drawn EXCEPT ![t] = <<>>]
               /\ hist' = Append(hist, <<"begin", t, j.id, mode[t]>>)
               /\ UNCHANGED <<ctr, out, done, start, restarts, seed>>
Gensym(t) == /\ running[t].id # 0 /\ Len(drawn[t]) < running[t].draws
             /\ ctr' = ctr + 1
             /\ drawn' = [drawn EXCEPT ![t] = Append(@, ctr + 1)]
             /\ UNCHANGED <<mode, guards, running, out, done, hist, start, restarts, seed>>

Digits(n) == IF n < 10 THEN 1 ELSE IF n < 100 THEN 2 ELSE IF n < 1000 THEN 3 ELSE IF n < 10000 THEN 4 ELSE 5
\* decimal strings compare: a shorter string that is a prefix-wise smaller ... for numbers a < b:
\* text(a) < text(b) iff same number of digits, or the leading digits decide; approximated exactly for the boundary
\* cases the model explores (consecutive numbers): text order flips exactly when the digit count grows
TextLess(a, b) == IF Digits(a) = Digits(b) THEN a < b ELSE
                  \* consecutive counters around a boundary: "9" vs "10": "10" < "9"
                  LET lead(n) == n \div (IF Digits(n) = 1 THEN 1 ELSE IF Digits(n) = 2 THEN 10 ELSE IF Digits(n) = 3 THEN 100 ELSE IF Digits(n) = 4 THEN 1000 ELSE 10000)
                  IN IF lead(a) # lead(b) THEN lead(a) < lead(b) ELSE Digits(a) < Digits(b)
OrderSig(ns) == [i \in 1..Len(ns) |-> Cardinality({k \in 1..Len(ns) : TextLess(ns[k], ns[i])})]

Output(j, ns, before) ==
  CASE Leak = "none"  -> <<j.id>>
    [] Leak = "order" -> <<j.id, OrderSig(ns)>>
    [] Leak = "text"  -> <<j.id, ns>>
    [] Leak = "mode"  -> IF j.sets THEN <<j.id>> ELSE <<j.id, before>>
    \* a greedy search over the (two) synthesised functions of the job, tried in hash order: the first candidate wins
    [] Leak = "hash"  -> IF j.draws >= 2 THEN <<j.id, seed>> ELSE <<j.id>>
    [] OTHER -> <<j.id>>

End(t) == /\ running[t].id # 0 /\ Len(drawn[t]) = running[t].draws
          /\ LET j == running[t]
                 before == IF j.sets THEN guards[t][1] ELSE mode[t]
                 keepguard == Leak = "noguard" /\ j.fails
             IN /\ out' = IF j.fails THEN out ELSE out \cup {<<j.id, Output(j, drawn[t], before)>>}
                /\ mode' = [mode EXCEPT ![t] = IF j.sets /\ ~keepguard THEN guards[t][1] ELSE @]
                /\ guards' = [guards EXCEPT ![t] = IF j.sets THEN Tail(@) ELSE @]
                /\ hist' = Append(hist, <<"end", t, j.id, j.fails>>)
          /\ running' = [running EXCEPT ![t] = NoJob]
          /\ done' = done + 1
          /\ UNCHANGED <<ctr, drawn, start, restarts, seed>>

Idle == \A t \in Threads : running[t].id = 0
\* a new process: fresh counter and thread modes; the observations made so far are kept, since
\* "the same source always gives the same output" quantifies over processes as well
Restart(c, m) == /\ Idle /\ restarts < MaxRestarts /\ done > 0
                 /\ restarts' = restarts + 1 /\ start' = <<c, m>> /\ ctr' = c /\ mode' = [t \in Threads |-> m]
                 /\ done' = 0 /\ hist' = <<>> /\ seed' \in Seeds
                 /\ UNCHANGED <<guards, running, drawn, out>>

Next == \/ \E t \in Threads : (\E j \in Jobs : Begin(t, j)) \/ Gensym(t) \/ End(t)
        \/ \E c \in StartCtrs, m \in BOOLEAN : Restart(c, m)
Spec == Init /\ [][Next]_vars

\* C05
Pure == \A a, b \in out : a[1] = b[1] => a[2] = b[2]
ModeRestored == \A t \in Threads : running[t].id = 0 => mode[t] = start[2]
=============================================================================
