----------------------------- MODULE Trace_Rich -----------------------------
(* Trace validation for C07 on random longer atoms and trees.  The tree hash *)
(* is an uninterpreted function here: the three observed hashes of a value   *)
(* must coincide, the hash must be a function of the value and injective     *)
(* over everything seen in the trace.  Small values also carry the rich form *)
(* chosen by the implementation, compared with the model (drift).            *)
EXTENDS RichValues, Json, IOUtils, TLC, FiniteSets
Rec == ndJsonDeserialize(IOEnv.TRACE)
VARIABLES l, bad, drift, hashOf, idOf, cnt
vars == <<l, bad, drift, hashOf, idOf, cnt>>
\* hashOf: value id -> hash string; idOf: hash string -> value id  (partial functions built from the trace)
Init == l = 1 /\ bad = {} /\ drift = {} /\ hashOf = <<>> /\ idOf = <<>> /\ cnt = [atoms |-> 0, all |-> 0]

RECURSIVE RichOfModel(_, _)
RichOfModel(v, fixed) == IF IsPair(v) THEN <<"cons", RichOfModel(First(v), fixed), RichOfModel(Rest(v), fixed)>>
                         ELSE FromClvmAtom(BytesOf(v), fixed)

Next ==
  /\ l <= Len(Rec) /\ l' = l + 1
  /\ LET e == Rec[l]
         three == e.h_rich = e.h_classic /\ e.h_classic = e.h_clvmr
         id == e.id
         knownId == id \in DOMAIN hashOf
         knownHash == e.h_clvmr \in DOMAIN idOf
         functional == ~knownId \/ hashOf[id] = e.h_clvmr
         injective == ~knownHash \/ idOf[e.h_clvmr] = id
     IN
     /\ bad' = IF ~e.back_same \/ ~three \/ ~functional \/ ~injective THEN bad \cup {l} ELSE bad
     /\ hashOf' = IF knownId THEN hashOf ELSE (id :> e.h_clvmr) @@ hashOf
     /\ idOf' = IF knownHash THEN idOf ELSE (e.h_clvmr :> id) @@ idOf
     /\ drift' = IF e.small /\ RichOfModel(e.value, e.fixed) # e.rich THEN drift \cup {l} ELSE drift
     /\ cnt' = [cnt EXCEPT !.all = @ + 1, !.atoms = @ + (IF e.small /\ IsAtom(e.value) THEN 1 ELSE 0)]
Spec == Init /\ [][Next]_vars
Finished == l > Len(Rec) =>
   PrintT(<<"RESULT", ToJson([n |-> Len(Rec), bad |-> bad, drift |-> drift, cnt |-> cnt])>>)
=============================================================================
