------------------------------- MODULE Tokens -------------------------------
(* What a source text *is*, independently of the reader's implementation:   *)
(* a declarative recursive-descent reading of a text (a byte sequence) into *)
(* tokens and parenthesised groups, each with the positions (line, column,  *)
(* both from 1) of its first character and of the character after its last. *)
(*   token  <<"tok", sl, sc, el, ec>>                                        *)
(*   group  <<"grp", ol, oc, cl, cc, items, tail>>  tail = <<>> | <<form>>   *)
(*          (ol,oc) position of "(" and (cl,cc) position after ")"           *)
(* Conventions of the language (not of the implementation): a bareword ends  *)
(* at white space, and inside a list also at ")" (except that the character  *)
(* right after a leading "#" always belongs to the word); a quoted token     *)
(* runs to the unescaped closing quote and may span lines; ";" starts a       *)
(* comment to the                                                              *)
(* end of the line; inside a list a lone "." introduces the tail.            *)
(* Texts outside the regular fragment (#( structured lists, stray dots or    *)
(* parentheses, unterminated tokens) read as <<"bad">>.                      *)
EXTENDS Integers, Sequences, TLC

IsWs(b) == b \in {32, 10, 13, 9, 11, 12}
Adv(b, p) == IF b = 10 THEN <<p[1] + 1, 1>> ELSE <<p[1], p[2] + 1>>

\* skip white space and comments from index i at position p; returns <<i, p>>
RECURSIVE Skip(_, _, _, _)
Skip(T, i, p, incomment) ==
  IF i > Len(T) THEN <<i, p>>
  ELSE IF incomment THEN Skip(T, i + 1, Adv(T[i], p), T[i] # 10)
  ELSE IF T[i] = 59 THEN Skip(T, i + 1, Adv(T[i], p), TRUE)
  ELSE IF IsWs(T[i]) THEN Skip(T, i + 1, Adv(T[i], p), FALSE)
  ELSE <<i, p>>

\* end of a bareword starting at i: first index that is white space, or ")" when inside a list
RECURSIVE WordEnd(_, _, _, _)
WordEnd(T, i, p, inlist) ==
  IF i > Len(T) \/ IsWs(T[i]) \/ (inlist /\ T[i] = 41) THEN <<i, p>>
  ELSE WordEnd(T, i + 1, Adv(T[i], p), inlist)
\* end of a quoted token whose opening quote q was at i-1: index after the closing quote, or 0 when unterminated
RECURSIVE QuoteEnd(_, _, _, _, _)
QuoteEnd(T, i, p, q, esc) ==
  IF i > Len(T) THEN <<0, p>>
  ELSE IF esc THEN QuoteEnd(T, i + 1, Adv(T[i], p), q, FALSE)
  ELSE IF T[i] = 92 THEN QuoteEnd(T, i + 1, Adv(T[i], p), q, TRUE)
  ELSE IF T[i] = q THEN <<i + 1, Adv(T[i], p)>>
  ELSE QuoteEnd(T, i + 1, Adv(T[i], p), q, FALSE)

Bad == <<"bad">>
RECURSIVE DForm(_, _, _, _), DList(_, _, _, _, _, _)
\* one form starting at the first non-blank at or after i; <<"ok", form, i', p'>> | Bad | <<"eof">>
DForm(T, i0, p0, inlist) ==
  LET s == Skip(T, i0, p0, FALSE) i == s[1] p == s[2] IN
  IF i > Len(T) THEN <<"eof">>
  ELSE IF T[i] = 40 THEN DList(T, i + 1, Adv(40, p), p, <<>>, FALSE)
  ELSE IF T[i] = 41 THEN (IF inlist THEN <<"close", i, p>> ELSE Bad)
  ELSE IF T[i] \in {34, 39} THEN
       LET e == QuoteEnd(T, i + 1, Adv(T[i], p), T[i], FALSE) IN
       IF e[1] = 0 THEN Bad ELSE <<"ok", <<"tok", p[1], p[2], e[2][1], e[2][2]>>, e[1], e[2]>>
  ELSE IF T[i] = 35 /\ i < Len(T) /\ T[i + 1] = 40 THEN Bad          \* #( structured list: outside the regular fragment
  ELSE IF inlist /\ T[i] = 46 THEN <<"dot", i, p>>
  ELSE IF T[i] = 35 /\ i < Len(T) /\ ~IsWs(T[i + 1]) THEN
       \* "#" takes the character after it into the word whatever it is -- even ")" -- (#name spells an operator)
       LET p2 == Adv(T[i + 1], Adv(35, p))
           e == WordEnd(T, i + 2, p2, inlist) IN <<"ok", <<"tok", p[1], p[2], e[2][1], e[2][2]>>, e[1], e[2]>>
  ELSE LET e == WordEnd(T, i, p, inlist) IN <<"ok", <<"tok", p[1], p[2], e[2][1], e[2][2]>>, e[1], e[2]>>

\* items of a list after its "(" (at position open); afterdot: the tail has been read
DList(T, i, p, open, items, afterdot) ==
  LET f == DForm(T, i, p, TRUE) IN
  IF f = Bad \/ f[1] = "eof" THEN Bad
  ELSE IF f[1] = "close" THEN
       LET cp == Adv(41, f[3]) IN <<"ok", <<"grp", open[1], open[2], cp[1], cp[2], items, <<>>>>, f[2] + 1, cp>>
  ELSE IF f[1] = "dot" THEN
       IF items = <<>> THEN Bad
       ELSE LET t == DForm(T, f[2] + 1, Adv(46, f[3]), TRUE) IN
            IF t = Bad \/ t[1] # "ok" THEN Bad
            ELSE LET c == DForm(T, t[3], t[4], TRUE) IN
                 IF c = Bad \/ c[1] # "close" THEN Bad
                 ELSE LET cp == Adv(41, c[3]) IN <<"ok", <<"grp", open[1], open[2], cp[1], cp[2], items, <<t[2]>>>>, c[2] + 1, cp>>
  ELSE DList(T, f[3], f[4], open, Append(items, f[2]), FALSE)

\* all top-level forms, or Bad
RECURSIVE DTop(_, _, _, _)
DTop(T, i, p, acc) ==
  LET f == DForm(T, i, p, FALSE) IN
  IF f = Bad THEN Bad
  ELSE IF f[1] = "eof" THEN <<"ok", acc>>
  ELSE DTop(T, f[3], f[4], Append(acc, f[2]))
Read(T) == DTop(T, 1, <<1, 1>>, <<>>)
=============================================================================
