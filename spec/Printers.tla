------------------------------ MODULE Printers ------------------------------
(* Token level model of the two printers and the two readers.  Text is a    *)
(* byte sequence.  Classic: ir_for_atom + write_ir (disassemble) and         *)
(* consume_quoted / interpret_atom_value (assemble).  Modern: Display for    *)
(* SExp and the reader's make_atom / quoted-text states.                     *)
EXTENDS RichValues, OpTables

HexDigit(n) == IF n < 10 THEN 48 + n ELSE 87 + n
RECURSIVE HexBody(_)
HexBody(bs) == IF bs = <<>> THEN <<>> ELSE <<HexDigit(bs[1] \div 16), HexDigit(bs[1] % 16)>> \o HexBody(Tail(bs))
HexText(bs) == <<48, 120>> \o HexBody(bs)
RECURSIVE DecDigits(_)
DecDigits(n) == IF n < 10 THEN <<48 + n>> ELSE Append(DecDigits(n \div 10), 48 + (n % 10))
DecText(n) == IF n < 0 THEN <<45>> \o DecDigits(-n) ELSE DecDigits(n)

\* ---------------------------------------------------------------- classic printer
ClassicPrintableByte(c) == c >= 32 /\ c <= 126 /\ c # 34
OversizedSignExt(a) == IF Len(a) < 2 THEN a = <<0>>
                       ELSE IF a[1] = 0 THEN a[2] < 128
                       ELSE IF a[1] = 255 THEN a[2] >= 128 ELSE FALSE
RECURSIVE EscapeWith(_, _)
\* characters of the set esc are written with a backslash in front
EscapeWith(bs, esc) == IF bs = <<>> THEN <<>>
                       ELSE (IF bs[1] \in esc THEN <<92, bs[1]>> ELSE <<bs[1]>>) \o EscapeWith(Tail(bs), esc)
\* the quoted form of the classic writer: '"' and '\' are escaped
ClassicQuote(a) == <<34>> \o EscapeWith(a, {34, 92}) \o <<34>>

DisasmAtom(a, kw, v) ==
  IF a = <<>> THEN <<40, 41>>
  ELSE IF Len(a) > 2 THEN (IF \A i \in 1..Len(a) : ClassicPrintableByte(a[i]) THEN ClassicQuote(a) ELSE HexText(a))
  ELSE IF kw /\ HasKeyword(v, a) THEN AtomToName(v, a)
  ELSE IF a # <<0>> /\ ~OversizedSignExt(a) THEN DecText(SignedOf(a))
  ELSE HexText(a)

\* ---------------------------------------------------------------- classic reader (one token)
HexVal(c) == IF c >= 48 /\ c <= 57 THEN c - 48
             ELSE IF c >= 97 /\ c <= 102 THEN c - 87
             ELSE IF c >= 65 /\ c <= 70 THEN c - 55 ELSE -1
RECURSIVE HexPairs(_)
HexPairs(t) == IF t = <<>> THEN <<>> ELSE <<HexVal(t[1]) * 16 + HexVal(t[2])>> \o HexPairs(Tail(Tail(t)))
IsDigit(c) == c >= 48 /\ c <= 57
RECURSIVE DecVal(_, _)
DecVal(t, acc) == IF t = <<>> THEN acc ELSE DecVal(Tail(t), acc * 10 + (t[1] - 48))

\* text between the quotes -> bytes; <<"err">> when unterminated.  i: position after the opening quote
RECURSIVE Unquote(_, _, _, _)
Unquote(t, i, q, acc) ==
  IF i > Len(t) THEN <<"err">>
  ELSE IF t[i] = 92 THEN (IF i + 1 > Len(t) THEN <<"err">> ELSE Unquote(t, i + 2, q, Append(acc, t[i + 1])))
  ELSE IF t[i] = q THEN (IF i = Len(t) THEN <<"ok", acc>> ELSE <<"err">>)   \* the token must end at the closing quote
  ELSE Unquote(t, i + 1, q, Append(acc, t[i]))

AsmToken(t) ==
  IF t = <<40, 41>> THEN <<"ok", <<>>>>
  ELSE IF t[1] \in {34, 39} THEN Unquote(t, 2, t[1], <<>>)
  ELSE IF Len(t) > 2 /\ t[1] = 48 /\ t[2] \in {120, 88} THEN
       LET body == SubSeq(t, 3, Len(t))
           padded == IF Len(body) % 2 = 1 THEN <<48>> \o body ELSE body IN
       IF \E i \in 1..Len(padded) : HexVal(padded[i]) < 0 THEN <<"err">> ELSE <<"ok", HexPairs(padded)>>
  ELSE LET neg == t[1] = 45
           digs == IF neg THEN Tail(t) ELSE t IN
       IF digs # <<>> /\ (\A i \in 1..Len(digs) : IsDigit(digs[i])) THEN
            (IF Len(digs) > 8 THEN <<"oom">>
             ELSE <<"ok", IntBytes(IF neg THEN -DecVal(digs, 0) ELSE DecVal(digs, 0))>>)
       ELSE LET nm == IF t[1] = 35 THEN Tail(t) ELSE t IN
            <<"ok", IF \E r \in KwTable(2) : r[1] = nm THEN NameToAtom(2, nm) ELSE nm>>

\* ---------------------------------------------------------------- modern printer
OomText == <<-1>>    \* "the decimal text of a number too wide for TLC" (texts are sequences of numbers)
ModernPrint(r) ==
  CASE r[1] = "nil" -> <<40, 41>>
    [] r[1] = "int" -> IF Small(r[2]) THEN DecText(SignedOf(r[2])) ELSE OomText
    [] r[1] = "str" -> IF Printable(r[3], TRUE) THEN <<34>> \o EscapeWith(r[3], {r[2]}) \o <<34>> ELSE HexText(r[3])
    [] r[1] = "sym" -> IF r[2] = <<>> THEN <<40, 41>>
                       ELSE IF Printable(r[2], FALSE) THEN r[2]
                       ELSE IF Small(r[2]) THEN DecText(SignedOf(r[2])) ELSE OomText

\* ---------------------------------------------------------------- modern reader (one token)
\* hex2bin(..).ok(): an invalid digit leaves the buffer as it was (zeros); modelled as "err" (never printed)
ModernReadTok(t) ==
  IF t = <<40, 41>> THEN <<"ok", <<"nil">>>>
  ELSE IF t[1] \in {34, 39} THEN
       LET u == Unquote(t, 2, t[1], <<>>) IN IF u[1] = "ok" THEN <<"ok", <<"str", t[1], u[2]>>>> ELSE u
  ELSE IF Len(t) >= 2 /\ t[1] = 48 /\ t[2] = 120 THEN
       LET body == SubSeq(t, 3, Len(t))
           padded == IF Len(body) % 2 = 1 THEN <<48>> \o body ELSE body IN
       IF \E i \in 1..Len(padded) : HexVal(padded[i]) < 0 THEN <<"err">> ELSE <<"ok", <<"str", 120, HexPairs(padded)>>>>
  ELSE LET neg == t[1] = 45
           digs == IF neg THEN Tail(t) ELSE t IN
       IF (\A i \in 1..Len(digs) : IsDigit(digs[i])) /\ t # <<45>> THEN
            (IF Len(digs) > 8 THEN <<"oom">>
             ELSE LET n == IF neg THEN -DecVal(digs, 0) ELSE DecVal(digs, 0) IN
                  IF n = 0 THEN <<"ok", <<"nil">>>>
                  ELSE <<"ok", <<"int", IntBytes(n)>>>>)
       ELSE <<"ok", <<"sym", t>>>>

\* ---------------------------------------------------------------- C09 on the model
ClassicRoundTrip(a, kw, v) == AsmToken(DisasmAtom(a, kw, v)) = <<"ok", a>>
ModernRoundTrip(a) ==
  LET r == FromClvmAtom(a, TRUE) t == ModernPrint(r) IN
  t # OomText =>
    /\ LET m == ModernReadTok(t) IN m[1] = "ok" /\ ToClvmAtom(m[2], TRUE) = a
    /\ AsmToken(t) = <<"ok", a>>
=============================================================================
