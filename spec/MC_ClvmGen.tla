---------------------------- MODULE MC_ClvmGen ----------------------------
(* Bounded exhaustive generator of CLVM terms.  The state is a prefix-coded *)
(* partial term (seq, need); Add(t) appends one token, Emit fires when the  *)
(* term is complete.  Every complete term is evaluated in every environment *)
(* of Envs with Clvm!Eval and printed as one JSON vector, which the harness  *)
(* replays through the real stepping evaluator, the real CLVM-level          *)
(* optimiser and the consensus evaluator (C04, C06, C12).                    *)
EXTENDS ClvmStepper, Json, TLC, FiniteSets
CONSTANTS MaxLen, Profile, EnvSet, ExtraCheck(_, _)
\* ExtraCheck(term, env): a further model-level assertion per emitted vector; NoExtra for C04 / C06,
\* MC_CldbGen!CldbCheck for C12 (kept out of this module: TLC's coverage instrumentation of Cldb runs out of memory)
NoExtra(t, e) == TRUE

\* tokens: <<"leaf", value>> | <<"q", value>> | <<"op", opcode bytes, arity>>
PathLeaves == CASE Profile = "stepper" -> { Nil, A(<<1>>), A(<<2>>), A(<<3>>), A(<<5>>), A(<<6>>) }
                [] Profile = "hier" -> { Nil, A(<<1>>), A(<<2>>), A(<<3>>) }
                [] OTHER -> { Nil, A(<<1>>), A(<<2>>), A(<<3>>), A(<<5>>), A(<<7>>) }
\* profile "hier" (C12, hierarchical view): the quoted constants are small *programs* (whole environment, first
\* argument, (f 1), (x), (a 2 3)) that the symbol tables of MC_HierGen register as functions
Quoted == CASE Profile = "stepper" -> { Nil, A(<<1>>), A(<<0>>), Cons(A(<<2>>), A(<<3>>)) }
            [] Profile = "hier" -> { A(<<1>>), A(<<2>>), Cons(A(<<5>>), Cons(A(<<1>>), Nil)), Cons(A(<<8>>), Nil),
                                     Cons(A(<<2>>), Cons(A(<<2>>), Cons(A(<<3>>), Nil))) }
            [] OTHER -> { Nil, A(<<1>>), A(<<2>>), Cons(A(<<5>>), A(<<7>>)) }
Ops == CASE Profile = "stepper" ->
            { <<<<2>>, 2>>, <<<<3>>, 3>>, <<<<4>>, 2>>, <<<<5>>, 1>>, <<<<6>>, 1>>, <<<<7>>, 1>>,
              <<<<8>>, 1>>, <<<<9>>, 2>>, <<<<16>>, 2>>, <<<<17>>, 2>> }
         [] Profile = "hier" -> { <<<<2>>, 2>>, <<<<3>>, 3>>, <<<<4>>, 2>>, <<<<5>>, 1>>, <<<<16>>, 2>> }
         [] OTHER ->
            { <<<<2>>, 2>>, <<<<3>>, 3>>, <<<<4>>, 2>>, <<<<5>>, 1>>, <<<<6>>, 1>>, <<<<7>>, 1>>,
              <<<<9>>, 2>>, <<<<16>>, 2>> }
Toks == { <<"leaf", v>> : v \in PathLeaves } \cup { <<"q", v>> : v \in Quoted }
        \cup { <<"op", o[1], o[2]>> : o \in Ops }
Arity(t) == IF t[1] = "op" THEN t[3] ELSE 0

RECURSIVE Dec(_)
RECURSIVE DecArgs(_, _)
DecArgs(s, n) == IF n = 0 THEN <<Nil, s>> ELSE
   LET h == Dec(s) t == DecArgs(h[2], n - 1) IN <<Cons(h[1], t[1]), t[2]>>
Dec(s) == LET t == s[1] IN
   CASE t[1] = "leaf" -> <<t[2], Tail(s)>>
     [] t[1] = "q" -> <<Cons(One, t[2]), Tail(s)>>
     [] t[1] = "op" -> LET as == DecArgs(Tail(s), t[3]) IN <<Cons(A(t[2]), as[1]), as[2]>>

\* "clean": no environment contains a form whose head is a pair; "headform": one does
Envs == CASE EnvSet = "clean" ->
             { Nil, A(<<5>>), Cons(One, A(<<2>>)),
               Cons(A(<<9>>), Cons(A(<<4>>), Cons(A(<<0, 200>>), A(<<3>>)))) }
          [] EnvSet = "hier" ->   \* environments holding code: ((f 1) 2 . 3) and (1 . 7)
             { Nil, Cons(One, A(<<7>>)), Cons(Cons(A(<<5>>), Cons(A(<<1>>), Nil)), Cons(A(<<2>>), A(<<3>>))) }
          [] OTHER ->
             { Cons(Cons(A(<<9>>), Nil), Cons(A(<<0, 200>>), Cons(A(<<3>>), Nil))),
               Cons(Cons(A(<<9>>), A(<<4>>)), Cons(A(<<3>>), Cons(A(<<3>>), A(<<7>>)))) }

VARIABLES seq, need, emitted
vars == <<seq, need, emitted>>
Init == seq = <<>> /\ need = 1 /\ emitted = FALSE
Add(t) == /\ need > 0 /\ Len(seq) + need + Arity(t) <= MaxLen
          /\ seq' = Append(seq, t) /\ need' = need - 1 + Arity(t) /\ UNCHANGED emitted
Emit == /\ need = 0 /\ ~emitted /\ emitted' = TRUE /\ UNCHANGED <<seq, need>>
        /\ LET term == Dec(seq)[1] IN
           \A e \in Envs :
              LET r == Eval(term, e, 30)
                  st == StepperOutcome(term, e, "int") IN
              /\ r[1] \in {"ok", "err", "fuel", "oom"}       \* totality of the semantics
              /\ st[1] \in {"ok", "err", "fuel", "oom"}      \* the machine never gets stuck
              \* C06 on the model: asserted on the clean environments, reported as a
              \* model-level counterexample ("D" line) where the deviation is known
              /\ (EnvSet \in {"clean", "hier"} => Assert(Agrees(term, e, "int"), <<"stepper disagrees", term, e, r, st>>))
              /\ (~Agrees(term, e, "int") => PrintT(<<"D", ToJson([prog |-> term, env |-> e, res |-> r, step |-> st])>>))
              /\ Assert(ExtraCheck(term, e), <<"extra check", term, e>>)
              /\ PrintT(<<"V", ToJson([prog |-> term, env |-> e, res |-> r, step |-> st])>>)
Next == (\E t \in Toks : Add(t)) \/ Emit
Spec == Init /\ [][Next]_vars
=============================================================================
