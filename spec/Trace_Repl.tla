------------------------------ MODULE Trace_Repl ------------------------------
(* Trace validation for C16.  One record per REPL session: the definitions    *)
(* and the expression as an AST (program [args, helpers, body]; closed         *)
(* expressions have no parameters), what the interactive evaluator answered    *)
(* (kind const / residual / limit / error, the constant), the outcomes of the  *)
(* program compiled from the same definitions and expression on the argument   *)
(* trees, and those of the compiled residual.                                   *)
EXTENDS Chialisp, Json, IOUtils, FiniteSets
Rec == ndJsonDeserialize(IOEnv.TRACE)
VARIABLES l, bad, badsrc, cnt
vars == <<l, bad, badsrc, cnt>>
Init == l = 1 /\ bad = {} /\ badsrc = {} /\ cnt = [const |-> 0, const_compared |-> 0, residual |-> 0, residual_compared |-> 0, src_compared |-> 0]
Next ==
  /\ l <= Len(Rec) /\ l' = l + 1
  /\ LET e == Rec[l]
         I == 1..Len(e.envs)
         \* a constant answer equals the compiled program's value whenever that returns
         b1 == e.kind = "const" /\ \E i \in I : e.compiled[i][1] = "ok" /\ e.compiled[i] # Ok(e.value)
         \* a residual, compiled with the same definitions, agrees with the original wherever the original returns
         b2 == e.kind = "residual" /\ \E i \in I : e.compiled[i][1] = "ok" /\ e.residual_compiled[i] # e.compiled[i]
         \* and the constant equals the source meaning when that returns (closed expressions)
         \* (in_model: the program's AST is in the record; nested beyond what the JSON reader takes it is left out)
         s == IF e.kind = "const" /\ ~e.open /\ e.in_model THEN RunProgram(e.ast, Nil, 60) ELSE Oom
         b3 == e.kind = "const" /\ ~e.open /\ s[1] = "ok" /\ s # Ok(e.value)
     IN /\ bad' = IF b1 \/ b2 THEN bad \cup {l} ELSE bad
        /\ badsrc' = IF b3 THEN badsrc \cup {l} ELSE badsrc
        /\ cnt' = [cnt EXCEPT !.const = @ + (IF e.kind = "const" THEN 1 ELSE 0),
                              !.const_compared = @ + (IF e.kind = "const" /\ \E i \in I : e.compiled[i][1] = "ok" THEN 1 ELSE 0),
                              !.residual = @ + (IF e.kind = "residual" THEN 1 ELSE 0),
                              !.residual_compared = @ + (IF e.kind = "residual" THEN Cardinality({i \in I : e.compiled[i][1] = "ok"}) ELSE 0),
                              !.src_compared = @ + (IF s[1] = "ok" THEN 1 ELSE 0)]
Spec == Init /\ [][Next]_vars
Finished == l > Len(Rec) => PrintT(<<"RESULT", ToJson([n |-> Len(Rec), bad |-> bad, badsrc |-> badsrc, cnt |-> cnt])>>)
=============================================================================
