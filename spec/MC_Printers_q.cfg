SPECIFICATION Spec
CONSTANTS FullLen = 2
 BoundaryLen = 3
CHECK_DEADLOCK FALSE
