SPECIFICATION Spec
CONSTANTS Threads = {1, 2}
 Jobs <- MCJobs
 StartCtrs = {8, 98}
 Leak = "none"
 MaxJobs = 3
 MaxRestarts = 0
INVARIANTS Pure ModeRestored EmitHistories
CHECK_DEADLOCK FALSE
