SPECIFICATION Spec
CONSTANTS MaxLen = 4
 Profile = "hier"
 EnvSet = "hier"
 ExtraCheck <- HierCheck
CHECK_DEADLOCK FALSE
