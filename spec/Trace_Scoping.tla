---------------------------- MODULE Trace_Scoping ----------------------------
(* Trace validation for C10.  One record per (defective program, its repaired *)
(* twin, dialect): the kind of injected defect, both ASTs, what the real       *)
(* compiler did with each (compiled / rejected / timeout / crash) and whether   *)
(* the error named the offending identifier or pointed inside the offending     *)
(* form.  Scoping.tla decides from the ASTs alone that the defective program    *)
(* is ill-scoped and the twin is not (a record where it says otherwise is an    *)
(* injection that did not inject, counted and not judged).                      *)
EXTENDS Scoping, Json, IOUtils
Rec == ndJsonDeserialize(IOEnv.TRACE)
VARIABLES l, bad, cnt
vars == <<l, bad, cnt>>
Init == l = 1 /\ bad = {} /\ cnt = [judged |-> 0, not_injected |-> 0, unbound |-> 0, redefine |-> 0, cycle |-> 0, assign |-> 0]
Next ==
  /\ l <= Len(Rec) /\ l' = l + 1
  /\ LET e == Rec[l]
         ill == IllScoped(e.ast, e.strict)
         twinill == IllScoped(e.twin, e.strict)
         judged == ill /\ ~twinill
         \* C10: the defective program is rejected (terminating, no crash) with an error naming the culprit,
         \*      the program with the defect removed compiles
         why == (IF e.defective = "compiled" THEN {"ill-scoped-program-accepted"} ELSE {})
                \cup (IF e.defective \in {"timeout", "crash"} THEN {"compiler-did-not-terminate-normally"} ELSE {})
                \cup (IF e.defective = "rejected" /\ ~e.names_identifier THEN {"error-does-not-name-the-culprit"} ELSE {})
                \cup (IF e.twin_outcome # "compiled" THEN {"repaired-twin-rejected"} ELSE {})
     IN /\ bad' = IF judged /\ why # {} THEN bad \cup {<<l, why>>} ELSE bad
        /\ cnt' = [cnt EXCEPT !.judged = @ + (IF judged THEN 1 ELSE 0), !.not_injected = @ + (IF judged THEN 0 ELSE 1),
                              !.unbound = @ + (IF judged /\ e.kind = "unbound" THEN 1 ELSE 0),
                              !.redefine = @ + (IF judged /\ e.kind = "redefine" THEN 1 ELSE 0),
                              !.cycle = @ + (IF judged /\ e.kind = "inline-cycle" THEN 1 ELSE 0),
                              !.assign = @ + (IF judged /\ e.kind \in {"assign-cycle", "assign-dup"} THEN 1 ELSE 0)]
Spec == Init /\ [][Next]_vars
Finished == l > Len(Rec) => PrintT(<<"RESULT", ToJson([n |-> Len(Rec), bad |-> bad, cnt |-> cnt])>>)
=============================================================================
