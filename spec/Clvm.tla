------------------------------- MODULE Clvm -------------------------------
(* Big-step semantics of CLVM as the consensus evaluator (clvmr, Chia       *)
(* dialect, unknown operators rejected) defines it.  Exact for              *)
(*   q a i c f r l x = >s strlen substr concat logand logior logxor lognot  *)
(*   not any all and the ((X) ...) head form;                               *)
(* guarded (operands must be Small, else the outcome is Oom) for            *)
(*   + - * / divmod % > ash lsh;                                            *)
(* every other opcode of the Chia set is Oom, opcodes outside it are Err.   *)
EXTENDS ClvmValues

AllAtoms(a) == \A i \in 1..Len(a) : IsAtom(a[i])
AllSmall(a) == \A i \in 1..Len(a) : Small(BytesOf(a[i]))
RECURSIVE SumFrom(_, _)
SumFrom(a, i) == IF i > Len(a) THEN 0 ELSE SignedOf(BytesOf(a[i])) + SumFrom(a, i + 1)
RECURSIVE CatFrom(_, _)
CatFrom(a, i) == IF i > Len(a) THEN <<>> ELSE BytesOf(a[i]) \o CatFrom(a, i + 1)
RECURSIVE FoldBits(_, _, _, _)
FoldBits(op, a, i, acc) == IF i > Len(a) THEN acc ELSE FoldBits(op, a, i + 1, BitwiseBytes(op, acc, BytesOf(a[i])))
Bool(b) == IF b THEN One ELSE Nil

\* floor division for any signs (TLA+ \div is only specified for a positive divisor)
FloorDiv(x, y) == IF y > 0 THEN x \div y ELSE (-x) \div (-y)

\* opcodes of the Chia operator set that this module does not interpret
Uninterpreted == {11, 29, 30, 36, 48, 49, 50, 51, 52, 53, 54, 55, 56, 57, 58, 59, 60, 62}

ApplyOp(op, a) ==   \* op: a single opcode byte; a: sequence of evaluated arguments
  CASE op = 3  -> IF Len(a) # 3 THEN Err ELSE Ok(IF Truthy(a[1]) THEN a[2] ELSE a[3])
    [] op = 4  -> IF Len(a) # 2 THEN Err ELSE Ok(Cons(a[1], a[2]))
    [] op = 5  -> IF Len(a) # 1 \/ IsAtom(a[1]) THEN Err ELSE Ok(First(a[1]))
    [] op = 6  -> IF Len(a) # 1 \/ IsAtom(a[1]) THEN Err ELSE Ok(Rest(a[1]))
    [] op = 7  -> IF Len(a) # 1 THEN Err ELSE Ok(Bool(IsPair(a[1])))
    [] op = 8  -> Err
    [] op = 9  -> IF Len(a) # 2 \/ ~AllAtoms(a) THEN Err ELSE Ok(Bool(BytesOf(a[1]) = BytesOf(a[2])))
    [] op = 10 -> IF Len(a) # 2 \/ ~AllAtoms(a) THEN Err ELSE Ok(Bool(BytesGt(BytesOf(a[1]), BytesOf(a[2]))))
    [] op = 12 -> IF Len(a) \notin {2, 3} \/ ~AllAtoms(a) THEN Err
                  ELSE IF \E i \in 2..Len(a) : Len(BytesOf(a[i])) > 4 THEN Err
                  ELSE IF ~(\A i \in 2..Len(a) : Small(BytesOf(a[i]))) THEN Oom
                  ELSE LET s == BytesOf(a[1])
                           i1 == SignedOf(BytesOf(a[2]))
                           i2 == IF Len(a) = 3 THEN SignedOf(BytesOf(a[3])) ELSE Len(s)
                       IN IF i2 > Len(s) \/ i2 < 0 \/ i1 < 0 \/ i1 > i2 THEN Err
                          ELSE Ok(A(SubSeq(s, i1 + 1, i2)))
    [] op = 13 -> IF Len(a) # 1 \/ ~AllAtoms(a) THEN Err ELSE Ok(IntAtom(Len(BytesOf(a[1]))))
    [] op = 14 -> IF ~AllAtoms(a) THEN Err ELSE Ok(A(CatFrom(a, 1)))
    [] op = 16 -> IF ~AllAtoms(a) THEN Err ELSE IF ~AllSmall(a) \/ Len(a) > 8 THEN Oom
                  ELSE Ok(IntAtom(SumFrom(a, 1)))
    [] op = 17 -> IF ~AllAtoms(a) THEN Err ELSE IF ~AllSmall(a) \/ Len(a) > 8 THEN Oom
                  ELSE IF Len(a) = 0 THEN Ok(Nil)
                  ELSE Ok(IntAtom(SignedOf(BytesOf(a[1])) - SumFrom(a, 2)))
    [] op = 18 -> IF ~AllAtoms(a) THEN Err
                  ELSE IF Len(a) = 0 THEN Ok(One)
                  ELSE IF Len(a) = 1 THEN (IF Small(BytesOf(a[1])) THEN Ok(IntAtom(SignedOf(BytesOf(a[1])))) ELSE Oom)
                  ELSE IF Len(a) = 2 /\ Len(BytesOf(a[1])) + Len(BytesOf(a[2])) <= 3
                       THEN Ok(IntAtom(SignedOf(BytesOf(a[1])) * SignedOf(BytesOf(a[2]))))
                  ELSE IF Len(a) = 3 /\ \A i \in 1..3 : Len(BytesOf(a[i])) <= 1
                       THEN Ok(IntAtom(SignedOf(BytesOf(a[1])) * SignedOf(BytesOf(a[2])) * SignedOf(BytesOf(a[3]))))
                  ELSE Oom
    [] op \in {19, 20, 61} ->
                  IF Len(a) # 2 \/ ~AllAtoms(a) THEN Err ELSE IF ~AllSmall(a) THEN Oom
                  ELSE LET x == SignedOf(BytesOf(a[1])) y == SignedOf(BytesOf(a[2])) IN
                       IF y = 0 THEN Err
                       ELSE LET q == FloorDiv(x, y) r == x - q * y IN
                            IF op = 19 THEN Ok(IntAtom(q))
                            ELSE IF op = 20 THEN Ok(Cons(IntAtom(q), IntAtom(r)))
                            ELSE Ok(IntAtom(r))
    [] op = 21 -> IF Len(a) # 2 \/ ~AllAtoms(a) THEN Err ELSE IF ~AllSmall(a) THEN Oom
                  ELSE Ok(Bool(SignedOf(BytesOf(a[1])) > SignedOf(BytesOf(a[2]))))
    [] op \in {22, 23} ->
                  IF Len(a) # 2 \/ ~AllAtoms(a) THEN Err
                  ELSE IF Len(BytesOf(a[2])) > 4 THEN Err
                  ELSE IF Len(BytesOf(a[1])) > 2 \/ Len(BytesOf(a[2])) > 1 THEN Oom
                  ELSE LET s == SignedOf(BytesOf(a[2]))
                           sv == IF op = 22 THEN SignedOf(BytesOf(a[1])) ELSE UnsignedOf(BytesOf(a[1]))
                       IN IF s > 8 \/ s < -24 THEN Oom
                          ELSE IF s >= 0 THEN Ok(IntAtom(sv * Pow2(s)))
                          ELSE Ok(IntAtom(sv \div Pow2(-s)))
    [] op = 24 -> IF ~AllAtoms(a) THEN Err ELSE Ok(A(FoldBits("and", a, 1, <<255>>)))
    [] op = 25 -> IF ~AllAtoms(a) THEN Err ELSE Ok(A(FoldBits("or", a, 1, <<>>)))
    [] op = 26 -> IF ~AllAtoms(a) THEN Err ELSE Ok(A(FoldBits("xor", a, 1, <<>>)))
    [] op = 27 -> IF Len(a) # 1 \/ ~AllAtoms(a) THEN Err ELSE Ok(A(NotBytes(BytesOf(a[1]))))
    [] op = 32 -> IF Len(a) # 1 THEN Err ELSE Ok(Bool(~Truthy(a[1])))
    [] op = 33 -> Ok(Bool(\E i \in 1..Len(a) : Truthy(a[i])))
    [] op = 34 -> Ok(Bool(\A i \in 1..Len(a) : Truthy(a[i])))
    [] op \in Uninterpreted -> Oom
    [] OTHER -> Err

RECURSIVE Eval(_, _, _), EvalArgs(_, _, _), Apply(_, _, _)

EvalArgs(args, env, fuel) ==
  IF IsAtom(args) THEN (IF BytesOf(args) = <<>> THEN Ok(<<>>) ELSE Err)
  ELSE LET t == EvalArgs(Rest(args), env, fuel) IN       \* clvmr evaluates the last operand first
       IF t[1] # "ok" THEN t ELSE
       LET h == Eval(First(args), env, fuel) IN
       IF h[1] # "ok" THEN h ELSE Ok(<<h[2]>> \o t[2])

\* operator atom applied to an already evaluated (or, in the ((X) ...) form, raw) operand sequence
Apply(opbytes, a, fuel) ==
  IF opbytes = <<2>> THEN (IF Len(a) # 2 THEN Err ELSE Eval(a[1], a[2], fuel - 1))
  ELSE IF Len(opbytes) = 4 THEN Oom                 \* the secp opcodes
  ELSE IF Len(opbytes) # 1 THEN Err
  ELSE ApplyOp(opbytes[1], a)

Eval(x, env, fuel) ==
  IF fuel <= 0 THEN OutOfFuel ELSE
  IF IsAtom(x) THEN Lookup(BytesOf(x), env)
  ELSE
     LET h == First(x) IN
     IF IsPair(h) THEN
        \* ((X) a1 a2 ...): X applied to the operands as written.  clvmr counts list
        \* elements without looking at the terminator, so (X . junk) and improper operand
        \* lists are accepted
        IF IsPair(Rest(h)) \/ IsPair(First(h)) THEN Err
        ELSE Apply(BytesOf(First(h)), ListItems(Rest(x)), fuel)
     ELSE IF BytesOf(h) = <<1>> THEN Ok(Rest(x))
     ELSE LET as == EvalArgs(Rest(x), env, fuel) IN
          IF as[1] # "ok" THEN as ELSE Apply(BytesOf(h), as[2], fuel)
=============================================================================
