SPECIFICATION Spec
CONSTANTS Writers = {1, 2, 3}
 NChunks = 2
 InitKind = "readonly"
 InPlace = FALSE
INVARIANTS TargetIntact ReaderSeesComplete SameContentSucceeds OkMeansWritten
CHECK_DEADLOCK FALSE
