SPECIFICATION Spec
CONSTANTS Depth = 2
 Rule = "rebind"
INVARIANTS Agrees AllComsWellScoped
CHECK_DEADLOCK FALSE
