SPECIFICATION Spec
CONSTANTS MaxLen = 5
 Profile = "stepper"
 EnvSet = "clean"
CHECK_DEADLOCK FALSE
