---------------------------- MODULE MC_CldbGen ----------------------------
(* The term generator of MC_ClvmGen with the debugger's row assembler (Cldb) *)
(* asserted on every emitted vector (C12 on the model): the final row is the *)
(* big-step result, and every row that pairs an operator other than apply /  *)
(* if with a value is true of the semantics (apply / if rows are the known    *)
(* deviation C12-K1).                                                         *)
EXTENDS MC_ClvmGen, Cldb
CldbCheck(t, e) == FinalOk(t, e) /\ OnlyApplyRowsFalse(t, e)
=============================================================================
