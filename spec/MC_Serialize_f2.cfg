SPECIFICATION Spec
CONSTANTS MaxLen = 2
 AlphabetKind = "full"
INVARIANTS MachineConsistent Bounded
CHECK_DEADLOCK FALSE
