SPECIFICATION Spec
CONSTANTS MaxLen = 4
 AlphabetKind = "boundary"
INVARIANTS MachineConsistent Bounded
CHECK_DEADLOCK FALSE
