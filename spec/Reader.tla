------------------------------- MODULE Reader -------------------------------
(* The s-expression reader of compiler/sexp.rs as the state machine it is:  *)
(* parse_sexp_step, one transition per input byte, with the nested parse     *)
(* state, the cursor (Srcloc::advance) and the location arithmetic           *)
(* (Srcloc::ext / combine_src_location) transcribed.                          *)
(* Locations: <<file, line, col, uline, ucol>> with uline = 0 for "no until". *)
(* Forms:  <<"nil", loc>> | <<"cons", loc, a, b>> | <<"leaf", loc, kind>>     *)
(* States: <<"Empty">> <<"Comment">> <<"Bare", loc, bytes>>                   *)
(*         <<"Quoted", loc, q, n>> <<"QEsc", loc, q, n>> <<"Open", loc, s>>   *)
(*         <<"PList", loc, inner, items, s>> <<"TList", loc, tail, inner, items>> *)
(*         <<"SStart", loc>>                                                  *)
EXTENDS Integers, Sequences, TLC

IsWsR(b) == b \in {32, 10, 13, 9, 11, 12}       \* char::is_whitespace on ASCII
Loc0 == <<"in", 1, 1, 0, 0>>
Advance(loc, ch) == IF ch = 10 THEN <<loc[1], loc[2] + 1, 1, loc[4], loc[5]>>
                    ELSE <<loc[1], loc[2], loc[3] + 1, loc[4], loc[5]>>          \* tab free texts
MaxOf(a) == IF a[4] = 0 THEN <<a[2], a[3] + 1>> ELSE <<a[4], a[5]>>
AddOnto(x, y) == <<x[1], x[2], x[3], MaxOf(y)[1], MaxOf(y)[2]>>
Ext(a, b) == IF a[1] # b[1] THEN a
             ELSE IF a[2] < b[2] THEN AddOnto(a, b)
             ELSE IF a[2] = b[2] THEN (IF a[3] < b[3] THEN AddOnto(a, b) ELSE IF a[3] = b[3] THEN a ELSE AddOnto(b, a))
             ELSE AddOnto(b, a)

LocOf(f) == f[2]
MakeCons(a, b) == <<"cons", Ext(LocOf(a), LocOf(b)), a, b>>
RECURSIVE EnlistFrom(_, _, _)
EnlistFrom(items, k, acc) == IF k = 0 THEN acc ELSE EnlistFrom(items, k - 1, MakeCons(items[k], acc))
Enlist(l, items) == EnlistFrom(items, Len(items), <<"nil", l>>)
\* improper list: items ++ tail
ImproperFrom(items, tail) == EnlistFrom(SubSeq(items, 1, Len(items) - 1), Len(items) - 1, MakeCons(items[Len(items)], tail))

IsDigitR(c) == c >= 48 /\ c <= 57
IsDecR(w) == w # <<45>> /\ (\A i \in 1..Len(w) : IsDigitR(w[i]) \/ (i = 1 /\ w[i] = 45))
IsHexR(w) == Len(w) >= 2 /\ w[1] = 48 /\ w[2] = 120
AllZero(w) == \A i \in 1..Len(w) : w[i] \in {48, 45}
\* make_atom: the kind of leaf a bareword becomes ("#name" keeps the token's own location)
MakeAtom(l, w) ==
  LET v == IF Len(w) > 1 /\ w[1] = 35 THEN Tail(w) ELSE w
      strip == Len(w) > 1 /\ w[1] = 35 IN
  IF strip THEN <<"leaf", l, IF v \in {<<97>>, <<120>>, <<45>>} THEN "int" ELSE "sym">>   \* #a #x #- name operators (numbers)
  ELSE IF IsHexR(v) THEN <<"leaf", l, "str">>
  ELSE IF IsDecR(v) THEN (IF AllZero(v) THEN <<"nil", l>> ELSE <<"leaf", l, "int">>)
  ELSE <<"leaf", l, "sym">>

\* #( ... ): balanced tree over the items (restructure_list)
RECURSIVE Restructure(_, _)
Restructure(items, sl) ==
  IF Len(items) = 1 THEN items[1]
  ELSE IF items = <<>> THEN <<"nil", sl>>
  ELSE LET mid == Len(items) \div 2 IN
       MakeCons(Restructure(SubSeq(items, 1, mid), sl), Restructure(SubSeq(items, mid + 1, Len(items)), sl))

Resume(s) == <<"resume", s>>
Emit(o, s) == <<"emit", o, s>>
Error(l) == <<"error", l>>

RECURSIVE Step(_, _, _)
Step(loc, st, ch) ==
  CASE st[1] = "Empty" ->
         (IF ch = 40 THEN Resume(<<"Open", loc, FALSE>>)
          ELSE IF ch = 10 THEN Resume(<<"Empty">>)
          ELSE IF ch = 59 THEN Resume(<<"Comment">>)
          ELSE IF ch = 41 THEN Error(loc)
          ELSE IF ch \in {34, 39} THEN Resume(<<"Quoted", loc, ch, 0>>)
          ELSE IF ch = 35 THEN Resume(<<"SStart", loc>>)
          ELSE IF IsWsR(ch) THEN Resume(<<"Empty">>)
          ELSE Resume(<<"Bare", loc, <<ch>>>>))
    [] st[1] = "Comment" -> (IF ch = 10 THEN Resume(<<"Empty">>) ELSE Resume(<<"Comment">>))
    [] st[1] = "Bare" ->
         (IF IsWsR(ch) THEN Emit(MakeAtom(st[2], st[3]), <<"Empty">>)
          ELSE Resume(<<"Bare", Ext(st[2], loc), Append(st[3], ch)>>))
    [] st[1] = "Quoted" ->
         (IF ch = 92 THEN Resume(<<"QEsc", st[2], st[3], st[4]>>)
          ELSE IF ch = st[3] THEN Emit(<<"leaf", Ext(st[2], loc), "str">>, <<"Empty">>)
          ELSE Resume(<<"Quoted", st[2], st[3], st[4] + 1>>))
    [] st[1] = "QEsc" -> Resume(<<"Quoted", st[2], st[3], st[4] + 1>>)
    [] st[1] = "Open" ->
         (IF ch = 41 THEN Emit(<<"nil", Ext(st[2], loc)>>, <<"Empty">>)
          ELSE IF ch = 46 THEN Error(loc)
          ELSE LET r == Step(loc, <<"Empty">>, ch) IN
               IF r[1] = "emit" THEN Resume(<<"PList", Ext(st[2], loc), r[3], <<r[2]>>, st[3]>>)
               ELSE IF r[1] = "resume" THEN Resume(<<"PList", Ext(st[2], loc), r[2], <<>>, st[3]>>)
               ELSE r)
    [] st[1] = "PList" ->
         LET sl == st[2] pp == st[3] items == st[4] structured == st[5] IN
         (IF ch = 46 /\ pp = <<"Empty">> THEN (IF structured THEN Error(loc) ELSE Resume(<<"TList", Ext(sl, loc), <<>>, <<"Empty">>, items>>))
          ELSE IF ch = 41 /\ pp = <<"Empty">> THEN Emit(IF structured THEN Restructure(items, sl) ELSE Enlist(sl, items), <<"Empty">>)
          ELSE IF ch = 41 /\ pp[1] = "Bare" THEN
               LET upd == Append(items, MakeAtom(pp[2], pp[3])) IN
               Emit(IF structured THEN Restructure(upd, sl) ELSE Enlist(sl, upd), <<"Empty">>)
          ELSE LET r == Step(loc, pp, ch) IN
               IF r[1] = "emit" THEN Resume(<<"PList", Ext(sl, loc), r[3], Append(items, r[2]), structured>>)
               ELSE IF r[1] = "resume" THEN Resume(<<"PList", Ext(sl, loc), r[2], items, structured>>)
               ELSE r)
    [] st[1] = "TList" /\ st[3] # <<>> ->       \* the tail has been parsed
         LET sl == st[2] parsed == st[3][1] pp == st[4] items == st[5] IN
         (IF ch = 41 /\ pp = <<"Empty">> THEN (IF items = <<>> THEN Error(loc) ELSE Emit(ImproperFrom(items, parsed), <<"Empty">>))
          ELSE LET r == Step(loc, pp, ch) IN
               IF r[1] = "emit" THEN Error(loc)
               ELSE IF r[1] = "resume" THEN (IF r[2][1] \in {"Empty", "Comment"} THEN Resume(<<"TList", Ext(sl, loc), st[3], r[2], items>>) ELSE Error(loc))
               ELSE r)
    [] st[1] = "TList" /\ st[3] = <<>> ->
         LET sl == st[2] pp == st[4] items == st[5] IN
         (IF ch = 46 /\ pp = <<"Empty">> THEN Error(loc)
          ELSE IF ch = 41 /\ pp = <<"Empty">> THEN Emit(IF Len(items) = 1 THEN items[1] ELSE Enlist(Ext(sl, loc), items), <<"Empty">>)
          ELSE IF ch = 41 /\ pp[1] = "Bare" THEN (IF items = <<>> THEN Error(loc) ELSE Emit(ImproperFrom(items, MakeAtom(pp[2], pp[3])), <<"Empty">>))
          ELSE LET r == Step(loc, pp, ch) IN
               IF r[1] = "emit" THEN Resume(<<"TList", loc, <<r[2]>>, <<"Empty">>, items>>)
               ELSE IF r[1] = "resume" THEN Resume(<<"TList", Ext(sl, loc), <<>>, r[2], items>>)
               ELSE r)
    [] st[1] = "SStart" ->
         (IF ch = 40 THEN Resume(<<"PList", Ext(st[2], loc), <<"Empty">>, <<>>, TRUE>>)
          ELSE Step(loc, <<"Bare", st[2], <<35>>>>, ch))

\* the whole machine: ParsePartialResult.push over the text, then finalize
\* m = [st, cur, out, err]
Push(m, ch) ==
  LET r == Step(m.cur, m.st, ch) nxt == Advance(m.cur, ch) IN
  IF r[1] = "error" THEN [m EXCEPT !.err = <<r[2]>>]
  ELSE IF r[1] = "resume" THEN [m EXCEPT !.st = r[2], !.cur = nxt]
  ELSE [m EXCEPT !.st = r[3], !.cur = nxt, !.out = Append(@, r[2])]
Start == [st |-> <<"Empty">>, cur |-> Loc0, out |-> <<>>, err |-> <<>>]
Finalize(m) ==
  IF m.err # <<>> THEN [ok |-> FALSE, loc |-> m.err[1]]
  ELSE CASE m.st[1] \in {"Empty", "Comment"} -> [ok |-> TRUE, forms |-> m.out]
         [] m.st[1] = "Bare" -> [ok |-> TRUE, forms |-> <<MakeAtom(m.st[2], m.st[3])>>]     \* (earlier top-level forms are dropped)
         [] OTHER -> [ok |-> FALSE, loc |-> m.st[2]]
=============================================================================
