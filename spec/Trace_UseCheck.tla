---------------------------- MODULE Trace_UseCheck ----------------------------
(* Trace validation for C17.  One record per program: its AST, the names of   *)
(* its parameters, and for every parameter the checker reported as unused a    *)
(* list of pairs of argument valuations differing only in that parameter       *)
(* (base valuation + alternative value) with the outcomes of the compiled      *)
(* program (per build: outcomes in order base1, alt1, base2, alt2, ...).        *)
(* P: the two outcomes of each pair are the same (same value, or both fail).    *)
(* The specification also looks for a witness of its own with                   *)
(* Chialisp!RunProgram on the same pairs (source-level influence).              *)
EXTENDS Chialisp, Json, IOUtils, TLC, FiniteSets
Rec == ndJsonDeserialize(IOEnv.TRACE)
Class(o) == IF o[1] = "ok" THEN o ELSE <<"fail">>

RECURSIVE BuildArgs(_, _)
BuildArgs(pat, val) ==
  CASE pat[1] = "pn" -> Nil
    [] pat[1] = "pv" -> val[pat[2]]
    [] pat[1] = "pat" -> BuildArgs(pat[3], val)
    [] pat[1] = "pc" -> Cons(BuildArgs(pat[2], val), BuildArgs(pat[3], val))
ValOf(base) == [n \in {base[i][1] : i \in 1..Len(base)} |-> base[CHOOSE i \in 1..Len(base) : base[i][1] = n][2]]

VARIABLES l, bad, badsrc, cnt
vars == <<l, bad, badsrc, cnt>>
Init == l = 1 /\ bad = {} /\ badsrc = {} /\ cnt = [programs |-> 0, reported |-> 0, pairs |-> 0, src_pairs |-> 0]
Next ==
  /\ l <= Len(Rec) /\ l' = l + 1
  /\ LET e == Rec[l]
         R == 1..Len(e.reported)
         \* observed non-interference, per build
         BadObs == {<<l, r, b, k>> : r \in R, b \in {"cl21", "cl23"}, k \in 1..8} 
         B1 == {x \in BadObs : LET rr == e.reported[x[2]] o == rr.obs[x[3]] IN
                  x[4] <= Len(rr.pairs) /\ Len(o) >= 2 * x[4] /\ Class(o[2 * x[4] - 1]) # Class(o[2 * x[4]])}
         \* source-level influence on the same pairs (oom / fuel outcomes are not judged)
         SrcPairs == {<<l, r, k>> : r \in R, k \in 1..8}
         Judged(x) == LET rr == e.reported[x[2]] IN x[3] <= Len(rr.pairs)
         S(x, alt) == LET rr == e.reported[x[2]] pr == rr.pairs[x[3]] v == ValOf(pr.base) IN
                      RunProgram(e.ast, BuildArgs(e.ast.args, IF alt THEN [v EXCEPT ![rr.param] = pr.alt] ELSE v), 60)
         JP == {x \in SrcPairs : Judged(x)}
         SF == [x \in JP |-> <<S(x, FALSE), S(x, TRUE)>>]
         B2 == {x \in JP : SF[x][1][1] \in {"ok", "err"} /\ SF[x][2][1] \in {"ok", "err"} /\ Class(SF[x][1]) # Class(SF[x][2])}
     IN /\ bad' = bad \cup B1
        /\ badsrc' = badsrc \cup B2
        /\ cnt' = [cnt EXCEPT !.programs = @ + 1, !.reported = @ + Len(e.reported),
                              !.pairs = @ + Cardinality({x \in BadObs : x[4] <= Len(e.reported[x[2]].pairs) /\ Len(e.reported[x[2]].obs[x[3]]) >= 2 * x[4]}),
                              !.src_pairs = @ + Cardinality({x \in SrcPairs : Judged(x)})]
Spec == Init /\ [][Next]_vars
Finished == l > Len(Rec) => PrintT(<<"RESULT", ToJson([n |-> Len(Rec), bad |-> bad, badsrc |-> badsrc, cnt |-> cnt])>>)
=============================================================================
