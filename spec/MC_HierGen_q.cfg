SPECIFICATION Spec
CONSTANTS MaxLen = 5
 Profile = "hier"
 EnvSet = "hier"
 ExtraCheck <- HierCheck
CHECK_DEADLOCK FALSE
