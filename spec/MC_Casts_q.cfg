SPECIFICATION Spec
CONSTANTS CastVariant = "faithful"
CHECK_DEADLOCK FALSE
