SPECIFICATION Spec
CONSTANTS MaxLen = 3
 ShapeSet = {0, 2, 9, 13}
CHECK_DEADLOCK FALSE
