-------------------------- MODULE Trace_EntryPoints --------------------------
(* Trace validation for C11.  One record per (program, search path):          *)
(* the bytes each entry point emitted (as an id by content, 0 = did not        *)
(* compile), the options the CLI/debugger copy derived with and without -O,    *)
(* the program's stepping (0 = classic).                                       *)
EXTENDS EntryPoints, Sequences, FiniteSets, Json, IOUtils
Rec == ndJsonDeserialize(IOEnv.TRACE)
VARIABLES l, bad, drift, cnt
vars == <<l, bad, drift, cnt>>
TInit == l = 1 /\ bad = {} /\ drift = {} /\ cnt = [programs |-> 0, modern |-> 0, compiled |-> 0]
TNext ==
  /\ l <= Len(Rec) /\ l' = l + 1
  /\ LET e == Rec[l]
         modern == e.stepping > 0
         \* C11: library = command line with -O (every dialect incl. classic; text and --dump forms);
         \*      debugger = command line with equal flags (programs that declare a dialect)
         p1 == e.lib = e.cli_o /\ e.cli_o = e.cli_o_dump
         p2 == modern => (e.dbg = e.cli /\ e.dbg_o = e.cli_o)
         d == modern /\ e.stepping \in Steppings /\
              (e.opts # Derive("Cli", e.stepping, FALSE) \/ e.opts_o # Derive("Cli", e.stepping, TRUE))
     IN /\ bad' = IF p1 /\ p2 THEN bad ELSE bad \cup {l}
        /\ drift' = IF d THEN drift \cup {l} ELSE drift
        /\ cnt' = [cnt EXCEPT !.programs = @ + 1, !.modern = @ + (IF modern THEN 1 ELSE 0),
                              !.compiled = @ + (IF e.lib # 0 THEN 1 ELSE 0)]
        /\ UNCHANGED x
TSpec == TInit /\ x = 0 /\ [][TNext]_<<vars, x>>
Finished == l > Len(Rec) => PrintT(<<"RESULT", ToJson([n |-> Len(Rec), bad |-> bad, drift |-> drift, cnt |-> cnt])>>)
=============================================================================
