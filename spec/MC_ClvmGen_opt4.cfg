SPECIFICATION Spec
CONSTANTS MaxLen = 4
 Profile = "opt"
 EnvSet = "clean"
CHECK_DEADLOCK FALSE
