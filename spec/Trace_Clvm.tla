----------------------------- MODULE Trace_Clvm -----------------------------
(* Trace validation for C04 and C06: each record is one run of the real code *)
(*   [prog, env, cons (clvmr), step (compiler::clvm::run), opt (optimize_sexp *)
(*    output and clvmr's result on it)].                                      *)
(* TLC evaluates the properties on the observed values, cross-checks its own  *)
(* semantics against clvmr (specerr) and compares the stepper model with the  *)
(* observed stepper (drift).  Tolerant style: everything is accumulated and    *)
(* printed at the end.                                                          *)
EXTENDS ClvmStepper, Json, IOUtils, TLC, FiniteSets
Rec == ndJsonDeserialize(IOEnv.TRACE)
VARIABLES l, bad04, bad06, specerr, drift, cnt
vars == <<l, bad04, bad06, specerr, drift, cnt>>

Class(o) == IF o[1] = "ok" THEN o ELSE <<o[1]>>
Decided(o) == o[1] \in {"ok", "err"}

Init == l = 1 /\ bad04 = {} /\ bad06 = {} /\ specerr = {} /\ drift = {}
        /\ cnt = [model_compared |-> 0, c04_antecedent |-> 0, c06_compared |-> 0, oom |-> 0]

Next ==
  /\ l <= Len(Rec) /\ l' = l + 1
  /\ LET e == Rec[l]
         m == Eval(e.prog, e.env, 30)
         ms == StepperOutcome(e.prog, e.env, "int")
         cons == e.cons
         hasopt == e.opt[1] = "out"
         mo == IF hasopt THEN Eval(e.opt[2], e.env, 30) ELSE Err
     IN
     \* the TLA+ semantics against the consensus evaluator
     /\ specerr' = specerr
           \cup (IF Decided(m) /\ Decided(cons) /\ Class(m) # Class(cons) THEN {<<l, "prog">>} ELSE {})
           \cup (IF hasopt /\ Decided(mo) /\ Decided(e.opt[3]) /\ Class(mo) # Class(e.opt[3]) THEN {<<l, "opt">>} ELSE {})
     \* C06 on observed values: finishes with v exactly when the consensus evaluator returns v, fails exactly when it fails
     /\ bad06' = IF Decided(cons) /\ Decided(e.step) /\ Class(e.step) # Class(cons) THEN bad06 \cup {l}
                 ELSE IF e.step[1] \in {"panic", "abort"} THEN bad06 \cup {l} ELSE bad06
     \* C04 on observed values: R returns v => optimiser accepts R and its output returns v
     /\ bad04' = IF cons[1] = "ok" /\ (~hasopt \/ e.opt[3] # cons) THEN bad04 \cup {l} ELSE bad04
     \* model of the stepper against the observed stepper
     /\ drift' = IF Decided(ms) /\ Decided(e.step) /\ Class(ms) # Class(e.step) THEN drift \cup {l} ELSE drift
     /\ cnt' = [cnt EXCEPT !.model_compared = @ + (IF Decided(m) /\ Decided(cons) THEN 1 ELSE 0),
                           !.c04_antecedent = @ + (IF cons[1] = "ok" THEN 1 ELSE 0),
                           !.c06_compared = @ + (IF Decided(cons) /\ Decided(e.step) THEN 1 ELSE 0),
                           !.oom = @ + (IF m[1] = "oom" THEN 1 ELSE 0)]
Spec == Init /\ [][Next]_vars
Finished == l > Len(Rec) =>
   PrintT(<<"RESULT", ToJson([n |-> Len(Rec), bad04 |-> bad04, bad06 |-> bad06, specerr |-> specerr,
                               drift |-> drift, cnt |-> cnt])>>)
=============================================================================
