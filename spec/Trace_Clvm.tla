----------------------------- MODULE Trace_Clvm -----------------------------
(* Trace validation for C04 and C06: each record is one run of the real code *)
(*   [prog, env, cons (clvmr), step (compiler::clvm::run), opt (optimize_sexp *)
(*    output and clvmr's result on it)].                                      *)
(* TLC evaluates the properties on the observed values, cross-checks its own  *)
(* semantics against clvmr (specerr) and compares the stepper model with the  *)
(* observed stepper (drift).  Tolerant style: everything is accumulated and    *)
(* printed at the end.                                                          *)
EXTENDS ClvmStepper, Json, IOUtils, TLC, FiniteSets
Rec == ndJsonDeserialize(IOEnv.TRACE)
VARIABLES l, bad04, bad06, specerr, drift, explained, badrule, cnt
vars == <<l, bad04, bad06, specerr, drift, explained, badrule, cnt>>

Class(o) == IF o[1] = "ok" THEN o ELSE <<o[1]>>
Decided(o) == o[1] \in {"ok", "err"}

\* ---- rule level: path composition (stage_2 path_optimizer / node_path compose_paths) ----
\* a pure first/rest chain over a non-zero path atom denotes one path: the steps of the atom followed by one step per
\* operator, innermost first.  When the optimiser answers such a term with an atom, the atom must denote those steps
\* (otherwise the tree built along the original steps tells the two apart).
RECURSIVE IsChain(_), ChainSteps(_)
IsChain(p) == IF IsAtom(p) THEN ~IsZeroPath(BytesOf(p))
              ELSE /\ IsAtom(First(p)) /\ BytesOf(First(p)) \in {<<5>>, <<6>>}
                   /\ IsPair(Rest(p)) /\ Rest(Rest(p)) = Nil /\ IsChain(First(Rest(p)))
ChainSteps(p) == IF IsAtom(p) THEN PathBits(BytesOf(p))
                 ELSE ChainSteps(First(Rest(p))) \o <<IF BytesOf(First(p)) = <<5>> THEN 0 ELSE 1>>

Init == l = 1 /\ bad04 = {} /\ bad06 = {} /\ specerr = {} /\ drift = {} /\ explained = {} /\ badrule = {}
        /\ cnt = [model_compared |-> 0, c04_antecedent |-> 0, c06_compared |-> 0, oom |-> 0, chains |-> 0]

Next ==
  /\ l <= Len(Rec) /\ l' = l + 1
  /\ LET e == Rec[l]
         m == Eval(e.prog, e.env, 30)
         ms == StepperOutcome(e.prog, e.env, "int")
         cons == e.cons
         hasopt == e.opt[1] = "out"
         mo == IF hasopt THEN Eval(e.opt[2], e.env, 30) ELSE Err
     IN
     \* the TLA+ semantics against the consensus evaluator
     /\ specerr' = specerr
           \cup (IF Decided(m) /\ Decided(cons) /\ Class(m) # Class(cons) THEN {<<l, "prog">>} ELSE {})
           \cup (IF hasopt /\ Decided(mo) /\ Decided(e.opt[3]) /\ Class(mo) # Class(e.opt[3]) THEN {<<l, "opt">>} ELSE {})
     \* C06 on observed values: finishes with v exactly when the consensus evaluator returns v, fails exactly when it fails
     /\ bad06' = IF Decided(cons) /\ Decided(e.step) /\ Class(e.step) # Class(cons) THEN bad06 \cup {l}
                 ELSE IF e.step[1] \in {"panic", "abort"} THEN bad06 \cup {l} ELSE bad06
     \* C04 on observed values: R returns v => optimiser accepts R and its output returns v
     /\ bad04' = IF cons[1] = "ok" /\ (~hasopt \/ e.opt[3] # cons) THEN bad04 \cup {l} ELSE bad04
     \* model of the stepper against the observed stepper
     /\ drift' = IF Decided(ms) /\ Decided(e.step) /\ Class(ms) # Class(e.step) THEN drift \cup {l} ELSE drift
     \* a C06 disagreement that the stepper machine of the specification (with its documented head-form deviation) predicts exactly
     /\ explained' = IF Decided(ms) /\ Decided(e.step) /\ Class(ms) = Class(e.step) /\ Decided(cons) /\ Class(e.step) # Class(cons)
                      THEN explained \cup {l} ELSE explained
     /\ badrule' = IF hasopt /\ IsPair(e.prog) /\ IsChain(e.prog) /\ IsAtom(e.opt[2]) /\ ~IsZeroPath(BytesOf(e.opt[2]))
                       /\ PathBits(BytesOf(e.opt[2])) # ChainSteps(e.prog) THEN badrule \cup {l} ELSE badrule
     /\ cnt' = [cnt EXCEPT !.model_compared = @ + (IF Decided(m) /\ Decided(cons) THEN 1 ELSE 0),
                           !.c04_antecedent = @ + (IF cons[1] = "ok" THEN 1 ELSE 0),
                           !.c06_compared = @ + (IF Decided(cons) /\ Decided(e.step) THEN 1 ELSE 0),
                           !.oom = @ + (IF m[1] = "oom" THEN 1 ELSE 0),
                           !.chains = @ + (IF hasopt /\ IsPair(e.prog) /\ IsChain(e.prog) /\ IsAtom(e.opt[2]) THEN 1 ELSE 0)]
Spec == Init /\ [][Next]_vars
Finished == l > Len(Rec) =>
   PrintT(<<"RESULT", ToJson([n |-> Len(Rec), bad04 |-> bad04, bad06 |-> bad06, specerr |-> specerr,
                               drift |-> drift, explained |-> explained, badrule |-> badrule, cnt |-> cnt])>>)
=============================================================================
