---------------------------- MODULE Trace_Compile ----------------------------
(* Trace validation for C01 / C02 / C03.  One record per generated program:  *)
(*   ast   the program (Chialisp AST)                                         *)
(*   envs  the argument trees it was run on                                   *)
(*   obs   build name |-> sequence (one per env) of observed outcomes:        *)
(*         <<"ok", v>> / <<"err">> (compiled and ran with the consensus        *)
(*         evaluator), <<"comperr">>, <<"abort">>, <<"slow">>, <<"fuel">>      *)
(* TLC computes the source meaning with Chialisp!RunProgram and reports every *)
(* (record, env, build) where the source returns v and the build returned      *)
(* something else: that is C01/C03's statement on observed values.             *)
EXTENDS Chialisp, Json, IOUtils, TLC, FiniteSets
Rec == ndJsonDeserialize(IOEnv.TRACE)
VARIABLES l, bad, badpair, badopt, stats
vars == <<l, bad, badpair, badopt, stats>>
Init == l = 1 /\ bad = {} /\ badpair = {} /\ badopt = {}
        /\ stats = [ok |-> 0, err |-> 0, fuel |-> 0, oom |-> 0, compared |-> 0, staticfail |-> 0, pairs |-> 0, optpairs |-> 0]
\* dialect groups that share value semantics (C02): legacy integer mode / fixed integer mode
Group(b) == IF b \in {"cl231", "cl231+O", "cl24", "cl24+O"} THEN 2 ELSE IF b \in {"classic"} THEN 0 ELSE 1
Ord(b) == CASE b = "classic" -> 0 [] b = "cl21" -> 1 [] b = "cl21+O" -> 2 [] b = "s21" -> 3 [] b = "cl22" -> 4 [] b = "cl22+O" -> 5
            [] b = "cl23" -> 6 [] b = "cl23+O" -> 7 [] b = "cl231" -> 8 [] b = "cl231+O" -> 9 [] b = "cl24" -> 10 [] b = "cl24+O" -> 11
            [] b = "classic+O" -> 12 [] OTHER -> 13
\* builds of one dialect without / with optimisation
OptPairs(bs) == {<<b, c>> \in bs \X bs : c \in {"cl21+O", "cl22+O", "cl23+O", "cl231+O", "cl24+O"} /\
                  <<b, c>> \in {<<"cl21", "cl21+O">>, <<"cl22", "cl22+O">>, <<"cl23", "cl23+O">>, <<"cl231", "cl231+O">>, <<"cl24", "cl24+O">>}}
Ran(o) == o[1] \in {"ok", "err", "fuel"}
Next == /\ l <= Len(Rec)
        /\ LET e == Rec[l]
               S == [i \in 1..Len(e.envs) |-> RunProgram(e.ast, e.envs[i], 60)]
               OkIdx == {i \in 1..Len(e.envs) : S[i][1] = "ok"}
               B == {<<l, i, b>> : i \in OkIdx, b \in DOMAIN e.obs}
               BB == {<<x[1], x[2], x[3], S[x[2]]>> : x \in {y \in B : Ran(e.obs[y[3]][y[2]]) /\ e.obs[y[3]][y[2]] # S[y[2]]}}
               bs == DOMAIN e.obs
               \* C02 (a): two builds of one dialect group (or of any two when the program has no zero-leading literal)
               \* that both return a value return the same value
               PP == {<<l, i, b, c>> : i \in 1..Len(e.envs), b \in bs, c \in bs}
               BP == {x \in PP : Ord(x[3]) < Ord(x[4]) /\ (Group(x[3]) = Group(x[4]) \/ ~e.zero_leading)
                                  /\ e.obs[x[3]][x[2]][1] = "ok" /\ e.obs[x[4]][x[2]][1] = "ok"
                                  /\ e.obs[x[3]][x[2]] # e.obs[x[4]][x[2]]}
               \* C02 (c): switching optimisation on never makes a compiling, value-returning program fail to
               \* compile or to return (programs with statically failing subexpressions are exempt)
               sf == StaticFail(e.ast)
               OP == {<<l, i, p[1], p[2]>> : i \in 1..Len(e.envs), p \in OptPairs(bs)}
               BO == IF sf THEN {} ELSE {x \in OP : e.obs[x[3]][x[2]][1] = "ok" /\ e.obs[x[4]][x[2]][1] \in {"err", "comperr", "abort"}}
           IN /\ bad' = bad \cup BB
              /\ badpair' = badpair \cup BP
              /\ badopt' = badopt \cup BO
              /\ stats' = [stats EXCEPT !.ok = @ + Cardinality(OkIdx),
                                        !.err = @ + Cardinality({i \in 1..Len(e.envs) : S[i][1] = "err"}),
                                        !.fuel = @ + Cardinality({i \in 1..Len(e.envs) : S[i][1] = "fuel"}),
                                        !.oom = @ + Cardinality({i \in 1..Len(e.envs) : S[i][1] = "oom"}),
                                        !.compared = @ + Cardinality({x \in B : Ran(e.obs[x[3]][x[2]])}),
                                        !.staticfail = @ + (IF sf THEN 1 ELSE 0),
                                        !.pairs = @ + Cardinality({x \in PP : Ord(x[3]) < Ord(x[4]) /\ e.obs[x[3]][x[2]][1] = "ok" /\ e.obs[x[4]][x[2]][1] = "ok"}),
                                        !.optpairs = @ + Cardinality({x \in OP : e.obs[x[3]][x[2]][1] = "ok"})]
        /\ l' = l + 1
Spec == Init /\ [][Next]_vars
Finished == l > Len(Rec) => PrintT(<<"RESULT", ToJson([n |-> Len(Rec), bad |-> bad, badpair |-> badpair, badopt |-> badopt, stats |-> stats])>>)
=============================================================================
