SPECIFICATION Spec
CONSTANTS Writers = {1, 2}
 NChunks = 2
 InitKind = "readonly_same"
 InPlace = FALSE
INVARIANTS TargetIntact ReaderSeesComplete SameContentSucceeds OkMeansWritten
CHECK_DEADLOCK FALSE
