-------------------------------- MODULE Casts --------------------------------
(* classic/clvm/casts.rs int_from_bytes: the unsigned big-endian reading of  *)
(* up to 8 bytes, computed the way the code computes it: the input is cut    *)
(* into 4-byte words from the right, each word read big-endian (get_u32) and *)
(* weighted 2^(32 k), and the n mod 4 leading bytes are added above the      *)
(* words, byte by byte.  The only caller is atom_from_stream, which reads    *)
(* the 1..6 byte length prefix of an atom through it (C08).                  *)
(*                                                                           *)
(* TLC integers stop at 2^31, so the model works with the *exponent* (in     *)
(* bits) of the weight each input byte receives; the conversion is right     *)
(* iff byte i of n gets the exponent 8 (n - i), and then the value is the    *)
(* input itself read as a big-endian number (leading zero bytes dropped).    *)
(* Variant "restart" is the conversion whose byte loop starts again at       *)
(* weight 1 (refuted by TLC; non-vacuity of Positional).                     *)
EXTENDS Naturals, Sequences
CONSTANT CastVariant          \* "faithful" | "restart"
Rem(n) == n % 4
Words(n) == n \div 4
\* exponent of the weight of byte i (1-based) of an n-byte input
ExpOf(n, i) ==
  IF i <= Rem(n)
  THEN (IF CastVariant = "restart" THEN 0 ELSE 32 * Words(n)) + 8 * (Rem(n) - i)   \* `order` carries on above the words
  ELSE LET j == i - Rem(n) - 1 w == j \div 4 b == j % 4 IN 32 * (Words(n) - 1 - w) + 8 * (3 - b)
Positional(n) == \A i \in 1..n : ExpOf(n, i) = 8 * (n - i)
\* two bytes never share a weight (no information is folded together)
Injective(n) == \A i, j \in 1..n : i # j => ExpOf(n, i) # ExpOf(n, j)
\* the value as a byte string: byte i sits at exponent ExpOf(n, i); when the exponents are a permutation of
\* 0, 8, .., 8 (n - 1) the result is that permutation of the input (carries cannot occur)
ValueBytes(bs) == LET n == Len(bs) IN
                  [k \in 1..n |-> LET I == { i \in 1..n : ExpOf(n, i) = 8 * (n - k) } IN
                                  IF I = {} THEN 0 ELSE bs[CHOOSE i \in I : TRUE]]
=============================================================================
