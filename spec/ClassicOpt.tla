------------------------------ MODULE ClassicOpt ------------------------------
(* The CLVM-level optimiser of the classic tool chain, rule by rule            *)
(* (classic/clvm_tools/stages/stage_2/optimize.rs, optimize_sexp_).  A term is  *)
(* rewritten by the first of eight rules, tried in this order, that changes it; *)
(* this is repeated until no rule changes it:                                    *)
(*   cons        (f (c A B)) -> A,  (r (c A B)) -> B                            *)
(*   constant    a term that "seems constant" (no path atom outside quotes, no   *)
(*               x) and is not nil is run in the empty environment and replaced  *)
(*               by its quoted result; if it fails, the optimiser fails           *)
(*   cons_q_a    (a (q . S) 1) -> S                                             *)
(*   var_change  (a (q . S) ARGS): substitute ARGS for the paths of S (sub_args), *)
(*               optimise the operands; keep the result only if no operand is a  *)
(*               call any more                                                   *)
(*   children    optimise every element of a non-quoted proper list              *)
(*   path        (f P) / (r P), P an atom -> the composed path                   *)
(*   quote_null  (q) -> ()                                                      *)
(*   apply_null  (a () . REST) -> ()                                            *)
(* Opt(r, fuel) is <<"ok", r'>>, <<"err">> (the optimiser rejects the term) or  *)
(* <<"unk">> (the transcription ran out of fuel, or a compile-time evaluation    *)
(* left the modelled arithmetic).  C04 on the model: MC_ClassicOpt.              *)
(*                                                                              *)
(* Variant = "faithful" is the optimiser as it is.  The other values are three  *)
(* unsound optimisers (two of them are what the code did before b9fb1d6 /        *)
(* 8cba968 and what a seeded change did): TLC refutes each of them on the same   *)
(* enumeration, which is what shows that the assertion of MC_OptGen can fail.    *)
(*   "zero_path_is_args"  sub_args answers the zero path with the whole argument *)
(*                        expression: (a (q) ARGS) -> ARGS                        *)
(*   "compose_reversed"   (f P) / (r P) put the new step above the steps of P     *)
(*   "constant_in_env"    the constant rule also folds terms that read the        *)
(*                        environment                                             *)
EXTENDS Clvm
CONSTANT Variant

Unk == <<"unk">>
IsOp(v, b) == IsAtom(v) /\ BytesOf(v) = <<b>>
\* <<TRUE, items>> for a proper (nil-terminated) list, <<FALSE, <<>>>> otherwise
Proper(v) == IF ProperList(v) THEN <<TRUE, ListItems(v)>> ELSE <<FALSE, <<>>>>
Enlist(items) == ListVal(items, Nil)
NonNil(v) == v # Nil

RECURSIVE SeemsConstant(_), SeemsConstantTail(_)
SeemsConstantTail(v) == IF IsAtom(v) THEN v = Nil ELSE SeemsConstant(First(v)) /\ SeemsConstantTail(Rest(v))
SeemsConstant(v) ==
  IF IsAtom(v) THEN v = Nil
  ELSE LET op == First(v) IN
       IF IsAtom(op) THEN (IF IsOp(op, 1) THEN TRUE ELSE IF IsOp(op, 8) THEN FALSE ELSE SeemsConstantTail(Rest(v)))
       ELSE SeemsConstant(op) /\ SeemsConstantTail(Rest(v))

\* ---- patterns
\* (a (q . S) ARGS)
IsApplyQ(r) == /\ IsPair(r) /\ IsOp(First(r), 2) /\ IsPair(Rest(r)) /\ IsPair(First(Rest(r))) /\ IsOp(First(First(Rest(r))), 1)
               /\ IsPair(Rest(Rest(r))) /\ Rest(Rest(Rest(r))) = Nil
ApplyQBody(r) == Rest(First(Rest(r)))
ApplyQArgs(r) == First(Rest(Rest(r)))
\* (c F R)
IsCons3(v) == IsPair(v) /\ IsOp(First(v), 4) /\ IsPair(Rest(v)) /\ IsPair(Rest(Rest(v))) /\ Rest(Rest(Rest(v))) = Nil
\* (op X) with exactly one operand
IsUnary(v, b) == IsPair(v) /\ IsOp(First(v), b) /\ IsPair(Rest(v)) /\ Rest(Rest(v)) = Nil

ConsF(args) == IF IsCons3(args) THEN First(Rest(args)) ELSE Enlist(<<A(<<5>>), args>>)
ConsR(args) == IF IsCons3(args) THEN First(Rest(Rest(args))) ELSE Enlist(<<A(<<6>>), args>>)

\* ---- paths as step sequences (least significant bit first, below the top bit)
RECURSIVE StepsToBitsMsb(_)
StepsToBitsMsb(steps) == IF steps = <<>> THEN <<>> ELSE StepsToBitsMsb(Tail(steps)) \o <<steps[1]>>
BytesOfSteps(steps) ==
  LET bits == <<1>> \o StepsToBitsMsb(steps)
      n == Len(bits)
      pad == (8 - (n % 8)) % 8
      all == [i \in 1..pad |-> 0] \o bits
      nb == Len(all) \div 8
  IN [i \in 1..nb |-> all[8*(i-1)+1]*128 + all[8*(i-1)+2]*64 + all[8*(i-1)+3]*32 + all[8*(i-1)+4]*16
                      + all[8*(i-1)+5]*8 + all[8*(i-1)+6]*4 + all[8*(i-1)+7]*2 + all[8*(i-1)+8]]
\* path_from_args: the expression that takes the path bs out of the value of new_args
RECURSIVE WalkExpr(_, _, _)
WalkExpr(steps, i, acc) == IF i > Len(steps) THEN acc ELSE WalkExpr(steps, i + 1, IF steps[i] = 0 THEN ConsF(acc) ELSE ConsR(acc))
PathFromArgs(v, newargs) ==
  IF IsAtom(v) THEN (IF IsZeroPath(BytesOf(v)) THEN (IF Variant = "zero_path_is_args" THEN newargs ELSE Nil)
                     ELSE WalkExpr(PathBits(BytesOf(v)), 1, newargs))
  ELSE newargs
RECURSIVE SubArgs(_, _), SubArgsList(_, _)
SubArgsList(items, newargs) == IF items = <<>> THEN <<>> ELSE <<SubArgs(items[1], newargs)>> \o SubArgsList(Tail(items), newargs)
SubArgs(s, newargs) ==
  IF IsAtom(s) THEN PathFromArgs(s, newargs)
  ELSE LET fp == First(s) IN
       IF IsAtom(fp) /\ IsOp(fp, 1) THEN s
       \* ((X) A B ..) applies X to the operands as written: nothing to substitute (since the repair of the optimiser;
       \* before it the head was substituted into and the operands treated as code)
       ELSE IF IsPair(fp) THEN s
       ELSE LET f1 == fp
                pl == Proper(Rest(s))
            IN IF pl[1] THEN Cons(f1, Enlist(SubArgsList(pl[2], newargs))) ELSE PathFromArgs(s, newargs)

\* ---- the rules; each returns <<"ok", r'>> (r' = r: not applicable), <<"err">> or <<"unk">>
RuleCons(r) ==
  IF IsUnary(r, 5) /\ IsCons3(First(Rest(r))) THEN Ok(First(Rest(First(Rest(r)))))
  ELSE IF IsUnary(r, 6) /\ IsCons3(First(Rest(r))) THEN Ok(First(Rest(Rest(First(Rest(r))))))
  ELSE Ok(r)

RuleConstant(r) ==
  IF IsPair(r) /\ IsOp(First(r), 1) THEN Ok(r)
  ELSE IF (SeemsConstant(r) \/ (Variant = "constant_in_env" /\ IsPair(r) /\ ~IsOp(First(r), 8))) /\ NonNil(r)
       THEN LET v == Eval(r, Nil, 40) IN
            IF v[1] = "ok" THEN Ok(Cons(A(<<1>>), v[2])) ELSE IF v[1] = "err" THEN Err ELSE Unk
       ELSE Ok(r)

RuleConsQA(r) == IF IsApplyQ(r) /\ IsOp(ApplyQArgs(r), 1) THEN Ok(ApplyQBody(r)) ELSE Ok(r)

RulePath(r) ==
  IF IsUnary(r, 5) /\ IsAtom(First(Rest(r))) THEN
       LET p == BytesOf(First(Rest(r))) IN
       \* (the zero path composes to the plain step: compose_paths(0, 2) = 2)
       LET st == IF IsZeroPath(p) THEN <<>> ELSE PathBits(p) IN
       Ok(A(BytesOfSteps(IF Variant = "compose_reversed" THEN <<0>> \o st ELSE st \o <<0>>)))
  ELSE IF IsUnary(r, 6) /\ IsAtom(First(Rest(r))) THEN
       LET p == BytesOf(First(Rest(r))) IN
       LET st == IF IsZeroPath(p) THEN <<>> ELSE PathBits(p) IN
       Ok(A(BytesOfSteps(IF Variant = "compose_reversed" THEN <<1>> \o st ELSE st \o <<1>>)))
  ELSE Ok(r)

RuleQuoteNull(r) == IF r = Cons(A(<<1>>), Nil) THEN Ok(Nil) ELSE Ok(r)
RuleApplyNull(r) == IF IsPair(r) /\ IsOp(First(r), 2) /\ IsPair(Rest(r)) /\ First(Rest(r)) = Nil THEN Ok(Nil) ELSE Ok(r)

\* an optimised operand that is still a call: a pair whose head is an atom other than q
IsCall(v) == IsPair(v) /\ IsAtom(First(v)) /\ ~IsOp(First(v), 1)

RECURSIVE Opt(_, _), OptList(_, _), RuleVarChange(_, _), RuleChildren(_, _), FirstChange(_, _, _)
OptList(items, fuel) ==
  IF items = <<>> THEN Ok(<<>>)
  ELSE LET h == Opt(items[1], fuel) IN
       IF h[1] # "ok" THEN h
       ELSE LET t == OptList(Tail(items), fuel) IN IF t[1] # "ok" THEN t ELSE Ok(<<h[2]>> \o t[2])

RuleVarChange(r, fuel) ==
  IF ~IsApplyQ(r) THEN Ok(r)
  ELSE LET new == SubArgs(ApplyQBody(r), ApplyQArgs(r)) IN
       IF IsPair(new) /\ IsPair(First(new)) THEN Ok(new)     \* ((X) A B ..) does not look at its environment
       ELSE IF SeemsConstant(new) THEN Opt(new, fuel)
       ELSE LET pl == Proper(new) IN
            IF ~pl[1] THEN Ok(r)
            ELSE LET os == OptList(pl[2], fuel) IN
                 IF os[1] # "ok" THEN os
                 ELSE IF \E i \in 1..Len(os[2]) : IsCall(os[2][i]) THEN Ok(r) ELSE Ok(Enlist(os[2]))

RuleChildren(r, fuel) ==
  LET pl == Proper(r) IN
  IF ~pl[1] \/ pl[2] = <<>> THEN Ok(r)
  ELSE IF IsOp(pl[2][1], 1) THEN Ok(r)
  ELSE LET os == OptList(pl[2], fuel) IN
       IF os[1] # "ok" THEN os ELSE IF os[2] = pl[2] THEN Ok(r) ELSE Ok(Enlist(os[2]))

\* the first rule (in order k = 1..8) whose result differs from r
FirstChange(r, k, fuel) ==
  IF k > 8 THEN Ok(r)
  ELSE LET s == CASE k = 1 -> RuleCons(r) [] k = 2 -> RuleConstant(r) [] k = 3 -> RuleConsQA(r)
                  [] k = 4 -> RuleVarChange(r, fuel) [] k = 5 -> RuleChildren(r, fuel) [] k = 6 -> RulePath(r)
                  [] k = 7 -> RuleQuoteNull(r) [] OTHER -> RuleApplyNull(r)
       IN IF s[1] # "ok" THEN s ELSE IF s[2] # r THEN s ELSE FirstChange(r, k + 1, fuel)

Opt(r, fuel) ==
  IF fuel <= 0 THEN Unk
  ELSE IF IsAtom(r) THEN Ok(r)
  ELSE IF IsPair(First(r)) THEN Ok(r)      \* an operator-in-parentheses form: its operands are data, no rule applies
  ELSE LET s == FirstChange(r, 1, fuel - 1) IN
       IF s[1] # "ok" THEN s ELSE IF s[2] = r THEN Ok(r) ELSE Opt(s[2], fuel - 1)

Optimize(r) == Opt(r, 12)
=============================================================================
