SPECIFICATION Spec
CONSTANTS Depth = 2
 Rule = "none"
INVARIANTS Agrees AllComsWellScoped
CHECK_DEADLOCK FALSE
