----------------------------- MODULE MC_Toposort -----------------------------
(* util::toposort as implemented (a `done` set, repeatedly moving every item *)
(* whose needs are done to the front by swapping), used to order the          *)
(* bindings of an assign form.  Items 1..N; item i defines name i and needs    *)
(* the names in needs[i].  TLC enumerates every needs relation (one initial    *)
(* state each) and runs the algorithm one outer round per transition.          *)
EXTENDS Integers, Sequences, FiniteSets, TLC
CONSTANT N
Items == 1..N
VARIABLES needs, order, finished, done, result
vars == <<needs, order, finished, done, result>>
Init == /\ needs \in [Items -> SUBSET Items]
        /\ order = [i \in Items |-> i] /\ finished = 0 /\ done = {} /\ result = "running"

\* one pass of the while loop body: collect movable items among order[finished+1..N], swap each into place
RECURSIVE MoveAll(_, _, _, _)
MoveAll(ord, fin, dn, mtf) ==   \* mtf: sequence of *positions* (computed before any swap), ascending
  IF mtf = <<>> THEN <<ord, fin, dn>>
  ELSE LET idx == mtf[1]
           o2 == IF idx # fin + 1 THEN [ord EXCEPT ![fin + 1] = ord[idx], ![idx] = ord[fin + 1]] ELSE ord
       IN MoveAll(o2, fin + 1, dn \cup {o2[fin + 1]}, Tail(mtf))
RECURSIVE AscSeq(_, _, _)
AscSeq(S, k, acc) == IF k > N THEN acc ELSE AscSeq(S, k + 1, IF k \in S THEN Append(acc, k) ELSE acc)
Round == /\ result = "running" /\ finished < N
         /\ LET movable == {p \in (finished + 1)..N : needs[order[p]] \subseteq done} IN
            IF movable = {} THEN result' = "deadlock" /\ UNCHANGED <<needs, order, finished, done>>
            ELSE LET r == MoveAll(order, finished, done, AscSeq(movable, 1, <<>>)) IN
                 /\ order' = r[1] /\ finished' = r[2] /\ done' = r[3] /\ UNCHANGED <<needs, result>>
Finish == result = "running" /\ finished = N /\ result' = "ok" /\ UNCHANGED <<needs, order, finished, done>>
Next == Round \/ Finish
Spec == Init /\ [][Next]_vars

\* a valid order exists iff the needs relation is acyclic
RECURSIVE Reach(_, _, _)
Reach(nd, todo, seen) == IF todo = {} THEN seen ELSE LET x == CHOOSE y \in todo : TRUE IN Reach(nd, (todo \ {x}) \cup (nd[x] \ (seen \cup {x})), seen \cup {x})
Cyclic == \E i \in Items : i \in Reach(needs, needs[i], {})
OrderIsPermutation == {order[i] : i \in Items} = Items
OkMeansOrdered == result = "ok" => \A p \in Items : needs[order[p]] \subseteq {order[q] : q \in 1..(p - 1)}
DeadlockIffCyclic == (result = "deadlock" => Cyclic) /\ (result = "ok" => ~Cyclic)
Progress == finished <= N
=============================================================================
