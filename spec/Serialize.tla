----------------------------- MODULE Serialize -----------------------------
(* The binary CLVM format: encoder, a reference decoder (what the consensus *)
(* deserialiser does) and the decoder of classic/clvm/serialize.rs written  *)
(* as the op-stack / value-stack machine it is, including the fact that the *)
(* machine *ignores* the error an operation reports and simply carries on.  *)
EXTENDS ClvmValues

\* ---- length prefix ------------------------------------------------------
\* size blob of an atom of length n (n < 2^31 in the model; the five classes are all representable)
SizeBlob(n) ==
  IF n < 64 THEN <<128 + n>>
  ELSE IF n < 8192 THEN <<192 + (n \div 256), n % 256>>
  ELSE IF n < 1048576 THEN <<224 + (n \div 65536), (n \div 256) % 256, n % 256>>
  ELSE IF n < 134217728 THEN <<240 + (n \div 16777216), (n \div 65536) % 256, (n \div 256) % 256, n % 256>>
  ELSE <<248, (n \div 16777216) % 256, (n \div 65536) % 256, (n \div 256) % 256, n % 256>>   \* n < 2^31: top limb 0

RECURSIVE Ser(_)
Ser(v) == IF IsPair(v) THEN <<255>> \o Ser(First(v)) \o Ser(Rest(v))
          ELSE LET b == BytesOf(v) IN
               IF b = <<>> THEN <<128>>
               ELSE IF Len(b) = 1 /\ b[1] < 128 THEN b
               ELSE SizeBlob(Len(b)) \o b

LeadingOnes(b) == CHOOSE k \in 0..8 : (\A j \in 1..k : Bit(b, 8 - j) = 1) /\ (k = 8 \/ Bit(b, 7 - k) = 0)

\* value of a size blob given as bytes, or "big" when it does not fit the format (>= 0x400000000)
\* or the model (>= 2^31)
StripZeros(bs) == LET f == FirstNonZero(bs, 1) IN IF f > Len(bs) THEN <<>> ELSE SubSeq(bs, f, Len(bs))
TooLargeForFormat(bs) == LET s == StripZeros(bs) IN Len(s) > 5 \/ (Len(s) = 5 /\ s[1] >= 4)
TooLargeForModel(bs) == LET s == StripZeros(bs) IN Len(s) > 4 \/ (Len(s) = 4 /\ s[1] >= 128)

\* ---- reference decoder (consensus): returns <<"ok", v, next position>> or <<"err">> --------
RECURSIVE RefDeAt(_, _)
RefDeAt(bs, i) ==
  IF i > Len(bs) THEN <<"err">>
  ELSE LET b == bs[i] IN
    IF b = 255 THEN
       LET l == RefDeAt(bs, i + 1) IN
       IF l[1] # "ok" THEN l ELSE
       LET r == RefDeAt(bs, l[3]) IN
       IF r[1] # "ok" THEN r ELSE <<"ok", Cons(l[2], r[2]), r[3]>>
    ELSE IF b = 128 THEN <<"ok", Nil, i + 1>>
    ELSE IF b < 128 THEN <<"ok", A(<<b>>), i + 1>>
    ELSE LET k == LeadingOnes(b) IN
         IF k > 6 THEN <<"err">>
         ELSE IF i + k - 1 > Len(bs) THEN <<"err">>
         ELSE LET blob == <<b - (256 - Pow2(8 - k))>> \o SubSeq(bs, i + 1, i + k - 1) IN
              IF TooLargeForFormat(blob) THEN <<"err">>
              \* a size of 2^31 or more that the format allows: no input TLC or the harness can hold has that many
              \* bytes left, so the announced atom is cut short -- an error in every decoder
              ELSE IF TooLargeForModel(blob) THEN <<"err">>
              ELSE LET n == UnsignedOf(StripZeros(blob)) IN
                   IF i + k - 1 + n > Len(bs) THEN <<"err">>
                   ELSE <<"ok", A(SubSeq(bs, i + k, i + k - 1 + n)), i + k + n>>
RefDe(bs) == LET r == RefDeAt(bs, 1) IN IF r[1] = "ok" THEN Ok(r[2]) ELSE <<r[1]>>

\* ---- the implementation's machine ------------------------------------------------
\* one step: pops one operation.  ops: sequence of "read" / "cons", top LAST (a Vec);
\* vals: sequence, top LAST; pos: next byte to read.  Errors of an operation are dropped.
ReadAtom(bs, i) ==   \* atom_from_stream after the first byte bs[i]; <<"ok", atom, next>> | <<"err", next>>
  LET b == bs[i] IN
  IF b = 128 THEN <<"ok", Nil, i + 1>>
  ELSE IF b < 128 THEN <<"ok", A(<<b>>), i + 1>>
  ELSE LET k == LeadingOnes(b) IN
       IF k > 6 THEN <<"err", i + 1>>                                 \* over-long prefix rejected
       ELSE LET avail == IF i + k - 1 > Len(bs) THEN Len(bs) - i ELSE k - 1   \* Stream.read returns what is left
                next == i + 1 + avail IN
            IF avail # k - 1 THEN <<"err", next>>
            ELSE LET blob == <<b - (256 - Pow2(8 - k))>> \o SubSeq(bs, i + 1, i + k - 1) IN
                 IF TooLargeForFormat(blob) THEN <<"err", next>>
                 ELSE IF TooLargeForModel(blob) THEN <<"err", Len(bs) + 1>>      \* f.read(size) takes all that is left: too few
                 ELSE LET n == UnsignedOf(StripZeros(blob))
                          got == IF next + n - 1 > Len(bs) THEN Len(bs) - next + 1 ELSE n IN
                      IF got # n THEN <<"err", next + got>>
                      ELSE <<"ok", A(SubSeq(bs, next, next + n - 1)), next + n>>

\* machine state as a record; StepM pops one op
StepM(bs, m) ==
  LET op == m.ops[Len(m.ops)]
      rest == SubSeq(m.ops, 1, Len(m.ops) - 1) IN
  IF op = "cons" THEN
     IF Len(m.vals) = 0 THEN [m EXCEPT !.ops = rest]
     ELSE IF Len(m.vals) = 1 THEN [m EXCEPT !.ops = rest, !.vals = <<>>]          \* r popped, l missing: r is lost
     ELSE LET n == Len(m.vals) IN
          [m EXCEPT !.ops = rest, !.vals = SubSeq(m.vals, 1, n - 2) \o <<Cons(m.vals[n - 1], m.vals[n])>>]
  ELSE \* "read"
     IF m.pos > Len(bs) THEN [m EXCEPT !.ops = rest]                       \* bad encoding, ignored
     ELSE IF bs[m.pos] = 255 THEN [m EXCEPT !.ops = rest \o <<"cons", "read", "read">>, !.pos = m.pos + 1]
     ELSE LET r == ReadAtom(bs, m.pos) IN
          IF r[1] = "ok" THEN [m EXCEPT !.ops = rest, !.vals = Append(m.vals, r[2]), !.pos = r[3]]
          ELSE IF r[1] = "oom" THEN [m EXCEPT !.ops = <<>>, !.vals = <<>>, !.oom = TRUE]
          ELSE [m EXCEPT !.ops = rest, !.pos = r[2]]

StartM == [ops |-> <<"read">>, vals |-> <<>>, pos |-> 1, oom |-> FALSE]
RECURSIVE RunM(_, _)
RunM(bs, m) == IF m.ops = <<>> THEN m ELSE RunM(bs, StepM(bs, m))
ImplDe(bs) == LET m == RunM(bs, StartM) IN
              IF m.oom THEN <<"oom">>
              ELSE IF m.vals = <<>> THEN <<"err">> ELSE Ok(m.vals[Len(m.vals)])

\* ---- the property, as checked on the model -----------------------------------
\* the decoder never returns a value the consensus decoder does not return
DecoderSound(bs) == LET i == ImplDe(bs) r == RefDe(bs) IN
                    (i[1] = "ok" /\ r[1] # "oom") => i = r
RoundTrip(v) == ImplDe(Ser(v)) = Ok(v) /\ RefDe(Ser(v)) = Ok(v)
=============================================================================
