---------------------------- MODULE MC_Printers ----------------------------
(* All atoms of <= FullLen bytes, and longer ones (<= BoundaryLen) over a    *)
(* boundary alphabet: both round trips on the model, one replay vector each. *)
EXTENDS Printers, Json, TLC
CONSTANTS FullLen, BoundaryLen
Boundary == {0, 1, 32, 34, 35, 39, 40, 41, 45, 46, 48, 57, 59, 92, 97, 120, 127, 128, 255}
VARIABLES bs, emitted
vars == <<bs, emitted>>
Init == bs = <<>> /\ emitted = FALSE
Grow(b) == /\ ~emitted
           /\ \/ Len(bs) < FullLen
              \/ (Len(bs) < BoundaryLen /\ b \in Boundary /\ \A i \in 1..Len(bs) : bs[i] \in Boundary)
           /\ bs' = Append(bs, b) /\ UNCHANGED emitted
Emit == /\ ~emitted /\ emitted' = TRUE /\ UNCHANGED bs
        /\ \A v \in 0..2, kw \in BOOLEAN :
              Assert(ClassicRoundTrip(bs, kw, v), <<"classic round trip fails on the model", bs, kw, v, DisasmAtom(bs, kw, v)>>)
        /\ Assert(ModernRoundTrip(bs), <<"modern round trip fails on the model", bs>>)
        /\ PrintT(<<"V", ToJson([atom |-> bs, classic_kw |-> DisasmAtom(bs, TRUE, 2), classic |-> DisasmAtom(bs, FALSE, 2),
                                  modern |-> ModernPrint(FromClvmAtom(bs, TRUE))])>>)
Next == (\E b \in 0..255 : Grow(b)) \/ Emit
Spec == Init /\ [][Next]_vars
=============================================================================
