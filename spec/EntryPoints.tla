----------------------------- MODULE EntryPoints -----------------------------
(* The derivation of compiler options from (entry point, dialect, -O flag).  *)
(* The code has it in three copies: the library entry point                   *)
(* (clvmc::compile_clvm_text), the command-line tools and the debugger        *)
(* (comp_input::RunAndCompileInputData).  Output is modelled as a function    *)
(* of (source, derived options) only, so equal derived options is what the    *)
(* entry points must guarantee.                                               *)
EXTENDS Integers, TLC
Steppings == {21, 22, 23, 24}          \* cl23.1 is stepping 23 with the fixed integer mode
Entries == {"Library", "Cli", "Debugger"}

\* [optimize, frontend_opt, post_opt (CLVM-level optimiser run on the result)]
Derive(entry, stepping, flagO) ==
  LET reqO == IF entry = "Library" THEN TRUE ELSE flagO IN
  [optimize |-> reqO \/ stepping > 22, frontend_opt |-> stepping = 22, post_opt |-> reqO]

LibraryIsCliWithO == \A s \in Steppings : Derive("Library", s, FALSE) = Derive("Cli", s, TRUE)
                                         /\ Derive("Library", s, TRUE) = Derive("Cli", s, TRUE)
DebuggerIsCli == \A s \in Steppings, f \in BOOLEAN : Derive("Debugger", s, f) = Derive("Cli", s, f)
VARIABLE x
Init == x = 0
Next == x' = x
Spec == Init /\ [][Next]_x
=============================================================================
