SPECIFICATION Spec
CONSTANTS Writers = {1, 2, 3}
 NChunks = 2
 InitKind = "readonly_same"
 InPlace = FALSE
 Faults = FALSE
 OnError = "report"
INVARIANTS TargetIntact ReaderSeesComplete SameContentSucceeds OkMeansWritten
CHECK_DEADLOCK FALSE
