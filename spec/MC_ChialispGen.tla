--------------------------- MODULE MC_ChialispGen ---------------------------
(* Bounded exhaustive generator of Chialisp programs.  A program is a shape  *)
(* (parameter pattern + one helper from a fixed list) and a main expression  *)
(* grown token by token in prefix order; every complete program is evaluated *)
(* with Chialisp!RunProgram on each argument tree of the shape and printed   *)
(* as one vector, which the harness compiles under every dialect and runs    *)
(* with the consensus evaluator (C01, C02, C03).                             *)
EXTENDS Chialisp, Json, FiniteSets
CONSTANTS MaxLen, ShapeSet

V(n) == <<"var", n>>
L(v) == <<"lit", v>>
Pv(n) == <<"pv", n>>
Pc(a, b) == <<"pc", a, b>>
PList2(a, b) == Pc(a, Pc(b, <<"pn">>))
Prim(op, as) == <<"prim", op, as>>

\* helper bodies over parameters X Y
HBodies == << V("X"), Prim(16, <<V("X"), V("Y")>>), Prim(4, <<V("Y"), V("X")>>), <<"if", V("X"), V("Y"), L(IntAtom(7))>>,
              Prim(5, <<V("X")>>), <<"let", "par", << <<"Q", Prim(16, <<V("X"), L(IntAtom(1))>>)>> >>, Prim(4, <<V("Q"), V("Y")>>)>> >>
\* shapes: [args pattern, variables in scope, helpers, argument trees]
Env2 == { ListVal(<<IntAtom(3), IntAtom(5)>>, Nil), ListVal(<<Cons(IntAtom(1), IntAtom(2)), Nil>>, Nil), ListVal(<<Nil, Cons(IntAtom(9), Nil)>>, Nil) }
EnvD == { ListVal(<<Cons(IntAtom(1), IntAtom(2)), IntAtom(4)>>, Nil), ListVal(<<Cons(Nil, Cons(IntAtom(3), Nil)), Nil>>, Nil), IntAtom(7) }
Shape(k) ==
  CASE k = 0 -> [args |-> PList2(Pv("A"), Pv("B")), vars |-> {"A", "B"}, helpers |-> <<>>, envs |-> Env2]
    [] k \in 1..6 -> [args |-> PList2(Pv("A"), Pv("B")), vars |-> {"A", "B"},
                      helpers |-> << <<"defun", "fn", PList2(Pv("X"), Pv("Y")), HBodies[k], FALSE>> >>, envs |-> Env2]
    [] k \in 7..12 -> [args |-> PList2(Pv("A"), Pv("B")), vars |-> {"A", "B"},
                       helpers |-> << <<"defun", "fn", PList2(Pv("X"), Pv("Y")), HBodies[k - 6], TRUE>> >>, envs |-> Env2]
    [] k = 13 -> [args |-> PList2(Pc(Pv("A"), Pv("B")), Pv("C")), vars |-> {"A", "B", "C"}, helpers |-> <<>>, envs |-> EnvD]
    [] k = 14 -> [args |-> Pc(Pv("A"), Pv("B")), vars |-> {"A", "B"}, helpers |-> <<>>, envs |-> Env2]

\* tokens of the main expression: <<kind, payload, arity>>
Toks(sh) == { <<"var", n, 0>> : n \in sh.vars } \cup { <<"var", "Q", 0>> }
            \cup { <<"lit", v, 0>> : v \in {Nil, IntAtom(1), Cons(IntAtom(5), IntAtom(6))} }
            \cup { <<"prim", o[1], o[2]>> : o \in {<<16, 2>>, <<4, 2>>, <<5, 1>>, <<6, 1>>, <<9, 2>>, <<7, 1>>} }
            \cup { <<"if", 0, 3>>, <<"let", 0, 2>> }
            \cup (IF sh.helpers = <<>> THEN {} ELSE { <<"call", "fn", 2>> })

RECURSIVE Dec(_, _), DecN(_, _, _)
\* decode a complete prefix sequence; bound: names in scope (Q only inside a let body)
DecN(s, n, inlet) == IF n = 0 THEN <<<<>>, s, TRUE>> ELSE
   LET h == Dec(s, inlet) t == DecN(h[2], n - 1, inlet) IN <<<<h[1]>> \o t[1], t[2], h[3] /\ t[3]>>
Dec(s, inlet) == LET t == s[1] IN
   CASE t[1] = "var" -> <<V(t[2]), Tail(s), t[2] # "Q" \/ inlet>>
     [] t[1] = "lit" -> <<L(t[2]), Tail(s), TRUE>>
     [] t[1] = "prim" -> LET as == DecN(Tail(s), t[3], inlet) IN <<Prim(t[2], as[1]), as[2], as[3]>>
     [] t[1] = "if" -> LET as == DecN(Tail(s), 3, inlet) IN <<<<"if", as[1][1], as[1][2], as[1][3]>>, as[2], as[3]>>
     [] t[1] = "call" -> LET as == DecN(Tail(s), 2, inlet) IN <<<<"call", t[2], as[1], <<"none">>>>, as[2], as[3]>>
     [] t[1] = "let" -> LET b == Dec(Tail(s), inlet) body == Dec(b[2], TRUE) IN
                        <<<<"let", "par", << <<"Q", b[1]>> >>, body[1]>>, body[2], b[3] /\ body[3]>>

VARIABLES shape, seq, need, emitted
vars == <<shape, seq, need, emitted>>
Init == shape \in ShapeSet /\ seq = <<>> /\ need = 1 /\ emitted = FALSE
Add(t) == /\ need > 0 /\ Len(seq) + need + t[3] <= MaxLen
          /\ seq' = Append(seq, t) /\ need' = need - 1 + t[3] /\ UNCHANGED <<shape, emitted>>
Emit == /\ need = 0 /\ ~emitted /\ emitted' = TRUE /\ UNCHANGED <<shape, seq, need>>
        /\ LET sh == Shape(shape) d == Dec(seq, FALSE) IN
           d[3] =>      \* well scoped (Q only under its let)
             LET P == [args |-> sh.args, helpers |-> sh.helpers, body |-> d[1]]
                 es == CHOOSE s \in [1..Cardinality(sh.envs) -> sh.envs] : \A i, j \in 1..Cardinality(sh.envs) : i # j => s[i] # s[j]
             IN PrintT(<<"V", ToJson([ast |-> P, envs |-> es, res |-> [i \in 1..Len(es) |-> RunProgram(P, es[i], 40)],
                                        staticfail |-> StaticFail(P)])>>)
Next == (\E t \in Toks(Shape(shape)) : Add(t)) \/ Emit
Spec == Init /\ [][Next]_vars
=============================================================================
