---------------------------- MODULE Trace_Includes ----------------------------
(* Trace validation for C18.  One record per materialised configuration:     *)
(* whether the program compiled, the files the compilation opened (reads),   *)
(* the files the listing named (listed), how many listed paths are not the    *)
(* first match of their name in search-path order (wrong); for model          *)
(* configurations also the read set Includes.tla predicts.                    *)
EXTENDS Integers, Sequences, FiniteSets, TLC, Json, IOUtils
Rec == ndJsonDeserialize(IOEnv.TRACE)
SeqToSet(s) == {s[i] : i \in 1..Len(s)}
VARIABLES l, bad, drift, cnt
vars == <<l, bad, drift, cnt>>
Init == l = 1 /\ bad = {} /\ drift = {} /\ cnt = [compiled |-> 0, reading |-> 0, model |-> 0]
Next == /\ l <= Len(Rec) /\ l' = l + 1
        /\ LET e == Rec[l]
               reads == SeqToSet(e.reads) listed == SeqToSet(e.listed) IN
           \* C18: every file read is listed; every listed name is the file actually found first
           /\ bad' = IF (e.compiled /\ ~(reads \subseteq listed)) \/ e.wrong > 0 THEN bad \cup {l} ELSE bad
           /\ drift' = IF e.has_model /\ e.compiled /\ SeqToSet(e.model_reads) # reads THEN drift \cup {l} ELSE drift
           /\ cnt' = [cnt EXCEPT !.compiled = @ + (IF e.compiled THEN 1 ELSE 0),
                                 !.reading = @ + (IF e.compiled /\ reads # {} THEN 1 ELSE 0),
                                 !.model = @ + (IF e.has_model THEN 1 ELSE 0)]
Spec == Init /\ [][Next]_vars
Finished == l > Len(Rec) => PrintT(<<"RESULT", ToJson([n |-> Len(Rec), bad |-> bad, drift |-> drift, cnt |-> cnt])>>)
=============================================================================
