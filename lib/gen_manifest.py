#!/usr/bin/env python3
"""Regenerates MANIFEST.json from lib/manifest_data.py (one source of truth for the check list)."""
import json, os, sys
ROOT = os.path.dirname(os.path.dirname(os.path.abspath(__file__)))
sys.path.insert(0, os.path.join(ROOT, "lib"))
import manifest_data as md

checks = []
for pid, c in sorted(md.CHECKS.items()):
    checks.append({
        "property_id": pid,
        "quick_cmd": f"./check {pid} --tier quick",
        "thorough_cmd": f"./check {pid} --tier thorough",
        "evidence_file": f"/verif/evidence/{pid}.json",
        "replay_cmd_template": f"./check {pid} --replay {{path}}",
        "engine": "tlc+vh",
        "level_claimed": {"category": c["level"], "text": c["text"], "design_ref": c["design_ref"]},
        "level_note": c["note"],
        "technique": c["technique"],
    })
props = [json.loads(l)["id"] for l in open(os.path.join(ROOT, "properties.jsonl"))]
na = [{"property_id": p, "reason": md.NOT_APPLICABLE.get(p, "check not built yet in this session; see DESIGN.md for the plan")}
      for p in props if p not in md.CHECKS]
m = {
    "version": 1,
    "setup_cmd": "./setup.sh",
    "hooks": {
        "guard": "--cfg chialisp_verif",
        "enable": "harness/.cargo/config.toml passes --cfg chialisp_verif (and --check-cfg) to every crate it builds, including the path dependency /repo",
        "baseline_off_cmd": "cd /repo && RUSTUP_TOOLCHAIN=stable-x86_64-unknown-linux-gnu cargo test --workspace --no-fail-fast --offline",
        "source_commits": md.HOOK_COMMITS,
        "add_only": True,
    },
    "engines": [
        {"name": "tlc", "path": "/opt/veriftools/tla/tla2tools.jar", "serves_properties": sorted(md.CHECKS), "kind_free_text": "TLC 1.8 model checker running the TLA+ modules under /verif/spec (bounded exhaustive model checking, vector generation, trace validation)"},
        {"name": "vh", "path": "/verif/harness", "serves_properties": sorted(md.CHECKS), "kind_free_text": "Rust conformance harness linking /repo as a path dependency: replays TLC vectors into the real code and records traces of the real code for TLC to validate; code under test runs in worker child processes"},
    ],
    "checks": checks,
    "not_applicable": na,
    "notes": "Model-based verification with explicit TLA+ specifications; see DESIGN.md. known_findings.json lists genuine defects (open: printed as KNOWN-FINDING; fixed: repaired by a fix: commit in /repo).",
}
with open(os.path.join(ROOT, "MANIFEST.json"), "w") as f:
    json.dump(m, f, indent=1)
print("MANIFEST.json written:", len(checks), "checks,", len(na), "not applicable")
