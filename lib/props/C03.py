"""C03 — classic compiler output computes what the source means."""
import core
from props import compilecommon as cc

LEVEL = "model_checking"
MATCHERS = dict(cc.MATCHERS)
KINDS = {"bad", "badpair"}


def run(tier, acc):
    acc.rule = ("as C01 with the classic subset of the AST (defun, defun-inline with destructuring parameter lists, template macros, "
                "defconstant, if/list/qq, 1..40 parameters, ~30 operators, literals of any width) rendered without a sigil and compiled "
                "through compile_clvm_text's classic path; Trace_Compile evaluates (P1) Chialisp!RunProgram = ok v => the classic build "
                "returns v and (P2) the classic build and the cl21 build of the same source return the same value (programs with "
                "zero-leading-byte literals only within one dialect). ParamLadder: the k-th of n parameters for n up to 40 directly, "
                "through a helper and through an inline. non-trivial = runs where the source returned a value")
    acc.assumptions = ["as C01", "quoted data only contains numbers (never atoms spelled like operator names), no unbound identifiers"]
    n = 300 if tier == "quick" else 5000
    res, cs = cc.drive(acc, "classic", n, 3, "classic", ["classic", "cl21"])
    acc.violations += cc.records("C03", res, cs, KINDS)
    res, cs = cc.drive(acc, "ladder", 10 if tier == "quick" else 100, 2, "ladder", ["classic", "cl21"])
    acc.violations += cc.records("C03", res, cs, KINDS)
    cc.exhaustive(acc, "C03", tier, ["classic", "cl21"])
    acc.nontrivial += sum(v for k, v in acc.counts.items() if k.endswith("_ok"))


def replay(path):
    return cc.replay_record(path, "C03", KINDS)
