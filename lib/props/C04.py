"""C04 — the CLVM-level optimiser preserves the meaning of any CLVM it is given."""
import core
from props import clvmcommon as cc

LEVEL = "model_checking"

MATCHERS = {}


def run(tier, acc):
    acc.rule = ("ClassicOpt.tla transcribes the eight rewrite rules of optimize_sexp_ and their driver loop; TLC asserts on that model, for every "
                "enumerated term and environment, that a term returning v is accepted and its rewritten form returns v, and the model's answer "
                "is compared term for term with the real optimiser's (drift). TLC enumerates every CLVM term of <= MaxLen prefix tokens over {nil, paths 1 2 3 5 7, quoted constants, "
                "a i c f r l = +} x 4 environments and predicts the value with Clvm!Eval; the harness runs the real "
                "optimize_sexp on each term and evaluates input and output with clvmr; non-trivial = distinct "
                "(term, environment) pairs on which the optimiser changed the term")
    acc.assumptions = ["clvmr is the consensus evaluator", "Clvm.tla must agree with clvmr on every vector (SPEC-ERROR otherwise)"]
    n = 4 if tier == "quick" else 5
    # MC_OptGen = the term generator + ClassicOpt.tla: TLC asserts C04 on the rule-level model of the optimiser for every
    # enumerated (term, environment) and prints the model's answer, which the harness compares with optimize_sexp's (drift)
    cc.gen_and_replay(acc, "opt_clean", n, "opt", "clean", "C04", module="MC_OptGen", extra="OptCheck")
    cc.drive_and_validate(acc, 3000 if tier == 'quick' else 60000, 'C04')
    acc.exhaustive = True


def replay(path):
    return cc.replay_case(path, "C04")
