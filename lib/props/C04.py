"""C04 — the CLVM-level optimiser preserves the meaning of any CLVM it is given."""
import core
from props import clvmcommon as cc

LEVEL = "model_checking"

MATCHERS = {}


def run(tier, acc):
    acc.rule = ("ClassicOpt.tla transcribes the eight rewrite rules of optimize_sexp_ and their driver loop; TLC asserts on that model, for every "
                "enumerated term and environment, that a term returning v is accepted and its rewritten form returns v, and the model's answer "
                "is compared term for term with the real optimiser's (drift). TLC enumerates every CLVM term of <= MaxLen prefix tokens over {nil, paths 1 2 3 5 7, quoted constants, "
                "a i c f r l = +} x 4 environments and predicts the value with Clvm!Eval; the harness runs the real "
                "optimize_sexp on each term and evaluates input and output with clvmr; non-trivial = distinct "
                "(term, environment) pairs on which the optimiser changed the term")
    acc.assumptions = ["clvmr is the consensus evaluator", "Clvm.tla must agree with clvmr on every vector (SPEC-ERROR otherwise)"]
    n = 4 if tier == "quick" else 5
    # MC_OptGen = the term generator + ClassicOpt.tla: TLC asserts C04 on the rule-level model of the optimiser for every
    # enumerated (term, environment) and prints the model's answer, which the harness compares with optimize_sexp's (drift)
    cc.gen_and_replay(acc, "opt_clean", n, "opt", "clean", "C04", module="MC_OptGen", extra="OptCheck")
    # non-vacuity of the model-level assertion: three unsound optimisers are refuted on the same enumeration
    import os
    for variant in ("zero_path_is_args", "compose_reversed", "constant_in_env"):
        cfg = cc.write_cfg(f"MC_OptGen_nv_{variant}.cfg", 4, "opt", "clean", extra="OptCheck", variant=variant)
        rv = core.run_tlc("MC_OptGen", cfg, f"C04_nv_{variant}", workers=8, timeout=1500, coverage=False, expect_failure=True)
        if os.path.exists(rv.out_path):
            os.remove(rv.out_path)
        if rv.ok or not any("Assert evaluated to FALSE" in e for e in rv.errors):
            raise core.ToolError(f"ClassicOpt's soundness assertion is vacuous: the unsound variant {variant} is not refuted")
        os.remove(os.path.join(core.SPEC, cfg))
    acc.notes.append("ClassicOpt non-vacuity: the variants zero_path_is_args (8cba968), compose_reversed and constant_in_env violate the soundness assertion")
    cc.drive_and_validate(acc, 3000 if tier == 'quick' else 60000, 'C04')
    acc.exhaustive = True


def replay(path):
    return cc.replay_case(path, "C04")
