"""C02 — optimisation switches and optimising dialects never change results."""
import json
import os
import core
from props import compilecommon as cc

LEVEL = "model_checking"
MATCHERS = dict(cc.MATCHERS)
ALL = ["cl21", "cl21+O", "s21", "cl22", "cl22+O", "cl23", "cl23+O", "cl231", "cl231+O", "cl24", "cl24+O"]
KINDS = {"bad", "badpair", "badopt"}


def m_strict21_opt(v, params):
    # *strict-cl-21* with optimisation requested (what the library entry point always does) fails to compile most
    # programs ("bad path 5 in 64" from *macros*, or an unimplemented macro-time operator)
    return v["kind"] == "optimisation-makes-program-fail" and "s21+O" in v["builds"]


MATCHERS["strict21_opt"] = m_strict21_opt


def shipped(acc):
    trace = os.path.join(core.BUILD, "C02_shipped.ndjson")
    cases = os.path.join(core.BUILD, "C02_shipped.cases")
    out = os.path.join(core.BUILD, "C02_shipped.report.json")
    core.run_vh(["drive-shipped", "--trace", trace, "--cases", cases, "--out", out], timeout=3000)
    rep = core.load_json(out)
    res = core.trace_validate(acc, "Trace_Compile", "Trace_Compile.cfg", trace, "Trace_Compile[shipped]")
    cs = [json.loads(l) for l in open(cases)]
    acc.add_report(rep)
    acc.counts["shipped_pairs"] = res["stats"]["pairs"]
    acc.counts["shipped_optpairs"] = res["stats"]["optpairs"]
    os.remove(trace)
    os.remove(cases)
    return cc.records("C02", res, cs, {"badpair", "badopt"})


def cse_guards(acc, tier, prop="C02", builds=None, take=None):
    """M: CseGuards.tla, the covering rule under which a repeated subexpression may be bound above the conditions around
    its instances, checked by TLC over all 314,436 trees of depth 2 (conditions are trees themselves) (safe under the rule that examines the conditions above *any*
    instance; the rule that examines only those above the first instance is refuted: non-vacuity).  R: every tree with two
    or more instances is compiled as a function body and run on the eight (guard, guard, failing?) rows."""
    r = core.run_tlc("MC_CseGuards", "MC_CseGuards_any.cfg", f"{prop}_cseguards", workers=8, timeout=1500, coverage=False)
    if not r.ok:
        raise core.ToolError(f"CseGuards: HoistingIsSafe violated under the rule the compiler uses: {r.invariant_violated}")
    acc.add_tlc("CseGuards[any]", r)
    for cfg, what in (("MC_CseGuards_first.cfg", "the first-instance-only rule is not refuted"), ("MC_CseGuards_nonvacuous.cfg", "no tree is ever hoisted")):
        rv = core.run_tlc("MC_CseGuards", cfg, f"{prop}_cseguards_nv", workers=4, timeout=900, coverage=False)
        if rv.ok or not rv.invariant_violated:
            raise core.ToolError(f"CseGuards is vacuous: {what}")
    acc.notes.append("CseGuards non-vacuity: the first-instance-only covering rule violates HoistingIsSafe, and some trees are saturated")
    out = os.path.join(core.BUILD, f"{prop}_cseguards.report.json")
    core.run_vh(["replay-cse", "--in", r.out_path, "--out", out, "--builds", ",".join(builds or ALL), "--prop", prop,
                 "--take", str(take or (600 if tier == "quick" else 12000))], timeout=6000)
    os.remove(r.out_path)
    rep = core.load_json(out)
    if rep["evaluations"] == 0:
        raise core.ToolError("vacuous: MC_CseGuards emitted no vector")
    acc.add_report(rep)


def run(tier, acc):
    acc.rule = ("as C01, with every program compiled under the option matrix {optimisation off, optimisation on (+ classic post-optimiser)} "
                "x {cl21, strict-cl21, cl22, cl23, cl23.1, cl24}; Trace_Compile evaluates three clauses on the "
                "observations: each build equals Chialisp!RunProgram when that returns; any two builds of one dialect group (of both "
                "groups when the program has no zero-leading-byte literal) that return values return the same; for programs without "
                "statically failing closed subexpressions (StaticFail) a value-returning unoptimised build implies a value-returning "
                "optimised one. Shipped programs (game referee, CAT/DID, rosetta, cse-*, deinline, singleton): the two differential "
                "clauses on generic argument trees. non-trivial = runs where the source returned a value")
    acc.assumptions = ["as C01", "StaticFail: a subexpression occurrence fails for every input when Chialisp!SEval fails on it in its static environment (parameters unknown, let/assign-bound names and call arguments propagated)"]
    n = 200 if tier == "quick" else 3000
    res, cs = cc.drive(acc, "full", n, 3, "full", ALL)
    acc.violations += cc.records("C02", res, cs, KINDS)
    res, cs = cc.drive(acc, "core", n // 2, 3, "core", ALL)
    acc.violations += cc.records("C02", res, cs, KINDS)
    res, cs = cc.drive(acc, "cse", n // 2, 3, "cse", ALL)
    acc.violations += cc.records("C02", res, cs, KINDS)
    acc.violations += shipped(acc)
    res, cs = cc.drive(acc, "ladder", 10 if tier == "quick" else 100, 2, "ladder", ALL)
    acc.violations += cc.records("C02", res, cs, KINDS)
    cc.exhaustive(acc, "C02", tier, ALL)
    cse_guards(acc, tier)
    # the cl23+ post-codegen rewrites (null_optimization, remove_double_apply, brief_path_selection) as functions on CLVM:
    # every term TLC enumerates (two alphabets) is rewritten by the real functions; where the term returns v in an
    # environment, the rewritten term returns v (Clvm.tla is cross-checked against clvmr on every vector)
    from props import clvmcommon as clv
    clv.gen_and_replay(acc, "post_step", 4 if tier == "quick" else 5, "stepper", "clean", "C02")
    clv.gen_and_replay(acc, "post_opt", 4 if tier == "quick" else 5, "opt", "clean", "C02")
    acc.nontrivial += sum(v for k, v in acc.counts.items() if k.endswith("_ok"))


def replay(path):
    return cc.replay_record(path, "C02", KINDS)
