"""C10 — ill-scoped programs are rejected, never miscompiled and never loop the compiler."""
import json
import os
import core

LEVEL = "model_checking"


# ---- small AST helpers (JSON encoding of the Chialisp AST)
def subexprs(e):
    yield e
    t = e[0]
    if t == "prim":
        for a in e[2]:
            yield from subexprs(a)
    elif t == "list":
        for a in e[1]:
            yield from subexprs(a)
    elif t == "call":
        for a in e[2]:
            yield from subexprs(a)
        if e[3][0] != "none":
            yield from subexprs(e[3])
    elif t == "if":
        for a in e[1:4]:
            yield from subexprs(a)
    elif t == "let":
        for b in e[2]:
            yield from subexprs(b[1])
        yield from subexprs(e[3])
    elif t == "assign":
        for b in e[1]:
            yield from subexprs(b[1])
        yield from subexprs(e[2])
    elif t == "lambda":
        yield from subexprs(e[3])
    elif t == "apply":
        yield from subexprs(e[1])
        yield from subexprs(e[2])


def names_in(e):
    out = set()
    for x in subexprs(e):
        if x[0] == "var":
            out.add(x[1])
        elif x[0] == "call":
            out.add(x[1])
    return out


def pat_names(p):
    if p[0] == "pv":
        return {p[1]}
    if p[0] == "pc":
        return pat_names(p[1]) | pat_names(p[2])
    if p[0] == "pat":
        return {p[1]} | pat_names(p[2])
    return set()


def reachable(ast):
    fns = {h[1]: h for h in ast["helpers"] if h[0] == "defun"}
    todo = [n for n in names_in(ast["body"]) if n in fns]
    done = set()
    while todo:
        n = todo.pop()
        if n in done:
            continue
        done.add(n)
        todo += [m for m in names_in(fns[n][3]) if m in fns and m not in done]
    return done


def erased_position(ast, ident):
    """is ident dead in the program?  Liveness by need: a let / let* / assign binding is needed when a name it binds is needed
    by the body (or by a later needed binding), an argument of an inline function when the body of that function needs a name
    of the parameter it is bound to; everything a needed expression mentions is needed.  The identifier is in an erased
    position when neither the main expression nor the body of any non-inline function needs it."""
    inl = {h[1]: h for h in ast["helpers"] if h[0] == "defun" and h[4]}
    body_need = {}

    def need_of_inline(name, depth):
        if name in body_need:
            return body_need[name]
        if depth > 12:
            return names_in(inl[name][3])          # inline cycle: everything mentioned
        body_need[name] = need(inl[name][3], depth + 1)
        return body_need[name]

    def need(e, depth=0):
        t = e[0]
        if t == "var":
            return {e[1]}
        if t in ("prim", "list"):
            kids = e[2] if t == "prim" else e[1]
            out = set()
            for k in kids:
                out |= need(k, depth)
            return out
        if t == "if":
            return need(e[1], depth) | need(e[2], depth) | need(e[3], depth)
        if t == "apply":
            return need(e[1], depth) | need(e[2], depth)
        if t == "lambda":
            return set(e[1]) | (need(e[3], depth) - pat_names(e[2]))
        if t == "let":
            live = need(e[3], depth)
            if e[1] == "seq":
                for (n, v) in reversed(e[2]):
                    if n in live:
                        live = (live - {n}) | need(v, depth)
                return live
            out = live - {n for (n, _) in e[2]}
            for (n, v) in e[2]:
                if n in live:
                    out |= need(v, depth)
            return out
        if t == "assign":
            live = need(e[2], depth)
            used = set()
            changed = True
            while changed:
                changed = False
                for i, (p, v) in enumerate(e[1]):
                    if i not in used and pat_names(p) & live:
                        used.add(i)
                        live |= need(v, depth)
                        changed = True
            bound = set()
            for (p, _) in e[1]:
                bound |= pat_names(p)
            return live - bound
        if t == "call":
            out = set()
            if e[1] in inl:
                h = inl[e[1]]
                bn = need_of_inline(e[1], depth)
                pat = h[2]
                out |= bn - pat_names(h[2])
                for a in e[2]:
                    if pat[0] == "pc":
                        if pat_names(pat[1]) & bn:
                            out |= need(a, depth)
                        pat = pat[2]
                    else:
                        out |= need(a, depth)      # more arguments than parameters: not modelled, keep
                # (a &rest tail binds whatever part of the parameter pattern the positional arguments leave over: nothing
                #  when they use it up)
                if e[3][0] != "none" and pat_names(pat) & bn:
                    out |= need(e[3], depth)
                return out
            for a in e[2]:
                out |= need(a, depth)
            if e[3][0] != "none":
                out |= need(e[3], depth)
            return out
        return set()

    bodies = [ast["body"]] + [h[3] for h in ast["helpers"] if h[0] == "defun" and not h[4]]
    return all(ident not in need(b) for b in bodies)


def m_redefine_unreachable(v, params):
    # a second definition of a function that is not reachable from the main expression is dropped with the first one
    # (dead helpers are removed before the duplicate check runs)
    return v["kind"] == "redefine" and "ill-scoped-program-accepted" in v["why"] and v["identifier"] not in reachable(v["twin_ast"])


def m_unbound_erased(v, params):
    # strict dialects accept an unbound name that only occurs in a position erased before the scope check: the value of
    # a let/assign binding that is never used, or an argument that an inline function drops
    return v["kind"] == "unbound" and "ill-scoped-program-accepted" in v["why"] and erased_position(v["ast"], v["identifier"])


MATCHERS = {"redefine_unreachable": m_redefine_unreachable, "unbound_erased": m_unbound_erased}


def _models(acc):
    for cfg, name, req in (("MC_InlineExpand.cfg", "InlineExpand", None), ("MC_Toposort.cfg", "Toposort", None)):
        mod = "MC_InlineExpand" if name == "InlineExpand" else "MC_Toposort"
        if not os.path.exists(os.path.join(core.SPEC, mod + ".tla")):
            continue
        r = core.run_tlc(mod, cfg, f"C10_{name}", workers=8, timeout=1500, coverage=False)
        if not r.ok:
            raise core.ToolError(f"{name}: {r.invariant_violated}\n{r.output[-2000:]}")
        acc.add_tlc(name, r)


def _drive(acc, n):
    trace = os.path.join(core.BUILD, "C10_drive.ndjson")
    cases = os.path.join(core.BUILD, "C10_drive.cases")
    out = os.path.join(core.BUILD, "C10_drive.report.json")
    core.run_vh(["drive-scoping", "--n", str(n), "--trace", trace, "--cases", cases, "--out", out], timeout=6000)
    rep = core.load_json(out)
    res = core.trace_validate(acc, "Trace_Scoping", "Trace_Scoping.cfg", trace, "Trace_Scoping", timeout=3000)
    cs = [json.loads(l) for l in open(cases)]
    tr = [json.loads(l) for l in open(trace)]
    acc.add_report(rep)
    acc.counts.update({f"trace_{k}": v for k, v in res["cnt"].items()})
    for (l, why) in res["bad"]:
        c = cs[l - 1]
        acc.violations.append({"property": "C10", "kind": c["kind"], "why": why, "build": c["build"], "identifier": c["identifier"], "where": c["where"],
                               "defective_source": c["defective_source"], "twin_source": c["twin_source"], "defective": c["defective"],
                               "twin": c["twin"], "ast": tr[l - 1]["ast"], "twin_ast": tr[l - 1]["twin"]})
    os.remove(trace)
    os.remove(cases)


def run(tier, acc):
    acc.rule = ("well-scoped generated programs get exactly one injected defect: a fresh unbound name at a random variable position of "
                "reachable code (main body, function or inline body, binding, lambda body, &rest tail) under the strict dialects; a "
                "second defun/defun-inline with an existing name; a cycle of length 1..3 among inline functions reachable from main; an "
                "assign with cyclic bindings or a repeated name (every dialect). Both the defective program and its twin are compiled "
                "in a child with a time limit. Scoping.tla decides from the ASTs alone that the defective one is ill-scoped and the twin "
                "is not; Trace_Scoping evaluates: rejected, terminating, error names the identifier or points inside the offending "
                "form, twin compiles. M: the visited-set discipline of inline expansion and the topological sort of assign bindings "
                "are model-checked over all small call graphs / dependency relations. non-trivial = distinct (defect, dialect, program)")
    acc.assumptions = ["'names the offending identifier or form' = the message contains the identifier (any member of an inline cycle), or the "
                       "error location lies inside the text of the offending form"]
    _models(acc)
    _drive(acc, 50 if tier == "quick" else 800)


def replay(path):
    rec = core.load_json(path)
    v = rec["violation"]
    out = json.loads(core.run_vh(["job", json.dumps({"op": "compile", "text": v["defective_source"], "optimize": False})]))
    if "ok" in out and "ill-scoped-program-accepted" in v["why"]:
        print(f"VIOLATION property=C10 replay={path}")
        print("  still accepted: " + v["defective_source"][:500])
        return 1
    if "err" in out and "error-does-not-name-the-culprit" in v["why"] and not any(i in out["err"]["msg"] for i in v["identifier"].split(",")):
        print(f"VIOLATION property=C10 replay={path}")
        print("  " + json.dumps(out)[:500])
        return 1
    print("replay: the defective program is rejected with a fitting error now")
    return 0
