"""C15 — source locations point at the text they describe."""
import json
import os
import core

LEVEL = "model_checking"
MATCHERS = {}


def _validate(acc, trace, rep, name):
    res = core.trace_validate(acc, "Trace_Reader", "Trace_Reader.cfg", trace, name, timeout=3000)
    lines = open(trace).read().splitlines()
    for (l, reasons) in res["bad"]:
        ev = json.loads(lines[l - 1])
        text = bytes(ev["text"]).decode("latin1")
        if reasons == [["bytewise"]]:
            continue  # already recorded by the harness
        rep["violations"].append({"property": "C15", "kind": "location-does-not-address-its-text", "text": text, "bytes": ev["text"],
                                  "reasons": reasons[:6], "result": ev["res"]})
    acc.add_report(rep)
    for k, v in res["cnt"].items():
        acc.counts[f"{name}_{k}"] = v
    os.remove(trace)


def run(tier, acc):
    acc.rule = ("M: Reader.tla transcribes parse_sexp_step (nested parse state, cursor, Srcloc::ext arithmetic); TLC pushes every text "
                "of <= 4 (thorough: 5) bytes over the 14-symbol alphabet ( ) . space newline ; \" ' \\ # a 0 x - through it one byte "
                "per transition and asserts P1-P3 against Tokens.tla, the declarative reading of the text. R: every enumerated text "
                "goes through ParsePartialResult::push/finalize byte by byte and through parse_sexp whole (results must agree); the "
                "model's predicted forms and locations are compared (drift). T: hand-written token zoo, generated programs re-laid-out "
                "with random whitespace/comments/multi-line strings, their mutations and truncations, shipped sources; Trace_Reader "
                "evaluates P1-P3 on the observed forms with Tokens!Read. non-trivial = distinct texts")
    acc.assumptions = ["tab-free texts", "texts outside Tokens.tla's regular fragment (#( structured lists, stray dots) are only judged on the error clause and bytewise = whole",
                       "interior cons cells of a list spine have no text of their own and are not judged"]
    cfg = "MC_Reader_run.cfg"
    with open(os.path.join(core.SPEC, cfg), "w") as f:
        f.write(f"SPECIFICATION Spec\nCONSTANTS MaxLen = {4 if tier == 'quick' else 5}\nCHECK_DEADLOCK FALSE\n")
    r = core.run_tlc("MC_Reader", cfg, "C15_model", workers=14, timeout=3000, coverage=(tier == "quick"))
    if not r.ok:
        raise core.ToolError(f"MC_Reader: {r.invariant_violated}\n{r.output[-2500:]}")
    acc.add_tlc("MC_Reader", r, require_actions=["PushByte", "Finish"] if tier == "quick" else None)
    trace = os.path.join(core.BUILD, "C15_replay.ndjson")
    out = os.path.join(core.BUILD, "C15_replay.report.json")
    core.run_vh(["replay-reader", "--in", r.out_path, "--trace", trace, "--out", out], timeout=3000)
    os.remove(r.out_path)
    _validate(acc, trace, core.load_json(out), "replay")
    trace = os.path.join(core.BUILD, "C15_drive.ndjson")
    out = os.path.join(core.BUILD, "C15_drive.report.json")
    core.run_vh(["drive-reader", "--n", "200" if tier == "quick" else "3000", "--trace", trace, "--out", out], timeout=3000)
    _validate(acc, trace, core.load_json(out), "drive")
    acc.exhaustive = True


def replay(path):
    rec = core.load_json(path)
    v = rec["violation"]
    tmp = os.path.join(core.BUILD, "C15_replay_one.in")
    with open(tmp, "w") as f:
        f.write('<<"V", ' + json.dumps(json.dumps({"text": v["bytes"]})) + ">>\n")
    trace = os.path.join(core.BUILD, "C15_replay_one.ndjson")
    out = os.path.join(core.BUILD, "C15_replay_one.report.json")
    core.run_vh(["replay-reader", "--in", tmp, "--trace", trace, "--out", out])
    acc = core.Acc("C15", "quick", LEVEL)
    _validate(acc, trace, core.load_json(out), "replay")
    if acc.violations:
        print(f"VIOLATION property=C15 replay={path}")
        print("  " + json.dumps(acc.violations[0])[:700])
        return 1
    print("replay: locations are right on this text now")
    return 0
