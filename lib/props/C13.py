"""C13 — symbol tables describe the emitted program."""
import json
import os
import core

LEVEL = "model_checking"
LEGACY = {"cl21", "cl21+O", "s21", "cl22", "cl22+O", "cl23", "cl23+O"}


def m_legacy_zero_leading(v, params):
    # the finding C01/C02-K3 seen through a symbol-table entry: in legacy integer mode a zero-leading-byte literal (0x00,
    # 0x0006) in a function is renumbered by the optimiser / constant folder, so the code extracted through the entry returns
    # nil / 6 where calling the function in the source returns 0x00 / 0x0006
    return v["kind"] == "extracted-code-differs" and v.get("zero_leading_literal") and v["build"] in LEGACY


MATCHERS = {"legacy_zero_leading": m_legacy_zero_leading}


def _drive(acc, n):
    trace = os.path.join(core.BUILD, "C13_drive.ndjson")
    cases = os.path.join(core.BUILD, "C13_drive.cases")
    out = os.path.join(core.BUILD, "C13_drive.report.json")
    core.run_vh(["drive-symbols", "--n", str(n), "--trace", trace, "--cases", cases, "--out", out], timeout=6000)
    rep = core.load_json(out)
    res = core.trace_validate(acc, "Trace_Symbols", "Trace_Symbols.cfg", trace, "Trace_Symbols", timeout=3000)
    cs = [json.loads(l) for l in open(cases)]
    tr = [json.loads(l) for l in open(trace)]
    acc.add_report(rep)
    acc.counts.update({f"trace_{k}": v for k, v in res["cnt"].items()})
    for (l, kind, which) in res["bad"]:
        ent = tr[l - 1]["entries"][which - 1] if isinstance(which, int) else None
        acc.violations.append({"property": "C13", "kind": kind, "source": cs[l - 1]["source"], "build": cs[l - 1]["build"],
                               "entry": ent, "function": which if not isinstance(which, int) else ent["name"], "symbols": cs[l - 1]["symbols"],
                               "zero_leading_literal": cs[l - 1].get("zero_leading_literal", False)})
    os.remove(trace)
    os.remove(cases)


def run(tier, acc):
    acc.rule = ("generated programs with 0..8 functions (user-written and compiler-synthesised) x {cl21, cl21 -O, cl23, cl23.1, cl24, "
                "classic}: for every function entry of the reported symbol table whose key is the tree hash of a subtree of the emitted "
                "program, the harness extracts that subtree, runs it with clvmr on argument trees fitted to the named function's "
                "parameter list (with the program's function table as left environment when the entry says so); Trace_Symbols (TLC) "
                "checks the recorded argument list against the source function's, the outcomes against Chialisp's meaning of calling "
                "that function (SApply), and, for unoptimised builds that report symbols, that every non-inline function reachable "
                "from the main expression (Reachable, defined in the spec) has an entry whose code occurs. "
                "non-trivial = (program, build) pairs with at least one function entry")
    acc.assumptions = ["entries naming compiler-synthesised helpers (letbinding_$_n, lambda_$_n) are checked for presence only",
                       "the classic path of the library entry point reports no symbols; such records are exempt from the presence clause"]
    _drive(acc, 100 if tier == "quick" else 1500)


def replay(path):
    rec = core.load_json(path)
    v = rec["violation"]
    acc = core.Acc("C13", "quick", LEVEL)
    _drive(acc, 100)
    vs = [x for x in acc.violations if x["kind"] == v["kind"] and not m_legacy_zero_leading(x, {})]
    if vs:
        print(f"VIOLATION property=C13 replay={path}")
        print("  " + json.dumps({k: vs[0][k] for k in vs[0] if k != "symbols"})[:700])
        return 1
    print("replay: symbol tables consistent now")
    return 0
