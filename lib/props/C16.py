"""C16 — the REPL / partial evaluator only ever returns what the compiled program would."""
import json
import os
import re
import core
from props import compilecommon as cc

LEVEL = "model_checking"
NAME = r"[A-Za-z]+\d+(?:_\$_\d+)?"


def m_name_leak(v, params):
    # the REPL has no parameter list: a *free variable* of an open expression inside the branch of an if is compiled by
    # (com ..) as an unbound name and comes back quoted in the residual (or as data in a constant answer)
    idents = set(re.findall(r"\b(?:P|L|S|Z|KONST)\d+\b", v["args"]))
    r = v["repl"]
    # the leak at its source: the evaluator's own record of a (com ..) whose code mentions a free variable of the open
    # expression that is neither a parameter of the code it is compiled against (the REPL has none) nor rebound around it.
    # What becomes of the leaked name afterwards (it may be consumed: (l "P6") is nil, (if "P1" 3 ..) is 3) does not matter.
    for ev in r.get("events") or []:
        if ev.get("ev") == "com":
            covered = set(ev.get("args") or []) | set(ev.get("rebound") or []) | set(ev.get("bound_inside") or [])
            if any(n.split("_$_")[0] in idents and n not in covered for n in ev.get("free") or []):
                return True
    if "const" in r:
        return cc.contains_name(r["const"], idents)
    if "residual" in r:
        # a free variable inside quoted data of the residual: (q . P2), (1 . P2), (q P2), (q 5 P2 ..)
        text = r["residual"]
        toks = re.findall(r"\(|\)|[^\s()]+", text)
        depth_q = []  # stack: is this list a quotation?
        for i, t in enumerate(toks):
            if t == "(":
                depth_q.append(i + 1 < len(toks) and toks[i + 1] in ("q", "1"))
            elif t == ")":
                if depth_q:
                    depth_q.pop()
            elif any(depth_q) and t.split("_$_")[0] in idents:
                return True
    return False


MATCHERS = {"name_leak": m_name_leak}


def _drive(acc, n):
    trace = os.path.join(core.BUILD, "C16_drive.ndjson")
    cases = os.path.join(core.BUILD, "C16_drive.cases")
    out = os.path.join(core.BUILD, "C16_drive.report.json")
    scope = os.path.join(core.BUILD, "C16_scope.ndjson")
    core.run_vh(["drive-repl", "--n", str(n), "--trace", trace, "--cases", cases, "--out", out, "--scope-trace", scope], timeout=6000)
    try:
        acc.violations += core.scope_validate(acc, scope, "C16", closed_only_unbound=True)
    except core.ToolError as e:
        acc.deferred_tool_error = e
    rep = core.load_json(out)
    res = core.trace_validate(acc, "Trace_Repl", "Trace_Repl.cfg", trace, "Trace_Repl", timeout=3000)
    cs = [json.loads(l) for l in open(cases)]
    acc.add_report(rep)
    acc.counts.update({f"trace_{k}": v for k, v in res["cnt"].items()})
    for l in sorted(set(res["bad"]) | set(res["badsrc"])):
        c = cs[l - 1]
        acc.violations.append({"property": "C16", "kind": "repl-answer-differs-from-compiled-program" if l in res["bad"] else "repl-constant-differs-from-source-meaning",
                               "defs": c["defs"], "expr": c["expr"], "split": c.get("split", False), "args": c["args"], "repl": c["repl"], "compiled": c["compiled"],
                               "residual_compiled": c["residual_compiled"], "envs": c["envs"]})
    os.remove(trace)
    os.remove(cases)


def run(tier, acc):
    acc.rule = ("sessions of definitions (defun, defun-inline, defconstant, template macros; entered define-before-use) followed by a "
                "closed expression (parameters replaced by literals) or an open one (free variables) from the C01 generator are fed "
                "to Repl::process_line; the same definitions and expression are compiled as (mod ARGS defs.. expr) and run with clvmr, "
                "and a residual answer is compiled with the same definitions and run on the same argument trees. Trace_Repl (TLC) "
                "checks: a constant answer equals the compiled program's value whenever that returns, and Chialisp!RunProgram's when "
                "that returns; a compiled residual agrees with the original wherever the original returns. Depth-limit stops and "
                "errors are accepted. non-trivial = sessions answered with a constant or a residual")
    acc.assumptions = ["the REPL is configured as the shipped repl binary does (DefaultCompilerOpts, default stack limit)"]
    _drive(acc, 150 if tier == "quick" else 2500)


def replay(path):
    rec = core.load_json(path)
    v = rec["violation"]
    r = json.loads(core.run_vh(["job", json.dumps({"op": "repl", "defs": v["defs"], "expr": v["expr"], "split": v.get("split", False)})]))
    v2 = dict(v)
    v2["repl"] = r
    if "const" in r and "runs" in v["compiled"]:
        bad = any(o[0] == "ok" and o[1] != r["const"] for o in v["compiled"]["runs"])
    elif "residual" in r:
        bad = r["residual"] == v["repl"].get("residual")
    else:
        bad = False
    if bad:
        print(f"VIOLATION property=C16 replay={path}")
        print("  " + json.dumps({"expr": v["expr"], "repl": r, "compiled": v["compiled"]})[:700])
        return 1
    print("replay: the REPL answer agrees with the compiled program now")
    return 0
