"""C09 — printed values and programs re-read to the identical value in both syntaxes."""
import json
import os
import core

LEVEL = "model_checking"
MATCHERS = {}


def run(tier, acc):
    acc.rule = ("M: Printers.tla models ir_for_atom/write_ir, consume_quoted/interpret_atom_value, Display for SExp and the modern "
                "reader's token rules; TLC asserts AsmToken(DisasmAtom(a)) = a for versions 0,1,2 in and out of operator position, and "
                "the modern round trips, for every atom of <= 2 bytes and every 3-byte (thorough: 4-byte) atom over a 19-character "
                "alphabet (quotes, backslash, parentheses, dot, semicolon, #, digits, x, minus, space, 0x00, 0x7f, 0x80, 0xff). "
                "R: each atom alone / as head / non-head / improper tail through disassemble->assemble, to_string->parse_sexp, "
                "to_string->assemble. T: look-alike zoo + random printable/binary atoms and trees validated by Trace_Printers. "
                "non-trivial = distinct values printed")
    acc.assumptions = ["modern printer clauses are evaluated in the fixed integer mode on values obtained by convert_from_clvm_rs",
                       "decimal texts of numbers wider than 3 bytes are outside the TLC model (observed round trip only)"]
    cfg = os.path.join(core.SPEC, "MC_Printers_run.cfg")
    with open(cfg, "w") as f:
        f.write(f"SPECIFICATION Spec\nCONSTANTS FullLen = 2\n BoundaryLen = {3 if tier == 'quick' else 4}\nCHECK_DEADLOCK FALSE\n")
    r = core.run_tlc("MC_Printers", "MC_Printers_run.cfg", "C09_atoms", workers=14, timeout=3000)
    if not r.ok:
        raise core.ToolError(f"MC_Printers: {r.invariant_violated}\n{r.output[-2500:]}")
    acc.add_tlc("MC_Printers", r, require_actions=["Grow", "Emit"])
    out = os.path.join(core.BUILD, "C09_replay.report.json")
    core.run_vh(["replay-print", "--in", r.out_path, "--out", out])
    acc.add_report(core.load_json(out))
    os.remove(r.out_path)
    trace = os.path.join(core.BUILD, "C09_drive.ndjson")
    out = os.path.join(core.BUILD, "C09_drive.report.json")
    core.run_vh(["drive-print", "--n", "300" if tier == "quick" else "5000", "--trace", trace, "--out", out])
    rep = core.load_json(out)
    res = core.trace_validate(acc, "Trace_Printers", "Trace_Printers.cfg", trace, "Trace_Printers")
    nbad_values = len(set(json.dumps(v["value"]) for v in rep["violations"] if "value" in v))
    if len(res["bad"]) != nbad_values:
        raise core.ToolError(f"trace spec and harness disagree: TLC {len(res['bad'])} vs harness {nbad_values}")
    acc.drift += len(res["drift"])
    acc.add_report(rep)
    os.remove(trace)
    acc.exhaustive = True


def replay(path):
    rec = core.load_json(path)
    v = rec["violation"]
    out = json.loads(core.run_vh(["job", json.dumps({"op": "print", "value": v["value"]})]))
    want = ["ok", v["value"]]
    bad = any(out.get(f"classic{i}", {}).get("back") != want for i in range(3)) or \
        out.get("modern", {}).get("back") != want or out.get("modern", {}).get("classic_back") != want
    if bad:
        print(f"VIOLATION property=C09 replay={path}")
        print("  " + json.dumps(out)[:700])
        return 1
    print("replay: property holds on this input now")
    return 0
