"""C17 — an argument reported as unused really cannot influence the result."""
import json
import os
import core

LEVEL = "model_checking"


def m_strictness(v, params):
    # the reported parameter occurs in an expression that is evaluated but whose value is dropped (an argument of a
    # function that ignores it, an unused binding): the program fails for one value of the parameter (e.g. a pair
    # given to an arithmetic operator) and returns for another -- never two different values
    return v["kind"] == "reported-unused-parameter-influences-outcome" and v["differs"] == "fail-vs-return"


def _forms(text):
    """nested lists of tokens of a source text (strings and comments do not occur in generated programs)"""
    toks = text.replace("(", " ( ").replace(")", " ) ").split()
    pos = 0

    def rd():
        nonlocal pos
        t = toks[pos]
        pos += 1
        if t == "(":
            out = []
            while pos < len(toks) and toks[pos] != ")":
                out.append(rd())
            pos += 1
            return out
        return t
    out = []
    while pos < len(toks):
        out.append(rd())
    return out


def m_permuting_recursion(v, params):
    # a function that calls itself with one of its own parameters in another argument position (rotation, swap): the
    # check follows a conditional only once per location and answers a second entry with the condition alone, so what
    # the recursive call's arguments carry in their new places is lost
    if v["kind"] != "reported-unused-parameter-influences-outcome":
        return False
    try:
        top = _forms(v["source"])[0]
    except Exception:
        return False
    defs = {f[1]: f for f in top if isinstance(f, list) and len(f) >= 4 and f[0] in ("defun", "defun-inline") and isinstance(f[1], str) and isinstance(f[2], list)}

    def calls(e, name):
        if isinstance(e, list):
            if e and e[0] == name:
                yield e
            for x in e:
                yield from calls(x, name)
    for name, f in defs.items():
        ps = [p for p in f[2] if isinstance(p, str)]
        for c in calls(f[3:], name):
            for i, a in enumerate(c[1:]):
                if isinstance(a, str) and a in ps and ps.index(a) != i:
                    return True
    return False


MATCHERS = {"strictness": m_strictness, "permuting_recursion": m_permuting_recursion}


def _drive(acc, n, pairs):
    trace = os.path.join(core.BUILD, "C17_drive.ndjson")
    cases = os.path.join(core.BUILD, "C17_drive.cases")
    out = os.path.join(core.BUILD, "C17_drive.report.json")
    scope = os.path.join(core.BUILD, "C17_scope.ndjson")
    core.run_vh(["drive-usecheck", "--n", str(n), "--pairs", str(pairs), "--trace", trace, "--cases", cases, "--out", out, "--scope-trace", scope], timeout=6000)
    try:
        acc.violations += core.scope_validate(acc, scope, "C17", closed_only_unbound=False)
    except core.ToolError as e:
        acc.deferred_tool_error = e
    rep = core.load_json(out)
    res = core.trace_validate(acc, "Trace_UseCheck", "Trace_UseCheck.cfg", trace, "Trace_UseCheck", timeout=3000)
    cs = [json.loads(l) for l in open(cases)]
    tr = [json.loads(l) for l in open(trace)]
    acc.add_report(rep)
    acc.counts.update({f"trace_{k}": v for k, v in res["cnt"].items()})
    seen = set()
    for (l, r, b, k) in res["bad"]:
        rr = tr[l - 1]["reported"][r - 1]
        o = rr["obs"][b]
        a, c = o[2 * k - 2], o[2 * k - 1]
        differs = "value-vs-value" if a[0] == "ok" and c[0] == "ok" else "fail-vs-return"
        key = (l, r, differs)
        if key in seen:
            continue
        seen.add(key)
        acc.violations.append({"property": "C17", "kind": "reported-unused-parameter-influences-outcome", "differs": differs,
                               "source": cs[l - 1]["source"], "parameter": rr["param"], "build": b, "pair": rr["pairs"][k - 1],
                               "outcomes": [a, c], "ast": tr[l - 1]["ast"], "source_level_witness": [l, r, k] in res["badsrc"]})
    acc.counts["source_level_witnesses"] = len(res["badsrc"])
    os.remove(trace)
    os.remove(cases)


def run(tier, acc):
    acc.rule = ("generated programs with 1..8 lower-case parameters in flat, nested and dotted lists (each used directly, through "
                "helpers / inline functions / lets / lambdas / template macros, under conditions, or not at all) are given to the real "
                "check (check_unused); for every parameter it reports, 8 (thorough: 16) pairs of argument trees differing only in that "
                "parameter are run through the cl21 and cl23 builds with clvmr. Trace_UseCheck (TLC) evaluates non-interference on "
                "the observed outcomes and looks for a source-level witness with Chialisp!RunProgram on the same pairs. "
                "non-trivial = programs with at least one reported parameter")
    acc.assumptions = ["(@ name pattern) parameters are not generated (the property speaks of flat, nested and dotted lists)",
                       "clvmr is the consensus evaluator"]
    _drive(acc, 120 if tier == "quick" else 2000, 8 if tier == "quick" else 16)


def replay(path):
    rec = core.load_json(path)
    v = rec["violation"]
    # re-run the recorded pair on the recorded program
    base = {k: val for k, val in v["pair"]["base"]}
    job_text = v["source"]

    def tree(pat, val):
        if pat[0] == "pn":
            return ["a", []]
        if pat[0] == "pv":
            return val[pat[1]]
        if pat[0] == "pat":
            return tree(pat[2], val)
        return ["p", tree(pat[1], val), tree(pat[2], val)]
    alt = dict(base)
    alt[v["parameter"]] = v["pair"]["alt"]
    envs = [tree(v["ast"]["args"], base), tree(v["ast"]["args"], alt)]
    chk = json.loads(core.run_vh(["job", json.dumps({"op": "usecheck", "text": job_text})]))
    if v["parameter"] not in chk.get("reported", []):
        print("replay: the parameter is no longer reported as unused")
        return 0
    out = json.loads(core.run_vh(["job", json.dumps({"op": "compile", "text": job_text, "optimize": False, "envs": envs})]))
    runs = out.get("runs", [])
    cls = [r if r[0] == "ok" else ["fail"] for r in runs]
    if len(cls) == 2 and cls[0] != cls[1]:
        print(f"VIOLATION property=C17 replay={path}")
        print("  " + json.dumps({"parameter": v["parameter"], "outcomes": runs})[:600])
        return 1
    print("replay: the pair behaves identically now")
    return 0
