"""C19 — the compiled output file is replaced atomically."""
import json
import os
import core

LEVEL = "model_checking"
MATCHERS = {}
KINDS = ["absent", "same", "different", "readonly", "readonly_same"]
HOOKS = ["gentle.start", "gentle.read_prev", "atomic.start", "atomic.temp_created", "atomic.written", "atomic.persisted"]


def _model(acc, tier):
    nw = "{1, 2}" if tier == "quick" else "{1, 2, 3}"
    for k in KINDS:
        cfg = f"MC_AtomicWrite_run_{k}.cfg"
        with open(os.path.join(core.SPEC, cfg), "w") as f:
            f.write(f"SPECIFICATION Spec\nCONSTANTS Writers = {nw}\n NChunks = 2\n InitKind = \"{k}\"\n InPlace = FALSE\n Faults = TRUE\n OnError = \"report\"\n"
                    "INVARIANTS TargetIntact ReaderSeesComplete SameContentSucceeds OkMeansWritten FailureIsReported\nCHECK_DEADLOCK FALSE\n")
        r = core.run_tlc("AtomicWrite", cfg, f"C19_{k}", workers=8, timeout=1500)
        if not r.ok:
            raise core.ToolError(f"AtomicWrite[{k}] violates its invariants: {r.invariant_violated}\n{r.output[-2000:]}")
        req = ["ReadPrev", "CreateTemp", "Crash", "ROpen", "RRead"] if k != "absent" else ["ReadPrev", "CreateTemp", "Crash"]
        if not k.startswith("readonly"):
            req += ["WriteChunk", "Persist", "TempFails", "WriteFails"]
        acc.add_tlc(f"AtomicWrite[{k}]", r, require_actions=req)
    # non-vacuity: the in-place variant must violate TargetIntact
    r = core.run_tlc("AtomicWrite", "MC_AtomicWrite_inplace.cfg", "C19_inplace", workers=2, timeout=600, coverage=False)
    if r.ok or not r.invariant_violated:
        raise core.ToolError("the in-place variant of AtomicWrite does not violate TargetIntact: the invariant is vacuous")
    acc.notes.append("non-vacuity: AtomicWrite with InPlace=TRUE violates TargetIntact (" + str(r.distinct) + " states)")
    # ... and so must the caller that falls back to writing the target directly when the staged replacement fails
    r = core.run_tlc("AtomicWrite", "MC_AtomicWrite_fallback.cfg", "C19_fallback", workers=2, timeout=600, coverage=False)
    if r.ok or not r.invariant_violated:
        raise core.ToolError("the fall-back-in-place variant of AtomicWrite does not violate TargetIntact: the fault actions are vacuous")
    acc.notes.append("non-vacuity: AtomicWrite with Faults=TRUE, OnError=inplace violates TargetIntact (" + str(r.distinct) + " states)")


def _drive(acc, tier):
    trace = os.path.join(core.BUILD, "C19_drive.ndjson")
    out = os.path.join(core.BUILD, "C19_drive.report.json")
    args = ["drive-atomic", "--trace", trace, "--out", out, "--scratch", os.path.join(core.BUILD, "c19_scratch")]
    if tier == "thorough":
        args.append("--thorough")
    core.run_vh(args, timeout=3000)
    rep = core.load_json(out)
    res = core.trace_validate(acc, "Trace_AtomicWrite", "Trace_AtomicWrite.cfg", trace, "Trace_AtomicWrite", heap="4g")
    if len(res["bad"]) != len(rep["violations"]):
        # TLC also checks conformance of the label sequence with the model; report what it rejected
        lines = open(trace).read().splitlines()
        have = {json.dumps(v.get("scenario", v), sort_keys=True) for v in rep["violations"]}
        for i in res["bad"]:
            ev = json.loads(lines[i - 1])
            if json.dumps(ev, sort_keys=True) not in have:
                rep["violations"].append({"property": "C19", "kind": "trace-rejected", "scenario": ev})
    missing = [h for h in HOOKS if h not in res["cnt"]["reached"]]
    if missing:
        raise core.ToolError(f"crash points never reached (hook missing or moved in /repo/src/util/mod.rs): {missing}")
    acc.add_report(rep)
    acc.counts.update({f"trace_{k}": v for k, v in res["cnt"].items() if k != "reached"})
    os.remove(trace)
    return rep


def run(tier, acc):
    acc.rule = ("M: TLC explores every interleaving of 2 (thorough: 3) writers x 2 chunks x a reader with a crash action enabled at "
                "every program point and the environment's faults (the temporary file cannot be created, a write to it fails part "
                "way; the caller reports the error -- the variant that falls back to writing the target directly is refuted), for the five initial states of the target, checking TargetIntact, ReaderSeesComplete, "
                "SameContentSucceeds; the in-place variant must violate TargetIntact. R/T: the real gentle_overwrite runs in child "
                "processes with an abort at each of the 6 hook points x 5 initial states, with SIGKILL before each traced file-system "
                "call (strace), as 1..8 concurrent writers with polling readers, through compile_clvm, and (Fault records) under a file size limit that stops the staged write part way, for "
                "compile_clvm and gentle_overwrite x {different, same, absent}; Trace_AtomicWrite checks "
                "each run is a behaviour of the model's writer and the final/observed contents are complete. "
                "non-trivial = distinct (scenario, crash point) runs")
    acc.assumptions = ["POSIX rename atomicity and O_EXCL as written in AtomicWrite.tla, observed through the real kernel",
                       "read-only scenarios run the child as uid 65534 in a root-owned 0755 directory (root ignores permissions)",
                       "power-loss durability (fsync) is not part of the property"]
    _model(acc, tier)
    _drive(acc, tier)
    acc.exhaustive = True
    acc.level = "model_checking"


def replay(path):
    acc = core.Acc("C19", "quick", LEVEL)
    rep = _drive(acc, "quick")
    if acc.violations:
        print(f"VIOLATION property=C19 replay={path}")
        print("  " + json.dumps(acc.violations[0])[:600])
        return 1
    print("replay: all crash-point / concurrency scenarios pass now")
    return 0
