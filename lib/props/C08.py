"""C08 — binary (de)serialisation is lossless, canonical and rejects malformed input."""
import json
import os
import core

LEVEL = "model_checking"
MATCHERS = {}


def _cfg(name, maxlen, kind, invs):
    with open(os.path.join(core.SPEC, name), "w") as f:
        f.write(f"SPECIFICATION Spec\nCONSTANTS MaxLen = {maxlen}\n AlphabetKind = \"{kind}\"\nINVARIANTS {invs}\nCHECK_DEADLOCK FALSE\n")
    return name


def _gen_replay(acc, tag, maxlen, kind):
    cfg = _cfg(f"MC_Serialize_{tag}.cfg", maxlen, kind, "MachineConsistent Bounded")
    r = core.run_tlc("MC_Serialize", cfg, f"C08_{tag}", workers=14, timeout=3000, coverage=(maxlen <= 3))
    if not r.ok:
        raise core.ToolError(f"MC_Serialize[{tag}]: {r.invariant_violated}\n{r.output[-2000:]}")
    acc.add_tlc(f"MC_Serialize[{tag}]", r, require_actions=["Grow", "Begin", "Step", "Finish"] if maxlen <= 3 else None)
    out = os.path.join(core.BUILD, f"C08_{tag}.report.json")
    core.run_vh(["replay-serde", "--in", r.out_path, "--out", out])
    acc.add_report(core.load_json(out))
    os.remove(r.out_path)


def run(tier, acc):
    acc.rule = ("M: TLC runs the decoder machine of Serialize.tla (op stack / value stack, errors of an operation ignored as in the "
                "code) step by step on every byte string of <= MaxLen bytes over a 35-byte alphabet of format-boundary bytes "
                "(and over all 256 bytes for length <= 2), asserting DecoderSound against the reference decoder, plus RoundTrip on "
                "a tree set and the prefix classes on abstract lengths up to 2^31-1; Casts.tla is the arithmetic the prefix goes "
                "through (int_from_bytes: 4-byte words from the right, leading bytes above them), asserted positional for every "
                "length 0..8 with the weight-restarting variant refuted, its 166 probe vectors replayed into the real function. R: every enumerated string is replayed "
                "through sexp_from_stream and clvmr::serde::node_from_bytes. T: encodings of random trees and of atoms at every "
                "length class (incl. 1 MiB +-1), truncations at every offset, bit flips, trailing garbage, over-long prefixes, 5- and 6-byte prefixes announcing 2^32 .. 2^42 bytes "
                "with every size byte hot in turn, "
                "validated by Trace_Serialize. non-trivial = distinct inputs the classic decoder accepted / distinct values encoded")
    acc.assumptions = ["clvmr::serde::{node_to_bytes,node_from_bytes} are the consensus (de)serialiser",
                       "contents of multi-MiB atoms are compared by digest; the trace carries only length and prefix"]
    r = core.run_tlc("MC_Serialize", "MC_Serialize_props.cfg", "C08_props", workers=2, timeout=600)
    if not r.ok:
        raise core.ToolError(f"MC_Serialize props: {r.invariant_violated}\n{r.output[-2000:]}")
    acc.add_tlc("MC_Serialize[RoundTrips,PrefixOk]", r)
    # the arithmetic the length prefix goes through (casts.rs int_from_bytes): positional weights on the model, the
    # variant whose byte loop restarts at weight 1 refuted, every probe vector through the real function
    r = core.run_tlc("MC_Casts", "MC_Casts_restart.cfg", "C08_casts_restart", workers=1, timeout=300, coverage=False, expect_failure=True)
    if r.ok or "does not weight byte positions" not in r.output:
        raise core.ToolError("Casts: the variant that restarts the weight was not refuted (vacuous assertion)")
    r = core.run_tlc("MC_Casts", "MC_Casts_q.cfg", "C08_casts", workers=1, timeout=300, coverage=False)
    if not r.ok:
        raise core.ToolError(f"MC_Casts: {r.invariant_violated}\n{r.output[-2000:]}")
    acc.add_tlc("MC_Casts", r)
    out = os.path.join(core.BUILD, "C08_casts.report.json")
    core.run_vh(["replay-casts", "--in", r.out_path, "--out", out])
    rp = core.load_json(out)
    if rp["evaluations"] < 100:
        raise core.ToolError("MC_Casts emitted too few vectors")
    acc.add_report(rp)
    os.remove(r.out_path)
    _gen_replay(acc, "b3", 3, "boundary")
    _gen_replay(acc, "f2", 2, "full")
    if tier == "thorough":
        _gen_replay(acc, "b4", 4, "boundary")
    trace = os.path.join(core.BUILD, "C08_drive.ndjson")
    out = os.path.join(core.BUILD, "C08_drive.report.json")
    args = ["drive-serde", "--n", "300" if tier == "quick" else "4000", "--trace", trace, "--out", out]
    if tier == "thorough":
        args.append("--big")
    core.run_vh(args)
    rep = core.load_json(out)
    res = core.trace_validate(acc, "Trace_Serialize", "Trace_Serialize.cfg", trace, "Trace_Serialize")
    if res["specerr"]:
        acc.spec_errors += [{"trace_record": x} for x in res["specerr"]]
    # (one record may carry two violations: encoder differs and round trip fails)
    if (len(res["bad"]) == 0) != (len(rep["violations"]) == 0) or len(res["bad"]) > len(rep["violations"]):
        raise core.ToolError(f"trace spec and harness disagree: TLC {len(res['bad'])} vs harness {len(rep['violations'])}")
    acc.drift += len(res["drift"])
    acc.add_report(rep)
    acc.counts.update({f"trace_{k}": v for k, v in res["cnt"].items()})
    os.remove(trace)
    acc.exhaustive = True


def replay(path):
    rec = core.load_json(path)
    v = rec["violation"]
    tmp = os.path.join(core.BUILD, "C08_replay.ndjson")
    if "bytes" in v:
        with open(tmp, "w") as f:
            f.write(json.dumps({"bytes": v["bytes"]}) + "\n")
        out = os.path.join(core.BUILD, "C08_replay.report.json")
        core.run_vh(["replay-serde", "--ndjson", "--in", tmp, "--out", out])
        rep = core.load_json(out)
        if rep["violations"]:
            print(f"VIOLATION property=C08 replay={path}")
            print("  " + json.dumps(rep["violations"][0])[:600])
            return 1
        print("replay: property holds on this input now")
        return 0
    job = v.get("job") or {"op": "serde", "value": v["value"]}
    out = json.loads(core.run_vh(["job", json.dumps(job)]))
    ok = (out.get("back_ok") is True and out.get("impl_digest") == out.get("cons_digest")) if "len" in out else \
         (out.get("impl_bytes") == out.get("cons_bytes") and out.get("back", ["err"])[0] == "ok" and out["back"][1] == v["value"])
    if not ok:
        print(f"VIOLATION property=C08 replay={path}")
        print("  " + json.dumps(out)[:600])
        return 1
    print("replay: property holds on this input now")
    return 0
