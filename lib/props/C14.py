"""C14 — front ends never crash: any input yields a result or a located error."""
import json
import os
import re
import core

LEVEL = "exploration"


def m_classic_recursive_macro(v, params):
    # the classic compiler (no dialect sigil) expands a defmacro whose template calls the macro itself until the allocator
    # is exhausted (minutes): a timeout, or the panic of an unwrap on TooManyPairs
    t = v.get("text", "")
    m = re.search(r"\(defmacro (\w+) ", t)
    slow = v["kind"] == "entry-point-timeout" or (v["kind"] == "entry-point-panic" and "TooManyPairs" in json.dumps(v.get("observed")))
    return slow and v["entry"] in ("compile", "run", "brun", "cldb", "preprocess") and "(include *" not in t \
        and m is not None and re.search(r"\(defmacro " + re.escape(m.group(1)) + r" .*\(" + re.escape(m.group(1)) + r"[ )]", t) is not None


def m_usecheck_constant_recursion(v, params):
    # the unused-argument check evaluates a call whose arguments are constants by unfolding the function; when the function
    # calls itself with constants that never reach its base case, e.g. (defun G (Q R) (if Q (G (- 1) ..) ..)) (a token
    # deleted from (- Q 1)), every level is evaluated twice and the depth limit of 200 levels is never reached in practice
    if not (v["kind"] == "entry-point-timeout" and v["entry"] == "usecheck"):
        return False
    t = " ".join(v.get("text", "").split())
    t = re.sub(r"\( ", "(", re.sub(r" \)", ")", t))
    for m in re.finditer(r"\(defun(?:-inline)? (\w+) ", t):
        name = m.group(1)
        body = t[m.end():]
        # a call of the function to itself whose first argument is a closed form: (G (- 1) ..), (G 5 ..), (G (+ 1 2) ..)
        if re.search(r"\(" + re.escape(name) + r" (?:-?\d+|\((?:[-+*]|logand|logior|lognot|not) (?:-?\d+ ?)+\))[ )]", body):
            return True
    return False


MATCHERS = {"classic_recursive_macro": m_classic_recursive_macro, "usecheck_constant_recursion": m_usecheck_constant_recursion}


def _drive(acc, n):
    trace = os.path.join(core.BUILD, "C14_drive.ndjson")
    out = os.path.join(core.BUILD, "C14_drive.report.json")
    core.run_vh(["drive-frontend", "--n", str(n), "--trace", trace, "--out", out, "--scratch", os.path.join(core.BUILD, "c14_scratch")], timeout=20000)
    rep = core.load_json(out)
    res = core.trace_validate(acc, "Trace_ToolProtocol", "Trace_ToolProtocol.cfg", trace, "Trace_ToolProtocol", timeout=3000)
    lines = None
    ncrash = len([b for b in res["bad"] if b[1] == "crash"])
    if ncrash != len(rep["violations"]):
        raise core.ToolError(f"trace spec and harness disagree on crashes: TLC {ncrash} vs harness {len(rep['violations'])}")
    for (l, why) in res["bad"]:
        if why == "location":
            if lines is None:
                lines = open(trace).read().splitlines()
            rep["violations"].append({"property": "C14", "kind": "error-location-outside-its-text", "record": json.loads(lines[l - 1])})
    acc.add_report(rep)
    acc.counts.update({f"trace_{k}": v for k, v in res["cnt"].items()})
    os.remove(trace)


def run(tier, acc):
    acc.rule = ("inputs: valid generated programs (every sigil) and shipped programs, every kind of single-token deletion / duplication / "
                "adjacent swap and truncations at byte offsets of them, token soup over the language's keywords and delimiters, random "
                "bytes and random serialisation prefixes, REPL lines whose parenthesis count differs from their structure, nesting up to "
                "200; programs with include files of every degenerate kind (empty, comment-only, unbalanced, binary, including "
                "themselves or each other) reached by include and the three kinds of embed-file; compile-time code that does not "
                "terminate (defmac / defmacro / constant bodies); applied path atoms of every sign and width; source texts whose "
                "columns and bytes part ways (tabs, wide characters) under the debugger with the source at hand (entry cldb-file); "
                "k constant calls per helper body in 1..3 helpers under five dialects; each input goes to 11 entry points (compile, assemble, disassemble, deserialise, brun, run, cldb, preprocess -E, "
                "dependency listing, unused-argument check, REPL) in a worker child process under catch_unwind and a 30 s limit. "
                "Trace_ToolProtocol (TLC) evaluates: no panic / abort / timeout, and every located error of the modern compiler names "
                "the input or a built-in pseudo-file and lies within that text (LocWithin). non-trivial = distinct (entry, input)")
    acc.assumptions = ["the specification states the protocol and the location oracle; why the deeper compiler phases do not panic is observed, not modelled",
                       "nesting <= 200"]
    _drive(acc, 30 if tier == "quick" else 101)


def replay(path):
    rec = core.load_json(path)
    v = rec["violation"]
    if "bytes" not in v:
        print("replay: not an input-level record")
        return 0
    import subprocess
    p = subprocess.run(["timeout", "60", core.VH, "job", json.dumps({"op": "frontend", "entry": v["entry"], "bytes": v["bytes"], "scratch": core.BUILD, "files": v.get("files", {})})],
                       stdout=subprocess.PIPE, stderr=subprocess.PIPE, text=True)
    out = p.stdout.strip().splitlines()[-1] if p.stdout.strip() else ""
    if p.returncode != 0 or '"panic"' in out:
        print(f"VIOLATION property=C14 replay={path}")
        print(f"  entry {v['entry']} rc={p.returncode} {out[:300]}")
        return 1
    print("replay: the entry point answers this input now")
    return 0
