"""Shared by C04 / C06: TLC term generators + replay through the real code."""
import json
import os
import core


def write_cfg(name, maxlen, profile, envset, extra="NoExtra", variant=None):
    path = os.path.join(core.SPEC, name)
    with open(path, "w") as f:
        f.write(f"SPECIFICATION Spec\nCONSTANTS MaxLen = {maxlen}\n Profile = \"{profile}\"\n EnvSet = \"{envset}\"\n ExtraCheck <- {extra}\n")
        if variant:
            f.write(f" Variant = \"{variant}\"\n")
        f.write("CHECK_DEADLOCK FALSE\n")
    return name


def gen_and_replay(acc, tag, maxlen, profile, envset, prop, workers=14, module="MC_ClvmGen", extra="NoExtra"):
    cfg = write_cfg(f"{module}_{tag}.cfg", maxlen, profile, envset, extra=extra, variant="faithful" if module == "MC_OptGen" else None)
    r = core.run_tlc(module, cfg, f"{acc.prop}_{tag}", workers=workers, timeout=3000)
    if not r.ok:
        raise core.ToolError(f"TLC reported an error on {module}/{tag}: {r.invariant_violated}\n{r.output[-2500:]}")
    acc.add_tlc(f"{module}[{tag}]", r, require_actions=["Add", "Emit"])
    out = os.path.join(core.BUILD, f"{acc.prop}_{tag}.report.json")
    core.run_vh(["replay-clvm", "--in", r.out_path, "--out", out, "--prop", prop])
    rep = core.load_json(out)
    acc.add_report(rep)
    os.remove(r.out_path)
    return rep


def drive_and_validate(acc, n, prop, opzoo=True):
    """T direction: random driver over the real code, trace validated by TLC (Trace_Clvm)."""
    trace = os.path.join(core.BUILD, f"{acc.prop}_drive.ndjson")
    out = os.path.join(core.BUILD, f"{acc.prop}_drive.report.json")
    args = ["drive-clvm", "--n", str(n), "--trace", trace, "--out", out]
    if opzoo:
        args.append("--opzoo")
    core.run_vh(args)
    rep = core.load_json(out)
    rep["violations"] = [v for v in rep["violations"] if v["property"] == prop]
    res = core.trace_validate(acc, "Trace_Clvm", "Trace_Clvm.cfg", trace, "Trace_Clvm")
    if res["specerr"]:
        acc.spec_errors += [{"trace_record": x, "file": trace} for x in res["specerr"]]
    bad = res["bad04"] if prop == "C04" else res["bad06"]
    # TLC is the judge of the trace; the harness-side decision must agree with it
    if len(bad) != len(rep["violations"]):
        raise core.ToolError(f"trace spec and harness disagree on the number of {prop} violations: "
                             f"TLC {len(bad)} vs harness {len(rep['violations'])}")
    if prop == "C04" and res.get("badrule"):
        lines = open(trace).read().splitlines()
        for l in res["badrule"][:20]:
            r = json.loads(lines[l - 1])
            rep["violations"].append({"property": "C04", "kind": "path-composition-rule", "case": {"prog": r["prog"], "env": r["env"]},
                                      "optimized": r["opt"][1], "what": "the optimiser answered a first/rest chain over a path atom with an atom denoting other steps"})
    if prop == "C06":
        # both lists are in record order: the i-th harness violation is TLC's i-th bad record
        expl = set(res.get("explained", []))
        for v, l in zip(rep["violations"], sorted(bad)):
            v["model_explains"] = l in expl
    acc.drift += len(res["drift"])
    for d in res["drift"][:3]:
        acc.drift_samples.append({"trace_record": d, "what": "ClvmStepper model outcome differs from the observed stepper"})
    acc.add_report(rep)
    acc.counts.update({f"trace_{k}": v for k, v in res["cnt"].items()})
    os.remove(trace)
    return res


def replay_case(path, prop):
    rec = core.load_json(path)
    v = rec["violation"]
    case = v["case"]
    tmp = os.path.join(core.BUILD, "replay_case.ndjson")
    with open(tmp, "w") as f:
        f.write(json.dumps({"prog": case["prog"], "env": case["env"]}) + "\n")
    out = os.path.join(core.BUILD, "replay_case.report.json")
    core.run_vh(["replay-clvm", "--ndjson", "--in", tmp, "--out", out, "--prop", prop])
    rep = core.load_json(out)
    vs = [x for x in rep["violations"] if x["property"] == prop]
    if vs:
        print(f"VIOLATION property={prop} replay={path}")
        print("  " + json.dumps({k: vs[0][k] for k in vs[0] if k != "case"})[:800])
        return 1
    print(f"replay {path}: property {prop} holds on this case now")
    return 0


def contains_headform(v):
    """does the CLVM value (JSON) contain a pair whose first element is a pair of the shape (X . nil)?"""
    stack = [v]
    while stack:
        x = stack.pop()
        if x[0] == "p":
            if x[1][0] == "p":
                return True
            stack.append(x[1])
            stack.append(x[2])
    return False
