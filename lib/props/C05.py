"""C05 — compilation is a pure function of source, include files and options."""
import json
import os
import core

LEVEL = "model_checking"
MATCHERS = {}
LEAKS = ["order", "text", "mode", "noguard", "hash"]


def _cfg(name, leak, maxjobs, restarts, invs):
    with open(os.path.join(core.SPEC, name), "w") as f:
        f.write(f"SPECIFICATION Spec\nCONSTANTS Threads = {{1, 2}}\n Jobs <- MCJobs\n StartCtrs = {{8, 98}}\n Leak = \"{leak}\"\n"
                f" MaxJobs = {maxjobs}\n MaxRestarts = {restarts}\nINVARIANTS {invs}\nCHECK_DEADLOCK FALSE\n")
    return name


def _drive(acc, tier, hist_out):
    trace = os.path.join(core.BUILD, "C05_drive.ndjson")
    out = os.path.join(core.BUILD, "C05_drive.report.json")
    args = ["drive-history", "--trace", trace, "--out", out, "--scratch", os.path.join(core.BUILD, "c05_scratch"),
            "--tlc-histories", "60" if tier == "quick" else "600", "--random-histories", "40" if tier == "quick" else "400",
            "--gen-programs", "600" if tier == "quick" else "3000"]
    if hist_out:
        args += ["--hist", hist_out]
    core.run_vh(args, timeout=6000)
    rep = core.load_json(out)
    res = core.trace_validate(acc, "Trace_CompileHistory", "Trace_CompileHistory.cfg", trace, "Trace_CompileHistory", heap="4g")
    tlc_bad = len(res["badpure"]) + len(res["badmode"])
    if (tlc_bad == 0) != (len([v for v in rep["violations"] if v["kind"] in ("output-depends-on-history", "integer-mode-not-restored")]) == 0):
        raise core.ToolError(f"trace spec and harness disagree: TLC badpure={len(res['badpure'])} badmode={len(res['badmode'])} "
                             f"vs harness {len(rep['violations'])}")
    if res["badctr"]:
        acc.drift += len(res["badctr"])
    acc.add_report(rep)
    acc.counts.update({f"trace_{k}": v for k, v in res["cnt"].items()})
    acc.counts["trace_keys"] = res["keys"]
    os.remove(trace)


def run(tier, acc):
    acc.rule = ("M: CompileHistory.tla (global fresh-name counter, per-thread integer mode with RAII guard, 2 threads, 5 job classes "
                "incl. failing ones and one that installs no mode, process restarts with other starting counter/mode); TLC checks Pure "
                "and ModeRestored over all interleavings of <= 2 jobs + 1 restart, and that each leak variant (name order, name text, "
                "inherited mode, guard not dropped on error, hash-set iteration order) violates them. R: TLC-enumerated 3-job histories are instantiated with "
                "concrete programs and executed each in a fresh process (own hash seeds) with ARGNAME_CTR and the thread mode preset. "
                "T: boundary histories (counters 0 8 9 98 99 998 99998, both modes, failed/other-dialect compile before, main vs spawned "
                "thread, 1..8 concurrent threads) over generated and shipped programs; Trace_CompileHistory folds the observations into "
                "the out relation; generated programs (half of them rich in repeated subexpressions) are compiled alone in five fresh processes "
                "(own hash seeds) under the counters 0 8 98 998 99998. non-trivial = distinct jobs (source+options) observed in more than one history")
    acc.assumptions = ["entries of the symbol table that name compiler-synthesised helpers are compared up to the numeric suffix after _$_",
                       "thread interleaving inside a phase is left to the OS scheduler (no hook at gensym granularity)"]
    r = core.run_tlc("MC_CompileHistory", _cfg("MC_CompileHistory_run_none.cfg", "none", 2, 1, "Pure ModeRestored"), "C05_none", workers=12, timeout=1500)
    if not r.ok:
        raise core.ToolError(f"CompileHistory[none] violated: {r.invariant_violated}")
    acc.add_tlc("CompileHistory[design]", r, require_actions=["Begin", "Gensym", "End", "Restart"])
    for leak in LEAKS:
        rl = core.run_tlc("MC_CompileHistory", _cfg(f"MC_CompileHistory_run_{leak}.cfg", leak, 2, 1, "Pure ModeRestored"), f"C05_{leak}",
                          workers=8, timeout=900, coverage=False)
        if rl.ok or not rl.invariant_violated:
            raise core.ToolError(f"leak variant {leak} does not violate Pure/ModeRestored: the invariants are vacuous")
    acc.notes.append("non-vacuity: each of the leak variants order/text/mode/noguard violates Pure or ModeRestored in the model")
    re_ = core.run_tlc("MC_CompileHistory", _cfg("MC_CompileHistory_run_emit.cfg", "none", 3, 0, "Pure ModeRestored EmitHistories"), "C05_emit",
                       workers=12, timeout=1500, coverage=False)
    if not re_.ok:
        raise core.ToolError(f"CompileHistory[emit] violated: {re_.invariant_violated}")
    acc.add_tlc("CompileHistory[histories]", re_)
    _drive(acc, tier, re_.out_path)
    os.remove(re_.out_path)


def replay(path):
    acc = core.Acc("C05", "quick", LEVEL)
    _drive(acc, "quick", None)
    rec = core.load_json(path)
    job = rec["violation"].get("job")
    vs = [v for v in acc.violations if job is None or v.get("job") == job]
    if vs:
        print(f"VIOLATION property=C05 replay={path}")
        print("  " + json.dumps(vs[0])[:700])
        return 1
    print("replay: no history dependence observed for this job now")
    return 0
