"""C07 — rich values and CLVM values convert without loss; hashes agree."""
import os
import core

LEVEL = "model_checking"
MATCHERS = {}


def _cfg(name, full, boundary, invs=""):
    with open(os.path.join(core.SPEC, name), "w") as f:
        f.write(f"SPECIFICATION Spec\nCONSTANTS FullLen = {full}\n BoundaryLen = {boundary}\n")
        if invs:
            f.write(f"INVARIANTS {invs}\n")
        f.write("CHECK_DEADLOCK FALSE\n")
    return name


def run(tier, acc):
    acc.rule = ("M: RichValues.tla transcribes convert_from_clvm_rs / convert_to_clvm_rs / SExp::equal_to; TLC checks RoundTrip for "
                "every atom of <= 2 bytes (all 65 793) and every 3-byte (thorough: 4-byte) atom over an 18-byte boundary alphabet in "
                "both integer modes, and EqIffSameEncoding over all pairs of spellings of 14 boundary atoms. R: each atom is converted "
                "by the real functions alone, in head position and as an improper tail; round trip, the three tree hashes (rich, "
                "classic, clvmr) and ==/Hash vs encoding equality are evaluated on observed values. T: random longer atoms and trees, "
                "validated by Trace_Rich with the hash as an uninterpreted injective function. non-trivial = distinct (value, mode)")
    acc.assumptions = ["clvmr::serde::tree_hash_from_stream is the consensus tree hash",
                       "SHA-256 itself is not modelled: the hash clause is agreement of three implementations + functional/injective consistency",
                       "Integer 0 is excluded from the equality clause: neither the reader nor the conversion produces it in the fixed mode"]
    cfg = _cfg("MC_Rich_run.cfg", 2, 3 if tier == "quick" else 4)
    r = core.run_tlc("MC_Rich", cfg, "C07_atoms", workers=14, timeout=3000)
    if not r.ok:
        raise core.ToolError(f"MC_Rich: {r.invariant_violated}\n{r.output[-2000:]}")
    acc.add_tlc("MC_Rich[atoms]", r, require_actions=["Grow", "Emit"])
    r2 = core.run_tlc("MC_Rich", "MC_Rich_pairs.cfg", "C07_pairs", workers=1, timeout=600, coverage=False)
    if not r2.ok:
        raise core.ToolError(f"MC_Rich pairs: {r2.invariant_violated}\n{r2.output[-2000:]}")
    acc.add_tlc("MC_Rich[EqClause]", r2)
    out = os.path.join(core.BUILD, "C07_replay.report.json")
    core.run_vh(["replay-rich", "--in", r.out_path, "--pairs", r2.out_path, "--out", out])
    acc.add_report(core.load_json(out))
    os.remove(r.out_path)
    os.remove(r2.out_path)
    trace = os.path.join(core.BUILD, "C07_drive.ndjson")
    out = os.path.join(core.BUILD, "C07_drive.report.json")
    core.run_vh(["drive-rich", "--n", "400" if tier == "quick" else "6000", "--trace", trace, "--out", out])
    rep = core.load_json(out)
    res = core.trace_validate(acc, "Trace_Rich", "Trace_Rich.cfg", trace, "Trace_Rich")
    if len(res["bad"]) != len(set((v["value"].__repr__(), v["fixed"]) for v in rep["violations"])) and len(res["bad"]) != len(rep["violations"]):
        raise core.ToolError(f"trace spec and harness disagree: TLC {len(res['bad'])} vs harness {len(rep['violations'])}")
    acc.drift += len(res["drift"])
    acc.add_report(rep)
    os.remove(trace)
    acc.exhaustive = True


def replay(path):
    import json
    rec = core.load_json(path)
    v = rec["violation"]
    if "x" in v:
        out = json.loads(core.run_vh(["job", json.dumps({"op": "rich", "x": v["x"], "y": v["y"]})]))
        bad = out.get("eq") != out.get("enc_eq") or (out.get("eq") and not out.get("hash_eq"))
    else:
        out = json.loads(core.run_vh(["job", json.dumps({"op": "rich", "value": v["value"], "fixed": v["fixed"]})]))
        bad = not out.get("back_same") or not (out.get("h_rich") == out.get("h_classic") == out.get("h_clvmr"))
    if bad:
        print(f"VIOLATION property=C07 replay={path}")
        print("  " + json.dumps(out)[:600])
        return 1
    print("replay: property holds on this input now")
    return 0
