"""C18 — the dependency listing names every file a compilation reads."""
import json
import os
import re
import core

LEVEL = "model_checking"


def m_classic_embed_in_include(v, params):
    # classic (no sigil) program whose *included* file itself contains an include or embed-file form: the listing, which
    # always runs the modern non-strict front end, fails with "unknown keyword in helper" (nested includes are only
    # understood by the classic compiler and the strict dialects) while the classic compiler compiles and reads the files
    return (v["kind"] == "read-but-not-listed" and v["case"]["sigil"] == "" and v["listed"] == []
            and "unknown keyword in helper" in (v.get("listing_error") or "")
            and any(len(forms) > 0 for (_, _, forms) in v["case"]["files"]))


def m_classic_dead_nested_missing(v, params):
    # classic (no sigil) program in which a function nobody calls contains a (mod ...) expression that includes a file
    # which exists nowhere on the search path: the classic compiler never looks at that function and compiles; the listing
    # (modern front end, which parses every function) stops with "could not find <name> to include" and names nothing.
    # The error must be truthful: no file of that name in any directory of the search path.
    m = re.search(r"could not find (\S+) to include", v.get("listing_error") or "")
    if not (v["kind"] == "read-but-not-listed" and v["case"]["sigil"] == "" and v["listed"] == [] and m):
        return False
    name = m.group(1)
    on_path = any(d in v["case"]["path"] and n == name for (d, n, _) in v["case"]["files"])

    # (the compilation succeeded although the file does not exist: only a function the classic compiler skipped can have
    # asked for it -- such functions come from the nested forms of included files)
    def has_nested(forms):
        return any(f[0] == "nested" for f in forms)
    return (not on_path) and any(has_nested(forms) for (_, _, forms) in v["case"]["files"])


MATCHERS = {"classic_embed_in_include": m_classic_embed_in_include, "classic_dead_nested_missing": m_classic_dead_nested_missing}


def _drive(acc, tier, vec):
    trace = os.path.join(core.BUILD, "C18_drive.ndjson")
    out = os.path.join(core.BUILD, "C18_drive.report.json")
    args = ["drive-includes", "--trace", trace, "--out", out, "--scratch", os.path.join(core.BUILD, "c18_scratch"),
            "--model-cases", "150" if tier == "quick" else "2500", "--random-cases", "60" if tier == "quick" else "800"]
    if vec:
        args += ["--in", vec]
    core.run_vh(args, timeout=6000)
    rep = core.load_json(out)
    if rep["counts"].get("tool_errors", 0) > 0 and rep["traces"] == 0:
        raise core.ToolError("strace is not usable: the files a compilation reads cannot be observed")
    res = core.trace_validate(acc, "Trace_Includes", "Trace_Includes.cfg", trace, "Trace_Includes", heap="4g")
    if len(res["bad"]) != len(set(json.dumps(v["case"], sort_keys=True) for v in rep["violations"])):
        raise core.ToolError(f"trace spec and harness disagree: TLC {len(res['bad'])} vs harness {len(rep['violations'])}")
    acc.drift += len(res["drift"])
    acc.add_report(rep)
    acc.counts.update({f"trace_{k}": v for k, v in res["cnt"].items()})
    os.remove(trace)


def run(tier, acc):
    acc.rule = ("M: Includes.tla (file system: (dir, name) -> forms, search path, first-match resolution, the compiler's recursive walk "
                "and the listing's walk); TLC asserts ListingComplete and ListingResolves for every file system of <= 2 (thorough: 3) "
                "files over 3 names x 2 directories x 3 search-path orders x 3 main programs. R: model configurations are materialised "
                "on disk; gather_dependencies is called and the files a real compilation opens are observed with strace. T: random "
                "graphs of depth 0..4 with includes reachable only through includes, embed-file bin/hex/sexp, the same name in several "
                "directories, all five sigils incl. classic; Trace_Includes evaluates reads <= listed and first-match on the "
                "observations. non-trivial = distinct configurations in which the compilation read at least one file")
    acc.assumptions = ["strace observes every successful open of a file under the scratch directory",
                       "only compilations that succeed are judged (a failing one has no outputs to keep current)"]
    cfg = "MC_Includes_run.cfg"
    with open(os.path.join(core.SPEC, cfg), "w") as f:
        f.write(f"SPECIFICATION Spec\nCONSTANTS MaxFiles = {2 if tier == 'quick' else 3}\nCHECK_DEADLOCK FALSE\n")
    r = core.run_tlc("MC_Includes", cfg, "C18_model", workers=14, timeout=3000, coverage=(tier == "quick"))
    if not r.ok:
        raise core.ToolError(f"MC_Includes: {r.invariant_violated}\n{r.output[-2000:]}")
    acc.add_tlc("MC_Includes", r, require_actions=["AddFile", "Emit"] if tier == "quick" else None)
    _drive(acc, tier, r.out_path)
    os.remove(r.out_path)


def replay(path):
    acc = core.Acc("C18", "quick", LEVEL)
    _drive(acc, "quick", None)
    fresh = [v for v in acc.violations if not (m_classic_embed_in_include(v, {}) or m_classic_dead_nested_missing(v, {}))]
    if fresh:
        print(f"VIOLATION property=C18 replay={path}")
        print("  " + json.dumps(fresh[0])[:700])
        return 1
    print("replay: no unlisted read observed now")
    return 0
