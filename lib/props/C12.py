"""C12 — the debugger's trace is a faithful account of the real execution."""
import json
import os
import core
from props import clvmcommon as cc

LEVEL = "model_checking"


def m_apply_if_rows(v, params):
    # the operators a (2) and i (3) produce no result event of their own in the step machine (a is a tail call, i
    # returns its choice directly to the parent): the row opened for them is closed by the next value computed by
    # *another* evaluation, so it pairs the operator and its arguments with a foreign value
    # On the terms TLC enumerates (family "replay") the row assembler of the specification must produce exactly the observed
    # rows for the disagreement to count as this finding; on random raw CLVM and compiled programs the model is not exact
    # about what is emitted before a failure (counted as drift), there the operator of the false rows decides
    return v["kind"] == "false-row" and all(r["op"] in (["a", [2]], ["a", [3]]) for r in v["false_rows"]) and \
        (v.get("family") not in ("replay", "hier-replay") or v.get("model_explains") in ("yes", "unknown"))


def m_headform(v, params):
    # C06-K1 seen through the debugger: a form whose head is a pair
    # (enumerated terms: the specification's rows must equal the observed ones; random programs: the head form must be in
    # the program itself, data in the environment is only a head form if it is applied, and then the program has an a)
    if v["kind"] not in ("terminal-row-differs", "false-row"):
        return False
    if v.get("family") == "replay":
        return v.get("model_explains") in ("yes", "unknown") and (cc.contains_headform(v["case"]["prog"]) or cc.contains_headform(v["case"]["env"]))
    return cc.contains_headform(v["case"]["prog"])


MATCHERS = {"apply_if_rows": m_apply_if_rows, "headform": m_headform}


def _validate(acc, trace, rep, name):
    res = core.trace_validate(acc, "Trace_Cldb", "Trace_Cldb.cfg", trace, name, timeout=3000)
    if res["specerr"]:
        acc.spec_errors += [{"trace_record": x[0], "rows": x[1]} for x in res["specerr"]]
    lines = open(trace).read().splitlines()
    for (l, why) in res["bad"]:
        ev = json.loads(lines[l - 1])
        case = {"prog": ev["prog"], "env": ev["env"]}
        if why["false_rows"]:
            if why.get("model_explains") == "no":
                acc.drift += 1
            rep["violations"].append({"property": "C12", "kind": "false-row", "case": case, "model_explains": why.get("model_explains"), "family": name,
                                      "false_rows": [ev["rows"][i - 1] for i in why["false_rows"]], "consensus": ev["cons"]})
        if not why["numbering"]:
            rep["violations"].append({"property": "C12", "kind": "rows-not-consecutive", "case": case, "rows": [r["row"] for r in ev["rows"]]})
        if not why["terminal"]:
            rep["violations"].append({"property": "C12", "kind": "terminal-row-differs", "case": case, "consensus": ev["cons"], "model_explains": why.get("model_explains"), "family": name,
                                      "last": ev["rows"][-1] if ev["rows"] else None})
    acc.add_report(rep)
    for k, v in res["cnt"].items():
        acc.counts[f"{name}_{k}"] = v
    os.remove(trace)


def _validate_hier(acc, trace, rep, name):
    """hierarchical (-t) view: Trace_Hier judges the events of the real HierarchialRunner"""
    res = core.trace_validate(acc, "Trace_Hier", "Trace_Hier.cfg", trace, name, timeout=3000)
    lines = open(trace).read().splitlines()
    for (l, why) in res["bad"]:
        ev = json.loads(lines[l - 1])
        case = {"prog": ev["prog"], "env": ev["env"], "symbols": ev["symbols"], "view": "hierarchical"}
        common = {"property": "C12", "case": case, "model_explains": why.get("model_explains"), "family": name, "consensus": ev["cons"]}
        E = ev["events"]
        if why["false_rows"]:
            rep["violations"].append(dict(common, kind="false-row", false_rows=[E[i - 1] for i in why["false_rows"]]))
        if not why["terminal"]:
            infos = [x for x in E if x["k"] == "info"]
            rep["violations"].append(dict(common, kind="hier-terminal-row-differs", last=infos[-1] if infos else None))
        if not why["finishes"] or why["end"] == "error":
            rep["violations"].append(dict(common, kind="hier-does-not-finish", end=why["end"], steps=ev.get("limit"), flat_steps=ev.get("flat_steps")))
        if why["bad_calls"]:
            rep["violations"].append(dict(common, kind="hier-frame-misdescribed", frames=[E[i - 1] for i in why["bad_calls"]], syms=ev["syms"]))
        if why["bad_returns"]:
            rep["violations"].append(dict(common, kind="hier-frame-returns-other-value", returns=[E[i - 1] for i in why["bad_returns"]]))
        if not why["depthok"]:
            rep["violations"].append(dict(common, kind="hier-stack-underflow"))
    acc.drift += res["cnt"]["unexplained"]
    for d in res.get("drift", [])[:3]:
        acc.drift_samples.append({"view": "hierarchical", "trace_record": d[0], "first_differing_event": d[1], "model": d[2], "observed": d[3]})
    acc.add_report(rep)
    for k, v in res["cnt"].items():
        acc.counts[f"{name}_{k}"] = v
    os.remove(trace)


def run_hier(tier, acc):
    # M: the frame machine of Hierarchy.tla on every enumerated term under three symbol tables; the variant that takes
    # an apply with a surplus argument for a call (the code before its repair) must be refuted (non-vacuity)
    n = 4 if tier == "quick" else 5
    for (cfgname, loose) in (("MC_HierGen_hier.cfg", False), ("MC_HierGen_loosev.cfg", True)):
        with open(os.path.join(core.SPEC, cfgname), "w") as f:
            f.write(f"SPECIFICATION Spec\nCONSTANTS MaxLen = {n if not loose else 5}\n Profile = \"hier\"\n EnvSet = \"hier\"\n ExtraCheck <- HierCheck\n"
                    + (" LooseArity <- Loose\n" if loose else "") + "CHECK_DEADLOCK FALSE\n")
        r = core.run_tlc("MC_HierGen", cfgname, "C12_hier_loose" if loose else "C12_hier", workers=14, timeout=3000, coverage=False, heap="16g", expect_failure=loose)
        if loose:
            if r.ok or "extra check" not in r.output:
                raise core.ToolError("Hierarchy model: the variant that calls through an apply with a surplus argument was not refuted (vacuous assertion)")
            acc.counts["hier_loose_variant_refuted"] = 1
            if os.path.exists(r.out_path):
                os.remove(r.out_path)
            continue
        if not r.ok:
            raise core.ToolError(f"Hierarchy model: {r.invariant_violated}\n{r.output[-2500:]}")
        acc.add_tlc("MC_HierGen", r)
        trace = os.path.join(core.BUILD, "C12_hier_replay.ndjson")
        out = os.path.join(core.BUILD, "C12_hier_replay.report.json")
        core.run_vh(["replay-hier", "--in", r.out_path, "--trace", trace, "--out", out, "--every", "1" if tier == "quick" else "4"], timeout=3000)
        os.remove(r.out_path)
        rp = core.load_json(out)
        if rp["evaluations"] == 0:
            raise core.ToolError("vacuous model run: no hierarchy vector was emitted")
        _validate_hier(acc, trace, rp, "hier-replay")
    if tier == "thorough":
        # model only, one token deeper (measured: 409 737 states in 2 min 46 s, no error)
        with open(os.path.join(core.SPEC, "MC_HierGen_deep.cfg"), "w") as f:
            f.write("SPECIFICATION Spec\nCONSTANTS MaxLen = 6\n Profile = \"hier\"\n EnvSet = \"hier\"\n ExtraCheck <- HierCheck\nCHECK_DEADLOCK FALSE\n")
        r = core.run_tlc("MC_HierGen", "MC_HierGen_deep.cfg", "C12_hier_deep", workers=14, timeout=3000, coverage=False, heap="16g")
        if not r.ok:
            raise core.ToolError(f"Hierarchy model (MaxLen 6): {r.invariant_violated}\n{r.output[-2500:]}")
        acc.add_tlc("MC_HierGen[MaxLen 6]", r)
        if os.path.exists(r.out_path):
            os.remove(r.out_path)
    trace = os.path.join(core.BUILD, "C12_hier_drive.ndjson")
    out = os.path.join(core.BUILD, "C12_hier_drive.report.json")
    core.run_vh(["drive-hier", "--n", "120" if tier == "quick" else "1500", "--trace", trace, "--out", out], timeout=3000)
    rp = core.load_json(out)
    if rp["counts"].get("runs_with_function_frames", 0) == 0:
        raise core.ToolError("hierarchical view: no run showed a function frame")
    _validate_hier(acc, trace, rp, "hier-drive")


def run(tier, acc):
    acc.rule = ("M: Cldb.tla puts the debugger's row assembler on top of the ClvmStepper machine; on every term enumerated for C06 TLC "
                "asserts that the final row is the big-step result (failure row iff the semantics fails) and that only apply rows can "
                "be false (the known deviation). R: the enumerated (term, environment) pairs are stepped with the real CldbRun; "
                "T: random raw CLVM and compiled generated programs of every dialect, each run from source form and from hex "
                "(hex_to_modern_sexp). For every emitted row the structured operator/arguments/value are taken from the step state "
                "and clvmr is asked about (op (q . a1) ..); Trace_Cldb checks row numbering, truth of every row, the terminal row "
                "against clvmr on the whole program, and hex = source row by row. Hierarchical (-t) view: Hierarchy.tla is the frame "
                "machine of HierarchialRunner::step (Return / Call / Step) over one row assembler per frame; TLC asserts on every "
                "enumerated term under three symbol tables that the last row is the big-step result, that every function frame "
                "returns the big-step value of (code, argument) and that the view without symbols is the flat debugger; the real "
                "runner is stepped on the same terms and on compiled programs with the compiler's symbol tables and Trace_Hier "
                "checks termination, terminal row, truth of rows, frame names / arguments / returned values, and that the model "
                "reproduces the event sequence. non-trivial = distinct (program, environment) runs")
    acc.assumptions = ["clvmr is the consensus evaluator", "locations are not compared between the hex and the source run",
                       "hierarchical (-t) view: frame names and arguments are judged against the symbol table the compiler reported (C13 judges that table)"]
    n = 3 if tier == "quick" else 4
    cfg = cc.write_cfg("MC_CldbGen_cldb.cfg", n + 1 if tier == "quick" else n + 1, "stepper", "clean", extra="CldbCheck")
    r = core.run_tlc("MC_CldbGen", cfg, "C12_model", workers=14, timeout=3000, coverage=False, heap="16g")
    if not r.ok:
        raise core.ToolError(f"Cldb model: {r.invariant_violated}\n{r.output[-2500:]}")
    acc.add_tlc("MC_CldbGen", r)
    trace = os.path.join(core.BUILD, "C12_replay.ndjson")
    out = os.path.join(core.BUILD, "C12_replay.report.json")
    core.run_vh(["replay-cldb", "--in", r.out_path, "--trace", trace, "--out", out], timeout=3000)
    os.remove(r.out_path)
    rp = core.load_json(out)
    if rp["evaluations"] == 0:
        raise core.ToolError("vacuous model run: no vector was emitted")
    _validate(acc, trace, rp, "replay")
    trace = os.path.join(core.BUILD, "C12_drive.ndjson")
    out = os.path.join(core.BUILD, "C12_drive.report.json")
    core.run_vh(["drive-cldb", "--n", "400" if tier == "quick" else "6000", "--trace", trace, "--out", out], timeout=3000)
    _validate(acc, trace, core.load_json(out), "drive")
    run_hier(tier, acc)


def replay(path):
    rec = core.load_json(path)
    v = rec["violation"]
    if v["case"].get("view") == "hierarchical":
        tmp = os.path.join(core.BUILD, "C12_replay_one.ndjson")
        with open(tmp, "w") as f:
            f.write(json.dumps({"prog": v["case"]["prog"], "env": v["case"]["env"], "symbols": v["case"]["symbols"]}) + "\n")
        trace = os.path.join(core.BUILD, "C12_replay_one.trace")
        out = os.path.join(core.BUILD, "C12_replay_one.report.json")
        core.run_vh(["replay-hier", "--ndjson", "--in", tmp, "--trace", trace, "--out", out])
        acc = core.Acc("C12", "quick", LEVEL)
        _validate_hier(acc, trace, core.load_json(out), "hier-replay")
        vs = [x for x in acc.violations if x["kind"] == v["kind"]]
        if vs:
            print(f"VIOLATION property=C12 replay={path}")
            print("  " + json.dumps(vs[0])[:700])
            return 1
        print("replay: the hierarchical view is faithful on this run now")
        return 0
    tmp = os.path.join(core.BUILD, "C12_replay_one.ndjson")
    with open(tmp, "w") as f:
        f.write(json.dumps({"prog": v["case"]["prog"], "env": v["case"]["env"]}) + "\n")
    trace = os.path.join(core.BUILD, "C12_replay_one.trace")
    out = os.path.join(core.BUILD, "C12_replay_one.report.json")
    core.run_vh(["replay-cldb", "--ndjson", "--in", tmp, "--trace", trace, "--out", out])
    acc = core.Acc("C12", "quick", LEVEL)
    _validate(acc, trace, core.load_json(out), "replay")
    vs = [x for x in acc.violations if x["kind"] == v["kind"]]
    if vs:
        print(f"VIOLATION property=C12 replay={path}")
        print("  " + json.dumps(vs[0])[:700])
        return 1
    print("replay: the debugger's rows are faithful on this run now")
    return 0
