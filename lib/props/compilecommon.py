"""Shared by C01 / C02 / C03: generated programs -> real compilers -> Trace_Compile (Chialisp.tla is the oracle)."""
import json
import os
import re
import core

LEGACY = {"cl21", "cl21+O", "s21", "cl22", "cl22+O", "cl23", "cl23+O"}


def feats(case):
    return {k: v == "true" for k, v in re.findall(r"(\w+): (true|false)", case["features"])}


def identifiers(case):
    return set(re.findall(r"\b(?:P|L|S|Z|KONST|fun|inl|mac|M)\d+\b", case["source"]))


def contains_name(v, idents):
    """does the CLVM value (JSON) contain an atom spelling one of the identifiers (possibly renamed name_$_123)?"""
    stack = [v]
    while stack:
        x = stack.pop()
        if x[0] == "a":
            try:
                t = bytes(x[1]).decode("ascii")
            except UnicodeDecodeError:
                continue
            m = re.match(r"^([A-Za-z]+\d+)(_\$_\d+)?$", t)
            if m and m.group(1) in idents:
                return True
        else:
            stack.append(x[1])
            stack.append(x[2])
    return False


def m_legacy_zero_leading(v, params):
    # legacy integer mode (cl21, strict-cl21, cl22, cl23): a zero-leading-byte literal (0x00, 0x0006, 0xff80) is
    # renumbered by the optimiser / constant folder (0x00 -> nil, 0x0006 -> 6)
    f = feats(v["case"])
    return f.get("zero_leading_literal") and any(b in LEGACY for b in v["builds"])


def source_hash(case):
    import hashlib
    return hashlib.sha1(case["source"].encode()).hexdigest()[:16]


def m_macro_if_cl23(v, params):
    # cl23 / cl23.1 / cl24: an (if ..) that comes out of a user macro's quasi-quoted template gets the constant 0x40
    # (the byte '@') as its environment, so a branch that refers to a variable fails with "path into atom"
    f = feats(v["case"])
    new = {"cl23", "cl23+O", "cl231", "cl231+O", "cl24", "cl24+O"}
    if not f.get("macros") or not any(b in new for b in v["builds"]):
        return False
    templates = re.findall(r"\(defmacro \w+ \([^)]*\) \(qq (.*?)\)\) \((?:defun|defun-inline|defmacro|defconstant)|\(defmacro \w+ \([^)]*\) \(qq (.*)", v["case"]["source"])
    has_if = "(if " in v["case"]["source"].split("(defmacro", 1)[-1]
    failing = any(isinstance(o, list) and o and o[0] == "err" for b in v["builds"] if b in new for o in (v["observed"].get(b) or []))
    return has_if and failing


MATCHERS = {"macro_if_cl23": m_macro_if_cl23, "legacy_zero_leading": m_legacy_zero_leading}


def drive(acc, tag, n, envs, profile, builds, salt=None, fixed_seed=None):
    trace = os.path.join(core.BUILD, f"{acc.prop}_{tag}.ndjson")
    cases = os.path.join(core.BUILD, f"{acc.prop}_{tag}.cases")
    out = os.path.join(core.BUILD, f"{acc.prop}_{tag}.report.json")
    args = ["drive-compile", "--n", str(n), "--envs", str(envs), "--profile", profile, "--builds", ",".join(builds),
            "--trace", trace, "--cases", cases, "--out", out, "--salt", salt or tag]
    env = {"VERIF_SEED": str(fixed_seed)} if fixed_seed is not None else None
    core.run_vh(args, timeout=6000, env=env)
    rep = core.load_json(out)
    res = core.trace_validate(acc, "Trace_Compile", "Trace_Compile.cfg", trace, f"Trace_Compile[{tag}]", timeout=3000)
    cs = [json.loads(l) for l in open(cases)]
    acc.add_report(rep)
    for k, v in res["stats"].items():
        acc.counts[f"{tag}_{k}"] = v
    os.remove(trace)
    os.remove(cases)
    return res, cs


def exhaustive(acc, prop, tier, builds):
    """M/R: programs enumerated by TLC (MC_ChialispGen) with Chialisp!RunProgram's prediction, compiled and run by the harness"""
    maxlen = 3 if tier == "quick" else 4
    shapes = "{0, 2, 9, 13}" if tier == "quick" else "{0, 1, 2, 3, 4, 5, 6, 7, 8, 9, 10, 11, 12, 13, 14}"
    cfg = f"MC_ChialispGen_{prop}.cfg"
    with open(os.path.join(core.SPEC, cfg), "w") as f:
        f.write(f"SPECIFICATION Spec\nCONSTANTS MaxLen = {maxlen}\n ShapeSet = {shapes}\nCHECK_DEADLOCK FALSE\n")
    r = core.run_tlc("MC_ChialispGen", cfg, f"{prop}_gen", workers=14, timeout=6000, coverage=False, heap="16g")
    if not r.ok:
        raise core.ToolError(f"MC_ChialispGen: {r.invariant_violated}\n{r.output[-2000:]}")
    acc.add_tlc("MC_ChialispGen", r)
    out = os.path.join(core.BUILD, f"{prop}_gen.report.json")
    core.run_vh(["replay-chialisp", "--in", r.out_path, "--builds", ",".join(builds), "--prop", prop, "--out", out], timeout=6000)
    os.remove(r.out_path)
    rep = core.load_json(out)
    if rep["evaluations"] == 0:
        raise core.ToolError("vacuous: MC_ChialispGen emitted no program")
    acc.add_report(rep)
    acc.exhaustive = True


def brief(case, builds):
    return {"source": case["source"], "envs": case["envs"], "features": case["features"],
            "ast": case["ast"], "envs_json": case["envs_json"]}


def records(prop, res, cs, want_kinds):
    """violation records from TLC's verdict sets"""
    out = []
    seen = set()
    if "bad" in want_kinds:
        for (l, i, b, want) in res["bad"]:
            if (l, b) in seen:
                continue
            seen.add((l, b))
            c = cs[l - 1]
            out.append({"property": prop, "kind": "build-differs-from-source-meaning", "builds": [b], "env_index": i, "expected": want,
                        "observed": {b: c["obs"][b].get("runs", c["obs"][b])}, "case": brief(c, [b])})
    if "badpair" in want_kinds:
        for (l, i, b, c2) in res["badpair"]:
            if (l, b, c2) in seen:
                continue
            seen.add((l, b, c2))
            c = cs[l - 1]
            out.append({"property": prop, "kind": "two-builds-return-different-values", "builds": [b, c2], "env_index": i,
                        "observed": {b: c["obs"][b].get("runs"), c2: c["obs"][c2].get("runs")}, "case": brief(c, [b, c2])})
    if "badopt" in want_kinds:
        for (l, i, b, c2) in res["badopt"]:
            if (l, b, c2) in seen:
                continue
            seen.add((l, b, c2))
            c = cs[l - 1]
            out.append({"property": prop, "kind": "optimisation-makes-program-fail", "builds": [b, c2], "env_index": i,
                        "observed": {b: c["obs"][b].get("runs", c["obs"][b]), c2: c["obs"][c2].get("runs", c["obs"][c2])}, "case": brief(c, [b, c2])})
    return out


def replay_record(path, prop, kinds):
    """re-run the recorded program (AST + argument trees) through the same pipeline"""
    rec = core.load_json(path)
    v = rec["violation"]
    case = v["case"]
    builds = v["builds"] if v["kind"] != "build-differs-from-source-meaning" else v["builds"]
    tmp = os.path.join(core.BUILD, f"{prop}_replay.case.json")
    with open(tmp, "w") as f:
        json.dump({"ast": case["ast"], "envs": case["envs_json"], "builds": builds}, f)
    trace = os.path.join(core.BUILD, f"{prop}_replay.ndjson")
    cases = os.path.join(core.BUILD, f"{prop}_replay.cases")
    core.run_vh(["replay-compile", "--in", tmp, "--trace", trace, "--cases", cases])
    acc = core.Acc(prop, "quick", "model_checking")
    res = core.trace_validate(acc, "Trace_Compile", "Trace_Compile.cfg", trace, "replay")
    cs = [json.loads(l) for l in open(cases)]
    vs = records(prop, res, cs, kinds)
    if vs:
        print(f"VIOLATION property={prop} replay={path}")
        print("  " + json.dumps({k: vs[0][k] for k in vs[0] if k != "case"})[:800])
        return 1
    print(f"replay: {prop} holds on this program now")
    return 0
