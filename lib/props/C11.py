"""C11 — every compile entry point produces the same program for the same source."""
import json
import os
import core

LEVEL = "model_checking"
MATCHERS = {}


def _drive(acc, tier, programs=None):
    trace = os.path.join(core.BUILD, "C11_drive.ndjson")
    out = os.path.join(core.BUILD, "C11_drive.report.json")
    args = ["drive-entry", "--trace", trace, "--out", out, "--scratch", os.path.join(core.BUILD, "c11_scratch")]
    if programs:
        args += ["--programs", programs]
    core.run_vh(args, timeout=6000)
    rep = core.load_json(out)
    res = core.trace_validate(acc, "Trace_EntryPoints", "Trace_EntryPoints.cfg", trace, "Trace_EntryPoints", heap="4g")
    if len(res["bad"]) != len(rep["violations"]):
        raise core.ToolError(f"trace spec and harness disagree: TLC {len(res['bad'])} vs harness {len(rep['violations'])}")
    acc.drift += len(res["drift"]) + rep.get("drift", 0)
    for d in res["drift"][:3]:
        acc.drift_samples.append({"trace_record": d, "what": "derived options differ from EntryPoints!Derive"})
    acc.add_report(rep)
    acc.counts.update({f"trace_{k}": v for k, v in res["cnt"].items()})
    os.remove(trace)


def gen_programs(tier):
    """generated programs from the Chialisp generator (when built); returns path or None"""
    try:
        out = os.path.join(core.BUILD, "C11_programs.ndjson")
        core.run_vh(["gen-programs", "--n", "60" if tier == "quick" else "600", "--out", out])
        return out
    except core.ToolError:
        return None


def run(tier, acc):
    acc.rule = ("M: EntryPoints.tla writes the option derivation (optimize, frontend_opt, post-optimiser) of the three entry points as "
                "one table and TLC checks Library = Cli(-O) and Debugger = Cli for every stepping. T: for every shipped program and "
                "generated program x every sigil incl. classic x include files found through a search path, the harness calls "
                "compile_clvm_text (library), launch_tool(run [-O] [-d]) (command line; its printed text), and "
                "RunAndCompileInputData::new + compile_modern (the debugger's compile step) with and without -O, records the derived "
                "options, and Trace_EntryPoints evaluates the equalities. non-trivial = distinct programs that compile")
    acc.assumptions = ["the command line compiler only prints program text for modern dialects: it is compared with the debugger's result "
                       "printed by the same printer, and the library's bytes with the debugger's bytes (a chain of two equalities)",
                       "the debugger's compile step is observed through the public RunAndCompileInputData API that cldb() calls"]
    r = core.run_tlc("EntryPoints", "EntryPoints.cfg", "C11_model", workers=1, timeout=300, coverage=False)
    if not r.ok:
        raise core.ToolError(f"EntryPoints: {r.invariant_violated}")
    acc.add_tlc("EntryPoints", r)
    _drive(acc, tier, gen_programs(tier))


def replay(path):
    acc = core.Acc("C11", "quick", LEVEL)
    _drive(acc, "quick")
    rec = core.load_json(path)
    prog = rec["violation"].get("program")
    vs = [v for v in acc.violations if v.get("program") == prog] or acc.violations
    if vs:
        print(f"VIOLATION property=C11 replay={path}")
        print("  " + json.dumps(vs[0])[:700])
        return 1
    print("replay: entry points agree now")
    return 0
