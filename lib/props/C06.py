"""C06 — the stepping evaluator agrees with the consensus evaluator."""
import core
from props import clvmcommon as cc

LEVEL = "model_checking"


def m_headform(v, params):
    # the stepping evaluator *evaluates* a one-element list in head position, the consensus evaluator applies X of
    # ((X) ...) to the operands as written.  The stepper machine of the specification (ClvmStepper.tla) carries this
    # deviation: only disagreements that it predicts exactly are this finding
    return v["kind"] == "stepper-vs-consensus" and v.get("model_explains") is True and \
        (cc.contains_headform(v["case"]["prog"]) or cc.contains_headform(v["case"]["env"]))


MATCHERS = {"headform": m_headform}


def run(tier, acc):
    acc.rule = ("TLC enumerates every CLVM term of <= MaxLen prefix tokens over the property's alphabet "
                "{nil, paths, quoted constants, a i c f r l x = + -} x a fixed set of environments, predicts the outcome "
                "with Clvm!Eval and with the ClvmStepper machine (asserting their agreement on the model), and the harness "
                "replays each vector through compiler::clvm::run in three atom spellings and through clvmr; "
                "non-trivial = distinct (program, environment) pairs for which both evaluators were run and compared")
    acc.assumptions = ["clvmr (ChiaDialect, NO_UNKNOWN_OPS|ENABLE_KECCAK_OPS_OUTSIDE_GUARD) is the consensus evaluator",
                       "cost and step limits are outside the comparison (runs that exhaust them are skipped and counted)"]
    n = 4 if tier == "quick" else 5
    cc.gen_and_replay(acc, "step_clean", n, "stepper", "clean", "C06")
    cc.gen_and_replay(acc, "step_head", 3 if tier == "quick" else 4, "stepper", "headform", "C06")
    cc.drive_and_validate(acc, 3000 if tier == 'quick' else 60000, 'C06')
    acc.exhaustive = True


def replay(path):
    return cc.replay_case(path, "C06")
