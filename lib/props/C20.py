"""C20 — all operator tables agree with each other and with the evaluator."""
import json
import os
import core

LEVEL = "model_checking"
MATCHERS = {}
CLAUSES = ["inverse", "monotone", "same_opcode", "coverage", "implemented", "disasm"]


def _run(acc):
    trace = os.path.join(core.BUILD, "C20_tables.ndjson")
    out = os.path.join(core.BUILD, "C20_tables.report.json")
    core.run_vh(["dump-optables", "--trace", trace, "--out", out])
    rep = core.load_json(out)
    res = core.trace_validate(acc, "Trace_OpTables", "Trace_OpTables.cfg", trace, "Trace_OpTables", heap="4g")
    if not res["canonical_consistent"]:
        raise core.ToolError("OpTables.tla itself is inconsistent")
    for c in CLAUSES:
        if not res[c]:
            rep["violations"].append({"property": "C20", "kind": f"tables-{c}", "bad_names": ["".join(chr(b) for b in n) for n in res["bad_names"]],
                                      "unimplemented": res["unimplemented"], "trace": trace})
    acc.drift += sum(1 for v in res["drift"].values() if v)
    if any(res["drift"].values()):
        acc.drift_samples.append({"tables_differ_from_OpTables_tla": res["drift"]})
    acc.add_report(rep)
    acc.counts["names"] = res["names"]
    acc.counts["rows"] = res["rows"]
    return res


def run(tier, acc):
    acc.rule = ("the finite set, exhaustively: every (name, opcode) of keyword_to_atom/keyword_from_atom for versions 0,1,2, the modern "
                "primitive list, every opcode 0..255 and the two 4-byte secp opcodes against the evaluator of each version and against the stepping evaluator "
                "(cldb, compile-time evaluation, REPL), and per name "
                "the opcode it assembles to, behaves as when compiled by the classic and by the modern compiler (outcomes of "
                "(mod (X ..) (NAME X ..)) at arities 1..3 on 4 argument lists compared with clvmr running the opcode directly), the "
                "stepping evaluator's table, the outcomes of the stepping evaluator running the opcode directly, and #name; TLC (Trace_OpTables) folds the rows into tables and evaluates the invariants. "
                "non-trivial = distinct operator names")
    acc.assumptions = ["clvmr implements the opcode <=> DefaultProgramRunner does not answer 'unimplemented operator'",
                       "compiler clause is one-directional: where the direct opcode call returns, the compiled call returns the same"]
    _run(acc)
    acc.exhaustive = True


def replay(path):
    acc = core.Acc("C20", "quick", LEVEL)
    _run(acc)
    if acc.violations:
        print(f"VIOLATION property=C20 replay={path}")
        print("  " + json.dumps(acc.violations[0])[:600])
        return 1
    print("replay: tables consistent now")
    return 0
