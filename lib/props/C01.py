"""C01 — compiled modern Chialisp computes what the source means."""
import core
from props import compilecommon as cc

LEVEL = "model_checking"
MATCHERS = cc.MATCHERS
CLEAN = ["cl21", "s21", "cl22", "cl23", "cl231", "cl24"]


def run(tier, acc):
    acc.rule = ("Chialisp.tla is the call-by-value meaning of the surface language (defun, defun-inline, defconstant, template macros, "
                "let/let*/assign, lambda with captures, &rest, (@ name pattern), improper/nested parameter lists, function names as "
                "values, if/list, ~30 operators, literals of any width). A seeded generator produces well-scoped programs as ASTs, "
                "renders them under each sigil, compiles them through the library entry point without optimisation requested and runs "
                "the output with clvmr on argument trees fitted to the parameter shape; Trace_Compile evaluates RunProgram on the AST "
                "and reports every (program, arguments, build) where the source returns v and the build returned anything else. "
                "non-trivial = programs for which the source returned a value")
    acc.assumptions = ["Chialisp.tla's strict binding rule: every value it yields is also the value under the lazier rule compiled code follows",
                       "hash/BLS operators and arithmetic wider than 3 bytes are out of model (outcome oom, not compared)",
                       "clvmr is the consensus evaluator"]
    n = 250 if tier == "quick" else 4000
    res, cs = cc.drive(acc, "core", n // 2, 3, "core", CLEAN)
    acc.violations += cc.records("C01", res, cs, {"bad"})
    res, cs = cc.drive(acc, "full", n, 3, "full", CLEAN)
    acc.violations += cc.records("C01", res, cs, {"bad"})
    res, cs = cc.drive(acc, "cse", n // 2, 3, "cse", CLEAN)
    acc.violations += cc.records("C01", res, cs, {"bad"})
    res, cs = cc.drive(acc, "ladder", 10 if tier == "quick" else 100, 2, "ladder", CLEAN)
    acc.violations += cc.records("C01", res, cs, {"bad"})
    cc.exhaustive(acc, "C01", tier, CLEAN)
    # guarded repeated subexpressions (CseGuards.tla vectors): the source returns a value where an unsound lift fails
    from props import C02
    C02.cse_guards(acc, tier, prop="C01", builds=CLEAN, take=300 if tier == "quick" else 6000)
    acc.nontrivial += sum(v for k, v in acc.counts.items() if k.endswith("_ok"))


def replay(path):
    return cc.replay_record(path, "C01", {"bad"})
