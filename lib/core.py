"""Shared machinery of the ./check driver: building the harness, running TLC,
collecting results, matching known findings, writing evidence and replay files."""
import fcntl
import hashlib
import json
import os
import re
import shutil
import subprocess
import sys
import time

ROOT = os.path.dirname(os.path.dirname(os.path.abspath(__file__)))
BUILD = os.path.join(ROOT, ".build")
SPEC = os.path.join(ROOT, "spec")
VH = os.path.join(BUILD, "target", "release", "vh")
REPLAYS = os.path.join(ROOT, "replays")
EVIDENCE = os.path.join(ROOT, "evidence")
DEFAULT_SEED = 20260923


class ToolError(Exception):
    pass


def seed():
    try:
        return int(os.environ.get("VERIF_SEED", DEFAULT_SEED))
    except ValueError:
        return DEFAULT_SEED


def log(*a):
    print(*a, file=sys.stderr, flush=True)


def build_harness():
    """cargo build --release of the harness against /repo's current working tree (hooks on)."""
    os.makedirs(BUILD, exist_ok=True)
    lock = open(os.path.join(BUILD, "build.lock"), "w")
    fcntl.flock(lock, fcntl.LOCK_EX)
    try:
        hl = os.path.join(ROOT, "harness", "Cargo.lock")
        rl = "/repo/Cargo.lock"
        if not os.path.exists(hl):
            shutil.copyfile(rl, hl)
        env = dict(os.environ)
        env["CARGO_NET_OFFLINE"] = "true"
        t0 = time.time()
        p = subprocess.run(["cargo", "build", "--release", "--offline"], cwd=os.path.join(ROOT, "harness"),
                           env=env, stdout=subprocess.PIPE, stderr=subprocess.STDOUT, text=True)
        if p.returncode != 0:
            # a stale lock file (after /repo changed its dependencies) is repaired once
            shutil.copyfile(rl, hl)
            p = subprocess.run(["cargo", "build", "--release", "--offline"], cwd=os.path.join(ROOT, "harness"),
                               env=env, stdout=subprocess.PIPE, stderr=subprocess.STDOUT, text=True)
        if p.returncode != 0:
            sys.stdout.write(p.stdout[-6000:])
            raise ToolError("cargo build of the harness failed (does /repo still compile with --cfg chialisp_verif?)")
        log(f"[build] harness ok in {time.time() - t0:.1f}s")
    finally:
        fcntl.flock(lock, fcntl.LOCK_UN)
        lock.close()


class TlcResult:
    def __init__(self):
        self.generated = 0
        self.distinct = 0
        self.depth = 0
        self.actions = {}
        self.output = ""
        self.ok = False
        self.invariant_violated = None
        self.wall = 0.0
        self.printed = []


def run_tlc(module, cfg, workdir_name, workers=8, timeout=1500, env=None, out_file=None, simulate=None,
            extra=None, coverage=True, heap="8g", dfs=False, expect_failure=False):
    """Run TLC on spec/<module>.tla with spec/<cfg>. Returns TlcResult; raises ToolError on tool failure."""
    meta = os.path.join(BUILD, "tlc", workdir_name)
    shutil.rmtree(meta, ignore_errors=True)
    os.makedirs(meta, exist_ok=True)
    out_path = out_file or os.path.join(meta + ".out")
    jopts = f"-Xss1g -Xmx{heap}"
    if dfs:
        jopts += " -Dtlc2.tool.queue.IStateQueue=StateDeque"
    e = dict(os.environ)
    e["JAVA_TOOL_OPTIONS"] = jopts
    if env:
        e.update(env)
    cmd = ["timeout", str(timeout), "tlc", "-workers", str(workers), "-metadir", meta, "-cleanup",
           "-noGenerateSpecTE", "-config", cfg]
    if coverage:
        cmd += ["-coverage", "1"]
    if simulate:
        cmd += ["-simulate", simulate]
    if extra:
        cmd += extra
    cmd += [module + ".tla"]
    t0 = time.time()
    with open(out_path, "w") as f:
        p = subprocess.run(cmd, cwd=SPEC, env=e, stdout=f, stderr=subprocess.STDOUT)
    r = TlcResult()
    r.wall = time.time() - t0
    if os.environ.get("VERIF_TIMING"):
        log(f"[time] tlc {module} {cfg} {r.wall:.0f}s")
    r.out_path = out_path
    keep = []
    completed = False
    errors = []
    with open(out_path, errors="replace") as f:
        for line in f:
            if "Model checking completed. No error has been found." in line:
                completed = True
            if line.startswith("Error:") and len(errors) < 40:
                errors.append(line.strip())
            if line.startswith('<<"V"') or line.startswith('<<"W"'):
                continue
            if not (line.startswith("  |") or line.startswith("  line") or line.startswith("|")):
                keep.append(line)
            m = re.match(r"(\d+) states generated, (\d+) distinct states found", line)
            if m:
                r.generated, r.distinct = int(m.group(1)), int(m.group(2))
            m = re.match(r"The depth of the complete state graph search is (\d+)", line)
            if m:
                r.depth = int(m.group(1))
            m = re.match(r"<(\w+) line \d+, col \d+ to line \d+, col \d+ of module (\w+)>: (\d+):(\d+)", line)
            if m:
                r.actions[m.group(1)] = r.actions.get(m.group(1), 0) + int(m.group(4))
            if "is violated" in line or "Invariant" in line and "violated" in line:
                r.invariant_violated = line.strip()
            if line.startswith("<<") and not line.startswith('<<"V"'):
                r.printed.append(line.strip())
    r.output = "".join(keep[-200:])
    shutil.rmtree(meta, ignore_errors=True)
    if p.returncode == 124:
        raise ToolError(f"TLC timed out after {timeout}s on {module}/{cfg}")
    r.ok = completed or (simulate is not None and p.returncode == 0)
    r.returncode = p.returncode
    r.errors = errors
    if not r.ok and r.invariant_violated is None and not expect_failure:
        raise ToolError(f"TLC failed on {module}/{cfg}:\n" + "\n".join(errors) + "\n" + r.output[-3000:])
    return r


def trace_validate(acc, module, cfg, trace_path, name, timeout=1500, heap="8g"):
    """TLC validates a trace recorded from the real code; returns the RESULT record printed by the trace spec."""
    r = run_tlc(module, cfg, f"{acc.prop}_{name}", workers=1, timeout=timeout, env={"TRACE": trace_path},
                coverage=False, heap=heap, dfs=True)
    if not r.ok:
        raise ToolError(f"trace validation {module} failed: {r.invariant_violated}\n{r.output[-2500:]}")
    res = None
    for line in r.printed:
        if line.startswith('<<"RESULT", '):
            lit = line[len('<<"RESULT", '):-2]
            res = json.loads(json.loads(lit))
    if res is None:
        raise ToolError(f"trace validation {module}: no RESULT line\n{r.output[-2000:]}")
    acc.states += r.distinct
    acc.transitions += r.generated
    acc.tlc_runs.append({"run": name, "distinct": r.distinct, "generated": r.generated, "wall_s": round(r.wall, 1),
                         "result": {k: (v if not isinstance(v, list) else len(v)) for k, v in res.items()}})
    return res


def run_vh(args, timeout=3600, env=None):
    e = dict(os.environ)
    e["VERIF_SEED"] = str(seed())
    if env:
        e.update(env)
    t0 = time.time()
    p = subprocess.run(["timeout", str(timeout), VH] + args, env=e, stdout=subprocess.PIPE,
                       stderr=subprocess.PIPE, text=True)
    if os.environ.get("VERIF_TIMING"):
        log(f"[time] vh {' '.join(args[:6])} {time.time() - t0:.0f}s")
    if p.returncode != 0:
        raise ToolError(f"vh {' '.join(args[:3])} failed rc={p.returncode}: {p.stderr[-2000:]}")
    return p.stdout


def load_json(path):
    with open(path) as f:
        return json.load(f)


class Acc:
    """Accumulates what one run of a check covered."""

    def __init__(self, prop, tier, level):
        self.prop = prop
        self.tier = tier
        self.level = level
        self.t0 = time.time()
        self.states = 0
        self.transitions = 0
        self.traces = 0
        self.evaluations = 0
        self.nontrivial = 0
        self.samples = []
        self.violations = []   # records (dicts) that falsify the property
        self.spec_errors = []
        self.drift = 0
        self.drift_samples = []
        self.counts = {}
        self.actions = {}
        self.rule = ""
        self.assumptions = []
        self.exhaustive = False
        self.notes = []
        self.tlc_runs = []

    def add_tlc(self, name, r, require_actions=None):
        self.states += r.distinct
        self.transitions += r.generated
        self.tlc_runs.append({"run": name, "distinct": r.distinct, "generated": r.generated,
                              "depth": r.depth, "wall_s": round(r.wall, 1), "actions": r.actions})
        for k, v in r.actions.items():
            self.actions[f"{name}.{k}"] = v
        if require_actions:
            for a in require_actions:
                if r.actions.get(a, 0) == 0:
                    raise ToolError(f"vacuous model run {name}: action {a} never taken")

    def add_report(self, rep, traces=True):
        self.evaluations += rep.get("evaluations", 0)
        self.nontrivial += rep.get("distinct_nontrivial", 0)
        if traces:
            self.traces += rep.get("traces", 0)
        self.drift += rep.get("drift", 0)
        for s in rep.get("samples", []):
            if len(self.samples) < 6:
                self.samples.append(s)
        self.violations += rep.get("violations", [])
        self.spec_errors += rep.get("spec_errors", [])
        for s in rep.get("drift_samples", []):
            if len(self.drift_samples) < 10:
                self.drift_samples.append(s)
        for k, v in rep.get("counts", {}).items():
            self.counts[k] = self.counts.get(k, 0) + v


def load_findings():
    p = os.path.join(ROOT, "known_findings.json")
    if not os.path.exists(p):
        return []
    return load_json(p)["findings"]


def finish(acc, matchers):
    """Match violations against known findings, write replay files + evidence, print verdict lines, return exit code."""
    if acc.spec_errors:
        print(f"SPEC-ERROR property={acc.prop}: the TLA+ semantics disagrees with the consensus oracle on "
              f"{len(acc.spec_errors)} case(s); first: {json.dumps(acc.spec_errors[0])[:1500]}")
        write_evidence(acc, 0, known=[])
        return 2
    findings = [f for f in load_findings() if f["property"] == acc.prop and f["status"] == "open"]
    known_hits = {}
    fresh = []
    for v in acc.violations:
        hit = None
        for f in findings:
            m = matchers.get(f["matcher"])
            if m is None:
                raise ToolError(f"known finding {f['id']} names unknown matcher {f['matcher']}")
            try:
                if m(v, f.get("params", {})):
                    hit = f
                    break
            except (KeyError, TypeError, IndexError):
                pass
        if hit:
            known_hits.setdefault(hit["id"], []).append(v)
        else:
            fresh.append(v)
    for f in findings:
        if f["id"] in known_hits:
            print(f"KNOWN-FINDING: property={acc.prop} {f['id']}: {f['description']} "
                  f"({len(known_hits[f['id']])} instance(s) this run)")
    rc = 0
    if fresh:
        os.makedirs(REPLAYS, exist_ok=True)
        seen = set()
        for v in fresh:
            key = hashlib.sha1(json.dumps(v, sort_keys=True).encode()).hexdigest()[:16]
            if key in seen:
                continue
            seen.add(key)
            if len(seen) > 25:
                break
            path = os.path.join(REPLAYS, f"{acc.prop}-{key}.json")
            with open(path, "w") as f:
                json.dump({"property": acc.prop, "violation": v}, f, indent=1)
            print(f"VIOLATION property={acc.prop} replay={path}")
            print("  " + json.dumps({k: v[k] for k in v if k not in ("case",)})[:600])
        rc = 1
    write_evidence(acc, len(fresh), known=[{"id": k, "instances": len(v)} for k, v in known_hits.items()])
    # a part of the check that could not run (e.g. the hook it listens to produced nothing) is a tool error, unless the
    # parts that did run already found a violation: that is the more useful answer
    deferred = getattr(acc, "deferred_tool_error", None)
    if deferred is not None and rc == 0:
        raise deferred
    return rc


def write_evidence(acc, nviol, known):
    os.makedirs(EVIDENCE, exist_ok=True)
    cov = {
        "states": acc.states,
        "transitions": acc.transitions,
        "traces_validated_against_impl": acc.traces,
        "evaluations": acc.evaluations,
        "distinct_nontrivial": acc.nontrivial,
        "rule": acc.rule,
        "samples": acc.samples[:6] if acc.samples else ["(no sample recorded)"],
        "exhaustive": acc.exhaustive,
        "drift": acc.drift,
        "drift_samples": acc.drift_samples[:5],
        "counts": acc.counts,
        "tlc_runs": acc.tlc_runs,
        "known_findings_seen": known,
        "notes": acc.notes,
    }
    ev = {
        "property_id": acc.prop,
        "tier": acc.tier,
        "seed": seed(),
        "level": acc.level,
        "coverage": cov,
        "assumptions": acc.assumptions,
        "wall_s": round(time.time() - acc.t0, 1),
        "violations": nviol,
    }
    with open(os.path.join(EVIDENCE, f"{acc.prop}.json"), "w") as f:
        json.dump(ev, f, indent=1)


def scope_validate(acc, scope_trace, prop, closed_only_unbound):
    """impl -> spec: the evaluator's (com ..) scope events (hook verif_event in /repo) against ComScope.tla's invariant.
    bad = ill-scoped com; unbound = a program variable free in the code that is neither parameter nor environment
    (reported for closed REPL sessions / programs only when closed_only_unbound, open sessions are finding C16-K1)."""
    import json as _json
    if not os.path.exists(scope_trace) or os.path.getsize(scope_trace) == 0:
        raise ToolError("no evaluator scope events were recorded (is the hook in /repo compiled in?)")
    res = trace_validate(acc, "Trace_ComScope", "Trace_ComScope.cfg", scope_trace, "Trace_ComScope", timeout=3000)
    recs = [_json.loads(l) for l in open(scope_trace)]
    out = []
    for (l, i) in res["bad"][:50]:
        r = recs[l - 1]
        out.append({"property": prop, "kind": "evaluator-com-ill-scoped", "event": r["events"][i - 1],
                    "where": {k: r[k] for k in ("expr", "defs", "source", "open") if k in r}})
    nunb = 0
    for (l, i) in res["unbound"]:
        r = recs[l - 1]
        if closed_only_unbound and r.get("open"):
            nunb += 1
            continue
        out.append({"property": prop, "kind": "program-variable-unbound-in-com", "event": r["events"][i - 1],
                    "where": {k: r[k] for k in ("expr", "defs", "source", "open") if k in r}})
    acc.counts["scope_records"] = res["cnt"]["records"]
    acc.counts["scope_events"] = res["cnt"]["events"]
    acc.counts["scope_rebinding_events"] = res["cnt"]["rebinding_events"]
    acc.counts["scope_unbound_in_open_sessions"] = nunb
    if res["cnt"]["rebinding_events"] == 0:
        raise ToolError("vacuous: no (com ..) event rebinds anything")
    os.remove(scope_trace)
    return out
