HOOK_COMMITS = []
NOT_APPLICABLE = {}
CHECKS = {
    "C04": {
        "level": "model_checking",
        "text": "TLC enumerates every CLVM term below a token bound over the property's alphabet with the TLA+ CLVM semantics as oracle; every enumerated (term, environment) is replayed through the real optimize_sexp and clvmr, and the TLA+ semantics itself is cross-checked against clvmr on every vector. Exhaustive inside the bound, sampled beyond it.",
        "design_ref": "DESIGN.md section 4 C04",
        "note": "Trusted: clvmr as the consensus evaluator; the bound (term size, alphabet, environment set). The TLA+ semantics is not trusted: disagreement with clvmr is a SPEC-ERROR.",
        "technique": "TLA+ spec (Clvm, ClassicOpt) + TLC bounded exhaustive generation + replay into optimize_sexp",
    },
    "C06": {
        "level": "model_checking",
        "text": "The step machine of compiler/clvm.rs is transcribed as ClvmStepper.tla; TLC checks on the model that it refines the big-step CLVM semantics for every term below the bound, and every enumerated (term, environment) is replayed through the real run() in several atom spellings and through clvmr.",
        "design_ref": "DESIGN.md section 4 C06",
        "note": "Trusted: clvmr; bounds as stated in the evidence. Cost and step limits are outside the comparison.",
        "technique": "TLA+ spec (Clvm, ClvmStepper) + TLC refinement check + replay/trace validation against run_step",
    },
    "C07": {
        "level": "model_checking",
        "text": "RichValues.tla transcribes the conversion and equality case analysis; TLC checks the round trip for every atom of <= 2 bytes and boundary atoms beyond, both integer modes, and equality-iff-same-encoding over all spelling pairs; every enumerated case is replayed through the real conversion functions and the three tree hashes are compared; random long atoms/trees are trace-validated.",
        "design_ref": "DESIGN.md section 4 C07",
        "note": "Trusted: clvmr tree hash. SHA-256 is uninterpreted in the specification (agreement of three implementations + functional/injective consistency).",
        "technique": "TLA+ spec (RichValues) + TLC exhaustive atoms <= 2 bytes + replay into convert_*_clvm_rs/sha256tree + trace validation",
    },
    "C08": {
        "level": "model_checking",
        "text": "Serialize.tla models the encoder, a reference decoder and the implementation's op-stack/value-stack decoder machine (with its ignored errors); TLC runs the machine step by step on every byte string below the bound and asserts it never returns a value the reference decoder does not; every string is replayed through sexp_from_stream and clvmr; random/mutated encodings and MiB-sized atoms are trace-validated.",
        "design_ref": "DESIGN.md section 4 C08",
        "note": "Trusted: clvmr serde. Multi-MiB contents are compared by digest; TLC sees length and prefix only.",
        "technique": "TLA+ spec (Serialize) + TLC exhaustive byte strings + replay into sexp_from_stream/sexp_to_stream + trace validation",
    },
}
