HOOK_COMMITS = []
NOT_APPLICABLE = {}
CHECKS = {
    "C04": {
        "level": "model_checking",
        "text": "TLC enumerates every CLVM term below a token bound over the property's alphabet with the TLA+ CLVM semantics as oracle; every enumerated (term, environment) is replayed through the real optimize_sexp and clvmr, and the TLA+ semantics itself is cross-checked against clvmr on every vector. Exhaustive inside the bound, sampled beyond it.",
        "design_ref": "DESIGN.md section 4 C04",
        "note": "Trusted: clvmr as the consensus evaluator; the bound (term size, alphabet, environment set). The TLA+ semantics is not trusted: disagreement with clvmr is a SPEC-ERROR.",
        "technique": "TLA+ spec (Clvm, ClassicOpt) + TLC bounded exhaustive generation + replay into optimize_sexp",
    },
    "C06": {
        "level": "model_checking",
        "text": "The step machine of compiler/clvm.rs is transcribed as ClvmStepper.tla; TLC checks on the model that it refines the big-step CLVM semantics for every term below the bound, and every enumerated (term, environment) is replayed through the real run() in several atom spellings and through clvmr.",
        "design_ref": "DESIGN.md section 4 C06",
        "note": "Trusted: clvmr; bounds as stated in the evidence. Cost and step limits are outside the comparison.",
        "technique": "TLA+ spec (Clvm, ClvmStepper) + TLC refinement check + replay/trace validation against run_step",
    },
}
