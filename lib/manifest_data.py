HOOK_COMMITS = ["6c051fd"]
NOT_APPLICABLE = {}
CHECKS = {
    "C04": {
        "level": "model_checking",
        "text": "TLC enumerates every CLVM term below a token bound over the property's alphabet with the TLA+ CLVM semantics as oracle; every enumerated (term, environment) is replayed through the real optimize_sexp and clvmr, and the TLA+ semantics itself is cross-checked against clvmr on every vector. Exhaustive inside the bound, sampled beyond it.",
        "design_ref": "DESIGN.md section 4 C04",
        "note": "Trusted: clvmr as the consensus evaluator; the bound (term size, alphabet, environment set). The TLA+ semantics is not trusted: disagreement with clvmr is a SPEC-ERROR.",
        "technique": "TLA+ spec (Clvm, ClassicOpt) + TLC bounded exhaustive generation + replay into optimize_sexp",
    },
    "C06": {
        "level": "model_checking",
        "text": "The step machine of compiler/clvm.rs is transcribed as ClvmStepper.tla; TLC checks on the model that it refines the big-step CLVM semantics for every term below the bound, and every enumerated (term, environment) is replayed through the real run() in several atom spellings and through clvmr.",
        "design_ref": "DESIGN.md section 4 C06",
        "note": "Trusted: clvmr; bounds as stated in the evidence. Cost and step limits are outside the comparison.",
        "technique": "TLA+ spec (Clvm, ClvmStepper) + TLC refinement check + replay/trace validation against run_step",
    },
    "C07": {
        "level": "model_checking",
        "text": "RichValues.tla transcribes the conversion and equality case analysis; TLC checks the round trip for every atom of <= 2 bytes and boundary atoms beyond, both integer modes, and equality-iff-same-encoding over all spelling pairs; every enumerated case is replayed through the real conversion functions and the three tree hashes are compared; random long atoms/trees are trace-validated.",
        "design_ref": "DESIGN.md section 4 C07",
        "note": "Trusted: clvmr tree hash. SHA-256 is uninterpreted in the specification (agreement of three implementations + functional/injective consistency).",
        "technique": "TLA+ spec (RichValues) + TLC exhaustive atoms <= 2 bytes + replay into convert_*_clvm_rs/sha256tree + trace validation",
    },
    "C08": {
        "level": "model_checking",
        "text": "Serialize.tla models the encoder, a reference decoder and the implementation's op-stack/value-stack decoder machine (with its ignored errors); TLC runs the machine step by step on every byte string below the bound and asserts it never returns a value the reference decoder does not; every string is replayed through sexp_from_stream and clvmr; random/mutated encodings and MiB-sized atoms are trace-validated.",
        "design_ref": "DESIGN.md section 4 C08",
        "note": "Trusted: clvmr serde. Multi-MiB contents are compared by digest; TLC sees length and prefix only.",
        "technique": "TLA+ spec (Serialize) + TLC exhaustive byte strings + replay into sexp_from_stream/sexp_to_stream + trace validation",
    },
    "C09": {
        "level": "model_checking",
        "text": "Printers.tla models both printers and both readers at token level; TLC asserts the classic round trip (versions 0,1,2, operator and non-operator position) and the modern round trips for every atom of <= 2 bytes and boundary atoms beyond; every enumerated atom is replayed alone/head/non-head/tail through disassemble->assemble, to_string->parse_sexp and to_string->assemble; random trees are trace-validated.",
        "design_ref": "DESIGN.md section 4 C09",
        "note": "Trusted: nothing beyond the property's own round-trip statement; the token model is only used for drift and for the bounded model check. The sentence about the command-line compiler's printed text is exercised by C11's entry-point comparison.",
        "technique": "TLA+ spec (Printers, OpTables) + TLC exhaustive atoms + replay into disassemble/assemble/Display/parse_sexp + trace validation",
    },
    "C20": {
        "level": "model_checking",
        "text": "The tables of the running code are dumped as rows and folded by TLC (Trace_OpTables) into sets on which the invariants are evaluated: inverse per version, monotone versions, one opcode per name across assembler, disassembler, both compilers, stepper table and #name syntax, every opcode implemented by the evaluator of its version. The space is finite and covered completely.",
        "design_ref": "DESIGN.md section 4 C20",
        "note": "Trusted: clvmr (an opcode is implemented iff the runner does not answer 'unimplemented operator'). The compiler clause is behavioural and one-directional.",
        "technique": "TLA+ spec (OpTables) + TLC evaluation of invariants over tables observed from the code (trace validation)",
    },
    "C05": {
        "level": "model_checking",
        "text": "CompileHistory.tla models the two pieces of state that outlive a compilation (global fresh-name counter, per-thread integer mode with its guard) with threads, failing jobs and process restarts; TLC checks Pure/ModeRestored over all interleavings and that four leak variants violate them; TLC-enumerated and boundary histories are executed in fresh processes and the observed outputs folded back into the model's out relation by Trace_CompileHistory.",
        "design_ref": "DESIGN.md section 4 C05",
        "note": "Trusted: nothing beyond equality of observed outputs. Synthesised helper names in symbol tables are compared up to their numeric suffix. Scheduling inside a concurrent phase is uncontrolled.",
        "technique": "TLA+ spec (CompileHistory) + TLC interleavings/leak variants + replay of histories in fresh processes + trace validation",
    },
    "C19": {
        "level": "model_checking",
        "text": "AtomicWrite.tla models gentle_overwrite/atomic_write_file over a small POSIX-like file system with crash actions at every program point, concurrent writers and a reader; TLC checks TargetIntact/ReaderSeesComplete/SameContentSucceeds for five initial states and refutes the in-place variant; the real routine is run in child processes with aborts at every hook point, SIGKILL before every traced file-system call, concurrent writers/readers and through compile_clvm, and Trace_AtomicWrite checks every run against the model's writer.",
        "design_ref": "DESIGN.md section 4 C19",
        "note": "Trusted: kernel rename/O_EXCL semantics; strace for the syscall-level enumeration (hook-level enumeration does not need it). Needs the crash-point hook (cfg chialisp_verif).",
        "technique": "TLA+ spec (AtomicWrite) + TLC all interleavings and crash points + fault injection at hook/syscall points + trace validation",
    },
    "C18": {
        "level": "model_checking",
        "text": "Includes.tla models first-match resolution over a search path, the compiler's recursive walk over include/embed-file forms and the listing's walk; TLC asserts that every file read is listed and every listed name is the first match, over all small file systems and search-path orders; configurations are materialised on disk, gather_dependencies is called and the files a real compilation opens are observed with strace; random deeper graphs are trace-validated.",
        "design_ref": "DESIGN.md section 4 C18",
        "note": "Trusted: strace's view of successful opens under the scratch directory. Only successful compilations are judged.",
        "technique": "TLA+ spec (Includes) + TLC exhaustive small file systems + replay on a real directory tree with syscall observation + trace validation",
    },
    "C11": {
        "level": "model_checking",
        "text": "EntryPoints.tla states the option derivation of the library entry point, the command-line tools and the debugger as one table and TLC checks the two required equalities for every dialect stepping; the three real entry points are called on every shipped and generated program under every sigil with include files found through the search path, their derived options and outputs are recorded and Trace_EntryPoints evaluates byte/text identity.",
        "design_ref": "DESIGN.md section 4 C11",
        "note": "Trusted: the classic assembler to read the command line's printed text of classic programs (C09). The debugger's compile step is observed through RunAndCompileInputData, the API cldb() itself calls.",
        "technique": "TLA+ spec (EntryPoints) + TLC check of the decision table + trace validation of outputs of the three real entry points",
    },
}
