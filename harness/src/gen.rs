// Seeded random generator of well-scoped Chialisp programs (as ASTs) and of argument trees
// fitted to their parameter shape.  Constraints learned from the real compiler (DESIGN 3.5):
// names never collide with operators/keywords; inline callees get at least as many arguments
// as they name; let nesting is bounded; calls only go to helpers defined earlier (plus one
// guarded structural recursion shape).
use crate::ast::*;
use crate::val::V;
use rand::Rng;
use rand_chacha::ChaCha8Rng;

#[derive(Clone, Debug)]
pub struct GenOpts {
    pub max_helpers: usize,
    pub max_params: usize,
    pub depth: usize,
    pub lets: bool,
    pub assign: bool,
    pub lambda: bool,
    pub rest: bool,
    pub fnval: bool,
    pub macros: bool,
    pub defconst: bool,
    pub nested_mod: bool,
    pub at_patterns: bool,
    pub all_ops: bool,
    pub big_literals: bool,
    /// percentage of non-leaf positions filled by repeating an earlier binder-free subexpression of the same body
    /// (common subexpressions: what the cl23+ CSE pass looks for)
    pub repeat: u32,
    /// percentage of let / assign binders that re-bind a name already in scope (shadowing) instead of a fresh name
    pub shadow: u32,
}

impl GenOpts {
    pub fn core() -> GenOpts {
        GenOpts { max_helpers: 3, max_params: 4, depth: 3, lets: true, assign: false, lambda: false, rest: false, fnval: false, macros: false,
            defconst: false, nested_mod: false, at_patterns: false, all_ops: false, big_literals: false, repeat: 0, shadow: 0 }
    }
    pub fn full() -> GenOpts {
        GenOpts { max_helpers: 5, max_params: 6, depth: 4, lets: true, assign: true, lambda: true, rest: true, fnval: true, macros: true,
            defconst: false, nested_mod: true, at_patterns: true, all_ops: true, big_literals: true, repeat: 0, shadow: 12 }
    }
    /// programs rich in repeated subexpressions
    pub fn cse() -> GenOpts {
        GenOpts { repeat: 35, at_patterns: false, macros: false, big_literals: false, ..GenOpts::full() }
    }
    /// what the classic compiler accepts
    pub fn classic() -> GenOpts {
        GenOpts { max_helpers: 4, max_params: 6, depth: 3, lets: false, assign: false, lambda: false, rest: false, fnval: false, macros: true,
            defconst: false, nested_mod: false, at_patterns: false, all_ops: true, big_literals: true, repeat: 0, shadow: 0 }
    }
}

#[derive(Clone)]
struct FnInfo {
    name: String,
    pat: Pat,
    inline: bool,
    nparams: usize, // top-level list elements
    improper: bool, // top-level pattern has a variable tail
}

pub struct Gen {
    pub rng: ChaCha8Rng,
    pub o: GenOpts,
    counter: usize,
    let_depth: usize,
    mod_depth: usize,
    pool: Vec<(Expr, Vec<String>)>,
}

const OPS_CORE: &[(u8, usize)] = &[(16, 2), (17, 2), (18, 2), (4, 2), (5, 1), (6, 1), (7, 1), (9, 2), (21, 2), (32, 1)];
const OPS_MORE: &[(u8, usize)] = &[(10, 2), (12, 2), (12, 3), (13, 1), (14, 2), (24, 2), (25, 2), (26, 2), (27, 1), (33, 2), (34, 2), (20, 2), (61, 2), (22, 2), (23, 2), (16, 3), (11, 1), (11, 2)];

impl Gen {
    pub fn new(rng: ChaCha8Rng, o: GenOpts) -> Gen {
        Gen { rng, o, counter: 0, let_depth: 0, mod_depth: 0, pool: vec![] }
    }
    /// the name of a new let / assign binder: fresh, or (shadowing) a variable already in scope that this binding
    /// group has not bound yet
    fn binder(&mut self, prefix: &str, scope: &[String], taken: &[String]) -> String {
        if self.o.shadow > 0 && self.rng.random_range(0..100) < self.o.shadow {
            let cands: Vec<&String> = scope.iter().filter(|n| !taken.contains(n) && !n.starts_with("KONST") && !n.starts_with('M')).collect();
            if !cands.is_empty() {
                return cands[self.rng.random_range(0..cands.len())].clone();
            }
        }
        self.fresh(prefix)
    }
    fn fresh(&mut self, prefix: &str) -> String {
        self.counter += 1;
        format!("{}{}", prefix, self.counter)
    }

    pub fn literal(&mut self) -> V {
        let r = &mut self.rng;
        match r.random_range(0..18) {
            16 => {
                // nested data whose elements look like code: (1), (q), (1 . 5), (2 3): a quoted constant must survive as is
                let pool = [V::list(&[V::int(1)]), V::cons(V::int(1), V::int(5)), V::list(&[V::int(2), V::int(3)]),
                    V::list(&[V::int(1), V::int(2)]), V::int(2), V::nil(), V::list(&[V::list(&[V::int(1)])]), V::cons(V::int(2), V::cons(V::int(1), V::int(1)))];
                let n = r.random_range(1..=3);
                let items: Vec<V> = (0..n).map(|_| pool[r.random_range(0..pool.len())].clone()).collect();
                if r.random_bool(0.7) { V::list(&items) } else { V::list_tail(&items, V::int(1)) }
            }
            17 => V::list(&[V::int(1)]),
            0 => V::nil(),
            1..=5 => V::int(r.random_range(0..20)),
            6 => V::int(-(r.random_range(1..300) as i64)),
            7 => V::int(r.random_range(100..70000)),
            8 if self.o.big_literals => V::A((0..r.random_range(4..40usize)).map(|i| if i == 0 { r.random_range(1..0x7f) } else { r.random::<u8>() }).collect()),
            9 if self.o.big_literals => V::A(vec![0, r.random_range(0..=255u8)]),          // zero-leading hex literal
            10 if self.o.big_literals => V::A(vec![0xff, r.random_range(0x80..=0xffu8)]),    // redundant sign byte
            11 => V::A(b"hello world"[..r.random_range(2..11)].to_vec()),
            12 => V::list(&[V::int(r.random_range(1..9)), V::int(r.random_range(1..9))]),
            13 => V::cons(V::int(r.random_range(1..9)), V::int(r.random_range(1..9))),
            14 if self.o.big_literals => V::A(vec![0]),
            _ => V::int(r.random_range(1..4)),
        }
    }

    fn pattern(&mut self, nparams: usize, names: &mut Vec<String>) -> Pat {
        let mut items = vec![];
        for _ in 0..nparams {
            let n = self.fresh("P");
            names.push(n.clone());
            let choice = self.rng.random_range(0..10);
            if choice == 0 {
                // nested destructuring (A . B)
                let m = self.fresh("P");
                names.push(m.clone());
                items.push(Pat::Cons(Box::new(Pat::Var(n)), Box::new(Pat::Var(m))));
            } else if choice == 1 {
                let m = self.fresh("P");
                names.push(m.clone());
                items.push(Pat::list(vec![Pat::Var(n), Pat::Var(m)], Pat::Nil));
            } else if choice == 3 {
                // deeper destructuring: (A B C), ((A B) C), (A B . C), (A (B C))
                let m = self.fresh("P");
                let k = self.fresh("P");
                names.push(m.clone());
                names.push(k.clone());
                let (a, b, c) = (Pat::Var(n), Pat::Var(m), Pat::Var(k));
                items.push(match self.rng.random_range(0..4) {
                    0 => Pat::list(vec![a, b, c], Pat::Nil),
                    1 => Pat::list(vec![Pat::list(vec![a, b], Pat::Nil), c], Pat::Nil),
                    2 => Pat::list(vec![a, b], c),
                    _ => Pat::list(vec![a, Pat::list(vec![b, c], Pat::Nil)], Pat::Nil),
                });
            } else if choice == 2 && self.o.at_patterns {
                let m = self.fresh("P");
                let k = self.fresh("P");
                names.push(m.clone());
                names.push(k.clone());
                items.push(Pat::At(n, Box::new(Pat::Cons(Box::new(Pat::Var(m)), Box::new(Pat::Var(k))))));
            } else {
                items.push(Pat::Var(n));
            }
        }
        let tail = if nparams > 0 && self.rng.random_range(0..8) == 0 {
            let n = self.fresh("P");
            names.push(n.clone());
            Pat::Var(n)
        } else {
            Pat::Nil
        };
        Pat::list(items, tail)
    }

    fn top_len(p: &Pat) -> (usize, bool) {
        let mut n = 0;
        let mut cur = p;
        loop {
            match cur {
                Pat::Cons(_, b) => {
                    n += 1;
                    cur = b;
                }
                Pat::Nil => return (n, false),
                _ => return (n, true),
            }
        }
    }

    fn expr(&mut self, depth: usize, scope: &[String], fns: &[FnInfo], consts: &[String], macros: &[(String, usize)]) -> Expr {
        let leaf = depth == 0 || self.rng.random_range(0..10) < 2;
        if leaf {
            let k = self.rng.random_range(0..10);
            if k < 6 && !scope.is_empty() {
                return Expr::Var(scope[self.rng.random_range(0..scope.len())].clone());
            }
            if k < 7 && !consts.is_empty() {
                return Expr::Var(consts[self.rng.random_range(0..consts.len())].clone());
            }
            return Expr::Lit(self.literal());
        }
        if self.o.repeat > 0 && self.rng.random_range(0..100) < self.o.repeat {
            let cands: Vec<usize> = (0..self.pool.len()).filter(|i| self.pool[*i].1.iter().all(|n| scope.contains(n))).collect();
            if !cands.is_empty() {
                return self.pool[cands[self.rng.random_range(0..cands.len())]].0.clone();
            }
        }
        let e = self.expr_fresh(depth, scope, fns, consts, macros);
        if self.o.repeat > 0 && Self::binder_free(&e) {
            let mut fv = vec![];
            Self::vars_of(&e, &mut fv);
            fv.retain(|n| scope.contains(n));
            self.pool.push((e.clone(), fv));
        }
        e
    }

    fn binder_free(e: &Expr) -> bool {
        match e {
            Expr::Lit(_) | Expr::Var(_) => true,
            Expr::Prim(_, a) | Expr::List(a) => a.iter().all(Self::binder_free),
            Expr::If(a, b, c) => Self::binder_free(a) && Self::binder_free(b) && Self::binder_free(c),
            Expr::Call(_, a, r) => a.iter().all(Self::binder_free) && r.as_ref().map(|x| Self::binder_free(x)).unwrap_or(true),
            _ => false,
        }
    }

    fn vars_of(e: &Expr, out: &mut Vec<String>) {
        match e {
            Expr::Var(n) => out.push(n.clone()),
            Expr::Prim(_, a) | Expr::List(a) => a.iter().for_each(|x| Self::vars_of(x, out)),
            Expr::If(a, b, c) => {
                Self::vars_of(a, out);
                Self::vars_of(b, out);
                Self::vars_of(c, out);
            }
            Expr::Call(_, a, r) => {
                a.iter().for_each(|x| Self::vars_of(x, out));
                if let Some(x) = r {
                    Self::vars_of(x, out);
                }
            }
            _ => {}
        }
    }

    fn expr_fresh(&mut self, depth: usize, scope: &[String], fns: &[FnInfo], consts: &[String], macros: &[(String, usize)]) -> Expr {
        let d = depth - 1;
        let choice = self.rng.random_range(0..100);
        macro_rules! sub {
            () => {
                self.expr(d, scope, fns, consts, macros)
            };
        }
        if choice < 30 {
            let (op, ar) = if self.o.all_ops && self.rng.random_range(0..3) == 0 { OPS_MORE[self.rng.random_range(0..OPS_MORE.len())] } else { OPS_CORE[self.rng.random_range(0..OPS_CORE.len())] };
            return Expr::Prim(op, (0..ar).map(|_| sub!()).collect());
        }
        if choice < 40 {
            return Expr::If(Box::new(sub!()), Box::new(sub!()), Box::new(sub!()));
        }
        if choice < 48 {
            let n = self.rng.random_range(0..4);
            return Expr::List((0..n).map(|_| sub!()).collect());
        }
        if choice < 68 && !fns.is_empty() {
            let f = fns[self.rng.random_range(0..fns.len())].clone();
            // exact number of arguments (the callee's named top-level positions); sometimes one more for non-inline
            let mut n = f.nparams;
            if !f.inline && self.rng.random_range(0..12) == 0 {
                n += 1;
            }
            // sometimes fewer positional arguments: the remaining named positions are supplied through the &rest tail
            let mut short = 0;
            if self.o.rest && n == f.nparams && n > 0 && !f.improper && self.rng.random_range(0..8) == 0 {
                short = self.rng.random_range(1..=n);
                n -= short;
            }
            let mut args: Vec<Expr> = (0..n).map(|_| sub!()).collect();
            // one call in six has only literal arguments (the optimisers evaluate such calls at compile time)
            if self.rng.random_range(0..6) == 0 {
                for a in args.iter_mut() {
                    *a = Expr::Lit(self.literal());
                }
            }
            // arguments bound to a destructuring position get a value of fitting shape more often than not
            let mut cur = &f.pat;
            for a in args.iter_mut() {
                if let Pat::Cons(head, rest) = cur {
                    if !matches!(**head, Pat::Var(_)) && self.rng.random_range(0..4) > 0 {
                        *a = Expr::Lit(self.value_for(head));
                    }
                    cur = rest;
                }
            }
            let rest = if short > 0 {
                let extra = self.rng.random_range(0..2);
                Some(Box::new(Expr::List((0..short + extra).map(|_| sub!()).collect())))
            } else if (f.improper || self.o.rest && self.rng.random_range(0..6) == 0) && self.o.rest {
                Some(Box::new(if self.o.shadow > 0 && self.o.lets && !scope.is_empty() && self.rng.random_range(0..4) == 0 {
                    // a let in the tail that re-binds a name of the enclosing scope and uses it
                    let x = scope[self.rng.random_range(0..scope.len())].clone();
                    let e = sub!();
                    let body = if self.rng.random_bool(0.5) { Expr::List(vec![Expr::Var(x.clone()), sub!()]) } else { Expr::Prim(4, vec![Expr::Var(x.clone()), sub!()]) };
                    Expr::Let(self.rng.random_bool(0.5), vec![(x, e)], Box::new(body))
                } else if self.rng.random_bool(0.5) { Expr::List((0..self.rng.random_range(0..3)).map(|_| sub!()).collect()) } else { sub!() }))
            } else {
                None
            };
            return Expr::Call(f.name, args, rest);
        }
        if choice < 76 && self.o.lets && self.let_depth < 3 {
            self.let_depth += 1;
            let seq = self.rng.random_bool(0.4);
            let n = self.rng.random_range(1..=2);
            let mut bs = vec![];
            let mut inner: Vec<String> = scope.to_vec();
            let mut taken: Vec<String> = vec![];
            for _ in 0..n {
                let name = self.binder("L", scope, &taken);
                taken.push(name.clone());
                let e = if seq { self.expr(d, &inner, fns, consts, macros) } else { sub!() };
                bs.push((name.clone(), e));
                if !inner.contains(&name) {
                    inner.push(name);
                }
            }
            let body = self.expr(d, &inner, fns, consts, macros);
            self.let_depth -= 1;
            return Expr::Let(seq, bs, Box::new(body));
        }
        if choice < 82 && self.o.assign && self.let_depth < 3 {
            self.let_depth += 1;
            let mut bs = vec![];
            let mut inner: Vec<String> = scope.to_vec();
            for _ in 0..self.rng.random_range(1..=2) {
                let shape = self.rng.random_range(0..9);
                if shape == 0 {
                    // nested destructuring: ((A . B) . C), (A (B . C)), (A B)
                    let (a, b, c) = (self.fresh("S"), self.fresh("S"), self.fresh("S"));
                    let (e1, e2, e3) = (self.expr(d, &inner, fns, consts, macros), self.expr(d, &inner, fns, consts, macros), self.expr(d, &inner, fns, consts, macros));
                    let v = |n: &String| Box::new(Pat::Var(n.clone()));
                    let (pat, e) = match self.rng.random_range(0..3) {
                        0 => (Pat::Cons(Box::new(Pat::Cons(v(&a), v(&b))), v(&c)), Expr::Prim(4, vec![Expr::Prim(4, vec![e1, e2]), e3])),
                        1 => (Pat::list(vec![Pat::Var(a.clone()), Pat::Cons(v(&b), v(&c))], Pat::Nil), Expr::List(vec![e1, Expr::Prim(4, vec![e2, e3])])),
                        _ => (Pat::list(vec![Pat::Var(a.clone()), Pat::Var(b.clone())], Pat::Var(c.clone())), Expr::Prim(4, vec![e1, Expr::Prim(4, vec![e2, e3])])),
                    };
                    bs.push((pat, e));
                    inner.push(a);
                    inner.push(b);
                    inner.push(c);
                } else if shape < 4 {
                    let (a, b) = (self.fresh("S"), self.fresh("S"));
                    let e = Expr::Prim(4, vec![self.expr(d, &inner, fns, consts, macros), self.expr(d, &inner, fns, consts, macros)]);
                    bs.push((Pat::Cons(Box::new(Pat::Var(a.clone())), Box::new(Pat::Var(b.clone()))), e));
                    inner.push(a);
                    inner.push(b);
                } else {
                    // (assign binders stay fresh: every name of an assign form is in scope in all of its bindings)
                    let a = self.fresh("S");
                    let e = self.expr(d, &inner, fns, consts, macros);
                    bs.push((Pat::Var(a.clone()), e));
                    inner.push(a);
                }
            }
            let body = self.expr(d, &inner, fns, consts, macros);
            self.let_depth -= 1;
            return Expr::Assign(bs, Box::new(body));
        }
        if choice < 88 && self.o.lambda {
            // (a (lambda ((& caps) Z) body) (list arg))
            let caps: Vec<String> = scope.iter().filter(|_| self.rng.random_bool(0.4)).take(2).cloned().collect();
            let z = self.fresh("Z");
            let mut inner = caps.clone();
            inner.push(z.clone());
            let body = self.expr(d, &inner, fns, consts, macros);
            let lam = Expr::Lambda(caps, Pat::list(vec![Pat::Var(z)], Pat::Nil), Box::new(body));
            return Expr::Apply(Box::new(lam), Box::new(Expr::List(vec![sub!()])));
        }
        if choice < 92 && self.o.fnval {
            let cands: Vec<&FnInfo> = fns.iter().filter(|f| !f.inline && !f.improper).collect();
            if !cands.is_empty() {
                let f = cands[self.rng.random_range(0..cands.len())].clone();
                let args: Vec<Expr> = (0..f.nparams).map(|_| sub!()).collect();
                return Expr::Apply(Box::new(Expr::Var(f.name)), Box::new(Expr::List(args)));
            }
        }
        if choice >= 96 && choice < 98 && self.o.nested_mod && self.mod_depth == 0 {
            // (a (mod (N) body) (list arg)): a program of its own (its body sees its parameter only), with binders
            self.mod_depth += 1;
            let x = self.fresh("N");
            let saved_pool = std::mem::take(&mut self.pool);
            let body = self.expr(d.min(2), std::slice::from_ref(&x), &[], &[], &[]);
            self.pool = saved_pool;
            self.mod_depth -= 1;
            let inner = Program { args: Pat::list(vec![Pat::Var(x)], Pat::Nil), helpers: vec![], body };
            return Expr::Apply(Box::new(Expr::Mod(Box::new(inner))), Box::new(Expr::List(vec![sub!()])));
        }
        if choice < 96 && !macros.is_empty() {
            let (m, n) = macros[self.rng.random_range(0..macros.len())].clone();
            return Expr::Call(m, (0..n).map(|_| sub!()).collect(), None);
        }
        Expr::Prim(4, vec![sub!(), sub!()])
    }

    pub fn program(&mut self) -> Program {
        self.counter = 0;
        let nparams = match self.rng.random_range(0..10) {
            0 => 0,
            1..=6 => self.rng.random_range(1..=3),
            _ => self.rng.random_range(1..=self.o.max_params.max(1)),
        };
        let mut scope = vec![];
        let args = self.pattern(nparams, &mut scope);
        let mut helpers = vec![];
        let mut fns: Vec<FnInfo> = vec![];
        let mut consts: Vec<String> = vec![];
        let mut macros: Vec<(String, usize)> = vec![];
        let nh = self.rng.random_range(0..=self.o.max_helpers);
        for _ in 0..nh {
            let k = self.rng.random_range(0..10);
            if k == 0 {
                let name = self.fresh("KONST");
                helpers.push(Helper::DefConstant { name: name.clone(), value: match self.literal() { V::P(_, _) => V::int(11), v => v } });
                consts.push(name);
            } else if k == 1 && self.o.macros {
                let name = self.fresh("mac");
                let params = vec![self.fresh("M"), self.fresh("M")];
                let saved = (self.o.lets, self.o.assign, self.o.lambda, self.o.rest, self.o.fnval);
                self.o.lets = false;
                self.o.assign = false;
                self.o.lambda = false;
                self.o.rest = false;
                self.o.fnval = false;
                // template over its parameters only, built from primitives/if/list
                let template = self.expr(2, &params, &[], &[], &[]);
                (self.o.lets, self.o.assign, self.o.lambda, self.o.rest, self.o.fnval) = saved;
                helpers.push(Helper::DefMacro { name: name.clone(), params: params.clone(), template });
                macros.push((name, 2));
            } else {
                let inline = self.rng.random_range(0..3) == 0;
                let name = self.fresh(if inline { "inl" } else { "fun" });
                let mut fscope = vec![];
                let np = self.rng.random_range(1..=3);
                let pat = self.pattern(np, &mut fscope);
                let (n, improper) = Self::top_len(&pat);
                let d = self.o.depth.saturating_sub(1).max(1);
                self.pool.clear();
                let mut body = self.expr(d, &fscope, &fns, &consts, &macros);
                // one guarded structural recursion shape for non-inline functions
                if !inline && !improper && n == 1 && self.rng.random_range(0..5) == 0 {
                    if let Pat::Cons(h, _) = &pat {
                        if let Pat::Var(p0) = &**h {
                            let v = Expr::Var(p0.clone());
                            body = Expr::If(Box::new(Expr::Prim(7, vec![v.clone()])),
                                Box::new(Expr::Prim(4, vec![body.clone(), Expr::Call(name.clone(), vec![Expr::Prim(6, vec![v.clone()])], None)])),
                                Box::new(Expr::Lit(V::nil())));
                        }
                    }
                }
                helpers.push(Helper::Defun { name: name.clone(), pat: pat.clone(), body, inline });
                fns.push(FnInfo { name, pat, inline, nparams: n, improper });
            }
        }
        let depth = self.o.depth;
        self.pool.clear();
        let body = self.expr(depth, &scope, &fns, &consts, &macros);
        Program { args, helpers, body }
    }

    /// a value of the shape a pattern destructures
    pub fn value_for(&mut self, p: &Pat) -> V {
        match p {
            Pat::Nil => V::nil(),
            Pat::Var(_) => self.arg_value(2),
            Pat::At(_, q) => self.value_for(q),
            Pat::Cons(a, b) => {
                let l = self.value_for(a);
                let r = self.value_for(b);
                V::cons(l, r)
            }
        }
    }

    fn arg_value(&mut self, depth: usize) -> V {
        let r = &mut self.rng;
        match r.random_range(0..12) {
            0 => V::nil(),
            1..=4 => V::int(r.random_range(0..12)),
            5 => V::int(-(r.random_range(1..200) as i64)),
            6 => V::int(r.random_range(200..100000)),
            7 => V::A(b"abc".to_vec()),
            8 if depth > 0 => {
                let n = r.random_range(0..4);
                let items: Vec<V> = (0..n).map(|_| self.arg_value(depth - 1)).collect();
                V::list(&items)
            }
            9 if depth > 0 => V::cons(self.arg_value(depth - 1), self.arg_value(depth - 1)),
            10 => V::A(vec![0]),
            _ => V::int(r.random_range(1..5)),
        }
    }

    /// argument trees for a program: mostly of the parameter shape, sometimes too short / an atom
    pub fn args_for(&mut self, p: &Program, n: usize) -> Vec<V> {
        let mut out = vec![];
        for i in 0..n {
            if i > 0 && self.rng.random_range(0..8) == 0 {
                out.push(self.arg_value(2));
            } else {
                out.push(self.value_for(&p.args.clone()));
            }
        }
        out
    }
}
