// C15: source locations point at the text they describe.
use crate::pool::{run_jobs, PoolCfg};
use crate::util::{read_tlc_vectors, Report};
use chialisp::compiler::sexp::{parse_sexp, ParsePartialResult, SExp};
use chialisp::compiler::srcloc::Srcloc;
use serde_json::{json, Value};
use std::borrow::Borrow;
use std::collections::HashMap;
use std::io::Write;
use std::rc::Rc;
use std::time::Duration;

fn loc_json(l: &Srcloc) -> Value {
    let (ul, uc) = match &l.until {
        Some(u) => (u.line, u.col),
        None => (0, 0),
    };
    json!([if l.file.as_str() == "*in*" { "in" } else { l.file.as_str() }, l.line, l.col, ul, uc])
}

fn form_json(s: &SExp) -> Value {
    match s {
        SExp::Nil(l) => json!(["nil", loc_json(l)]),
        SExp::Cons(l, a, b) => json!(["cons", loc_json(l), form_json(a.borrow()), form_json(b.borrow())]),
        SExp::Integer(l, _) => json!(["leaf", loc_json(l), "int"]),
        SExp::QuotedString(l, _, _) => json!(["leaf", loc_json(l), "str"]),
        SExp::Atom(l, _) => json!(["leaf", loc_json(l), "sym"]),
    }
}

fn res_json(r: Result<Vec<Rc<SExp>>, (Srcloc, String)>) -> Value {
    match r {
        Ok(fs) => json!({"ok": true, "forms": fs.iter().map(|f| form_json(f)).collect::<Vec<_>>()}),
        Err((l, m)) => json!({"ok": false, "loc": loc_json(&l), "msg": m}),
    }
}

pub fn op_parse(job: &Value) -> Value {
    let text: Vec<u8> = job["text"].as_array().unwrap().iter().map(|b| b.as_u64().unwrap() as u8).collect();
    let whole = res_json(parse_sexp(Srcloc::start("*in*"), text.iter().copied()));
    let mut p = ParsePartialResult::new(Srcloc::start("*in*"));
    let mut err = None;
    for b in &text {
        if let Err(e) = p.push(*b) {
            err = Some(e);
            break;
        }
    }
    let bytewise = match err {
        Some(e) => res_json(Err(e)),
        None => res_json(p.finalize()),
    };
    json!({"whole": whole, "bytewise": bytewise})
}

fn line_lengths(text: &[u8]) -> Vec<usize> {
    let mut v = vec![0usize];
    for b in text {
        if *b == b'\n' {
            v.push(0);
        } else {
            *v.last_mut().unwrap() += 1;
        }
    }
    v
}

pub fn run_texts(texts: Vec<(Vec<u8>, Option<Value>)>, trace: &str, outp: &str) {
    let jobs: Vec<Value> = texts.iter().map(|(t, _)| json!({"op": "parse", "text": t})).collect();
    let cfg = PoolCfg { batch: 64, timeout: Duration::from_secs(20), ..PoolCfg::default() };
    let results = run_jobs(jobs, &cfg);
    let mut rep = Report::default();
    let mut f = std::io::BufWriter::new(std::fs::File::create(trace).expect("trace"));
    for ((t, model), r) in texts.iter().zip(results.iter()) {
        rep.evaluations += 1;
        let shown = String::from_utf8_lossy(t).to_string();
        if r.get("whole").is_none() {
            rep.violation(json!({"property": "C15", "kind": "reader-crashed", "text": shown, "bytes": t, "observed": r}));
            continue;
        }
        // feeding the text one byte at a time gives the same result as parsing it whole
        if r["whole"] != r["bytewise"] {
            rep.violation(json!({"property": "C15", "kind": "bytewise-differs-from-whole", "text": shown, "bytes": t, "whole": r["whole"], "bytewise": r["bytewise"]}));
        }
        rep.traces += 1;
        rep.nontrivial(&shown);
        let lens = line_lengths(t);
        writeln!(f, "{}", json!({"text": t, "lens": lens, "res": r["whole"], "same": r["whole"] == r["bytewise"]})).unwrap();
        if let Some(m) = model {
            let mut w = r["whole"].clone();
            if let Some(o) = w.as_object_mut() {
                o.remove("msg");
            }
            if *m != w {
                rep.drift(json!({"text": shown, "model": m, "impl": r["whole"]}));
            }
        }
        if rep.samples.len() < 4 && t.len() > 3 && r["whole"]["ok"] == true {
            rep.sample(json!({"text": shown, "result": r["whole"]}));
        }
    }
    rep.write(outp);
}

pub fn replay(args: &HashMap<String, String>) {
    let input = args.get("in").expect("--in");
    let vectors = read_tlc_vectors(input, "V");
    let texts = vectors.iter().map(|v| (v["text"].as_array().unwrap().iter().map(|b| b.as_u64().unwrap() as u8).collect(), v.get("res").cloned())).collect();
    run_texts(texts, args.get("trace").expect("--trace"), args.get("out").expect("--out"));
}

pub fn drive(args: &HashMap<String, String>) {
    use crate::gen::{Gen, GenOpts};
    use rand::{Rng, SeedableRng};
    let n: usize = args.get("n").map(|s| s.parse().unwrap()).unwrap_or(200);
    let seed = crate::util::seed_from_env() ^ 0xC15;
    let mut rng = rand_chacha::ChaCha8Rng::seed_from_u64(seed);
    let mut g = Gen::new(rand_chacha::ChaCha8Rng::seed_from_u64(seed ^ 1), GenOpts::full());
    let mut texts: Vec<(Vec<u8>, Option<Value>)> = vec![];
    // every token kind, hand written
    for t in ["(a b c)", "(a . b)", "(a b . c)", "((a) (b c) ())", "  ( a\n  b ; comment )\n c )", "\"str\" 'q' 0x00ff -12 12 0 #a #sha256 (#c 1 2)", "#foo (a #bar) #x",
              "(\"multi\nline\" 1)", "(a \"b\\\"c\" d)", "(q . (1 2 3))", "(mod (X)\n  (defun f (A) (+ A 1))\n  (f X))\n", "a", "(a", "a)", "(a . b c)", "(. a)", "(a . . b)",
              "\"open", "(a \"open", "#(a b c d)", "#(a . b)", "()", "( )", "(()())", ";only comment", "", "\n\n(a)\n", "(a;c\nb)", "(a.b)", "(a .b)", "(a. b)", "x y z", "(x) y"] {
        texts.push((t.as_bytes().to_vec(), None));
    }
    // generated programs re-laid-out with random whitespace and comments
    for i in 0..n {
        let p = g.program();
        let src = p.render(["*standard-cl-21*", "*standard-cl-23*", ""][i % 3]);
        let mut out = Vec::new();
        let mut in_str = false;
        for ch in src.bytes() {
            if ch == b'"' {
                in_str = !in_str;
            }
            if ch == b' ' && !in_str {
                match rng.random_range(0..8) {
                    0 => out.extend_from_slice(b"\n  "),
                    1 => out.extend_from_slice(b"  "),
                    2 => out.extend_from_slice(b" ; note (paren) \"quote\n "),
                    _ => out.push(b' '),
                }
            } else {
                out.push(ch);
            }
        }
        if i % 4 == 0 {
            // mutation for the error clause: drop or duplicate one character
            let k = rng.random_range(0..out.len());
            if rng.random_bool(0.5) {
                out.remove(k);
            } else {
                let c = out[k];
                out.insert(k, c);
            }
        }
        if i % 7 == 0 {
            out.truncate(rng.random_range(0..out.len().max(1)));
        }
        texts.push((out, None));
    }
    // shipped sources (tab free)
    for rel in crate::corpus::SHIPPED.iter().take(if n > 500 { 100 } else { 12 }) {
        if let Some((_, t, _)) = crate::corpus::load(rel) {
            if !t.contains('\t') && t.len() < 6000 {
                texts.push((t.into_bytes(), None));
            }
        }
    }
    run_texts(texts, args.get("trace").expect("--trace"), args.get("out").expect("--out"));
}
