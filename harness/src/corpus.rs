// Shipped programs under /repo/resources/tests that compile through the library entry
// point in well under a second (measured on the unchanged tree).
pub const ROOT: &str = "/repo/resources/tests";

pub const SHIPPED: &[&str] = &[
    "game-referee-in-cl21/smoke_test_deep_compare.clsp",
    "game-referee-in-cl21/smoke_test_permutations.clsp",
    "game-referee-in-cl21/smoke_test_sort.clsp",
    "game-referee-in-cl21/test_permutations.clsp",
    "game-referee-in-cl21/test_prepend.clsp",
    "game-referee-in-cl21/test_range.clsp",
    "game-referee-in-cl21/test_reverse.clsp",
    "game-referee-in-cl21/test_sort.clsp",
    "game-referee-after-cl21/smoke_test_deep_compare.clsp",
    "game-referee-after-cl21/test_permutations.clsp",
    "game-referee-after-cl21/test_sort.clsp",
    "game-referee-in-cl23/calpoker_include.clsp",
    "game-referee-in-cl23/deep_compare_t2.clsp",
    "game-referee-in-cl23/noncegame.clsp",
    "game-referee-in-cl23/smoke_test_deep_compare.clsp",
    "game-referee-in-cl23/smoke_test_sort.clsp",
    "game-referee-in-cl23/test_detectwrap.clsp",
    "game-referee-in-cl23/test_prepend.clsp",
    "game-referee-in-cl23/test_range.clsp",
    "game-referee-in-cl23/test_reverse.clsp",
    "cse-bad-letstar.clsp",
    "cse-bad.clsp",
    "cse-complex-21.clsp",
    "cse-overlap.clsp",
    "cse-tricky-basic.clsp",
    "did_innerpuz.clsp",
    "rps-referee.clsp",
    "test_assign_path_opt.clsp",
    "test_recursion_subexp.clsp",
    "test_string_repr.clsp",
    "test_user_path_opt_0.clsp",
    "simple_deinline_case_23.clsp",
    "strict/assert23.clsp",
    "strict/big-maybe.clsp",
    "strict/chialisp-web-example.clsp",
    "strict/cse-complex-1-lambda.clsp",
    "strict/cse-complex-1.clsp",
    "strict/cse_doesnt_dominate.clsp",
    "strict/cse_doesnt_dominate_superior_let.clsp",
    "strict/cse_tricky_assign.clsp",
    "strict/csecond.clsp",
    "strict/defconst.clsp",
    "strict/embed.clsp",
    "strict/map-example.clsp",
    "strict/rosetta_code_abc.clsp",
    "singleton_top_layer.clvm",
];

pub fn search_dirs(rel: &str) -> Vec<String> {
    let dir = std::path::Path::new(rel).parent().map(|p| p.to_str().unwrap().to_string()).unwrap_or_default();
    let mut v = vec![];
    if !dir.is_empty() {
        v.push(format!("{ROOT}/{dir}"));
    }
    v.push(ROOT.to_string());
    v.push(format!("{ROOT}/lib"));
    v
}

pub fn load(rel: &str) -> Option<(String, String, Vec<String>)> {
    let path = format!("{ROOT}/{rel}");
    std::fs::read_to_string(&path).ok().map(|t| (path, t, search_dirs(rel)))
}
