// C14: front ends never crash: any input yields a result or a located error.
use crate::gen::{Gen, GenOpts};
use crate::ops_compile::{compile_lib, CompFail};
use crate::pool::{run_jobs, PoolCfg};
use crate::util::Report;
use serde_json::{json, Value};
use std::collections::HashMap;
use std::io::Write;
use std::rc::Rc;
use std::time::Duration;

pub const ENTRIES: [&str; 11] = ["compile", "assemble", "disassemble", "deserialise", "brun", "run", "cldb", "preprocess", "deps", "usecheck", "repl"];

fn line_lens(text: &str) -> Vec<usize> {
    text.split('\n').map(|l| l.len()).collect()
}

/// the text a location's file name refers to: the input itself, or a built-in pseudo-file
fn pseudo_file_lens(name: &str) -> Option<Vec<usize>> {
    use chialisp::compiler::compiler::DefaultCompilerOpts;
    use chialisp::compiler::comptypes::CompilerOpts;
    let mut acc: Option<Vec<usize>> = None;
    for strict in [false, true] {
        let opts: Rc<dyn CompilerOpts> = Rc::new(DefaultCompilerOpts::new("*x*"));
        let opts = if strict {
            let mut d = opts.dialect();
            d.strict = true;
            opts.set_dialect(d)
        } else {
            opts
        };
        if let Ok((_, content)) = opts.read_new_file("*x*".to_string(), name.to_string()) {
            let t = String::from_utf8_lossy(&content).to_string();
            let a = line_lens(&t);
            if name != "*macros*" {
                return Some(a);
            }
            // *macros* has a strict and a non-strict text and the location does not say which: bound line by line by the longer one
            acc = Some(match acc {
                None => a,
                Some(b) => (0..a.len().max(b.len())).map(|i| a.get(i).copied().unwrap_or(0).max(b.get(i).copied().unwrap_or(0))).collect(),
            });
        }
    }
    acc
}

pub fn op_frontend(job: &Value) -> Value {
    let entry = job["entry"].as_str().unwrap();
    let bytes: Vec<u8> = job["bytes"].as_array().unwrap().iter().map(|b| b.as_u64().unwrap() as u8).collect();
    let text = String::from_utf8_lossy(&bytes).to_string();
    let scratch = job["scratch"].as_str().unwrap_or("/tmp");
    // include files next to the input: written into a directory of their own, which is the search path
    let files: Vec<(String, Vec<u8>)> = job.get("files").and_then(|f| f.as_object()).map(|o| o.iter().map(|(k, v)| (k.clone(), v.as_array().unwrap().iter().map(|b| b.as_u64().unwrap() as u8).collect())).collect()).unwrap_or_default();
    let fdir = format!("{scratch}/c14f_{}", std::process::id());
    let mut search: Vec<String> = vec![];
    if !files.is_empty() || entry == "cldb-file" {
        let _ = std::fs::remove_dir_all(&fdir);
        std::fs::create_dir_all(&fdir).unwrap();
        for (name, content) in &files {
            std::fs::write(format!("{fdir}/{name}"), content).unwrap();
        }
        search.push(fdir.clone());
    }
    let r = op_frontend_inner(job, entry, &bytes, &text, scratch, &files, &fdir, &search);
    if !search.is_empty() {
        let _ = std::fs::remove_dir_all(&fdir);
    }
    r
}

#[allow(clippy::too_many_arguments)]
fn op_frontend_inner(job: &Value, entry: &str, bytes: &[u8], text: &str, scratch: &str, files: &[(String, Vec<u8>)], fdir: &str, search: &[String]) -> Value {
    use chialisp::classic::clvm::__type_compatibility__::{Bytes, BytesFromType, Stream};
    use chialisp::classic::clvm::serialize::{sexp_from_stream, SimpleCreateCLVMObject};
    use chialisp::classic::clvm_tools::binutils::{assemble, disassemble};
    use chialisp::classic::clvm_tools::cmds::launch_tool;
    use clvmr::allocator::Allocator;
    let _ = job;
    let text = text.to_string();
    let bytes = bytes.to_vec();
    // the line lengths of the text a location's file name stands for: the input, a pseudo-file, or an include file
    let lens_of = |file: &str| -> Option<Vec<usize>> {
        if file == "*input*" || file.ends_with("/main.clsp") {
            return Some(line_lens(&text));
        }
        if let Some(l) = pseudo_file_lens(file) {
            return Some(l);
        }
        let base = file.rsplit('/').next().unwrap_or(file);
        files.iter().find(|(n, _)| n == base).map(|(_, c)| line_lens(&String::from_utf8_lossy(c)))
    };
    let ok = |detail: &str| json!({"outcome": "ok", "detail": detail.chars().take(80).collect::<String>()});
    let err = |msg: String| json!({"outcome": "err", "msg": msg.chars().take(200).collect::<String>()});
    match entry {
        "compile" => match compile_lib(&text, "*input*", search, None) {
            Ok(_) => ok("compiled"),
            Err(CompFail::Modern { file, line, col, until, msg }) => {
                let lens = lens_of(&file);
                json!({"outcome": "err", "modern": true, "file": file, "line": line, "col": col, "uline": until.map(|u| u.0).unwrap_or(0), "ucol": until.map(|u| u.1).unwrap_or(0),
                    "lens": lens, "msg": msg.chars().take(200).collect::<String>()})
            }
            Err(CompFail::Classic(m)) => err(m),
        },
        "assemble" => {
            let mut a = Allocator::new();
            match assemble(&mut a, &text) {
                Ok(_) => ok("assembled"),
                Err(e) => err(format!("{e}")),
            }
        }
        "deserialise" | "disassemble" => {
            let mut a = Allocator::new();
            let mut s = Stream::new(Some(Bytes::new(Some(BytesFromType::Raw(bytes.clone())))));
            match sexp_from_stream(&mut a, &mut s, Box::new(SimpleCreateCLVMObject {})) {
                Ok(r) => {
                    if entry == "disassemble" {
                        let t = disassemble(&a, r.1, None);
                        ok(&t)
                    } else {
                        ok("value")
                    }
                }
                Err(e) => err(format!("{e}")),
            }
        }
        "brun" | "run" => {
            let mut s = Stream::new(None);
            let symfile = format!("{scratch}/c14_{}.sym", std::process::id());
            let args: Vec<String> = if entry == "brun" {
                vec!["brun".into(), text.clone(), "(1 2 3)".into()]
            } else {
                vec!["run".into(), "--symbol-output-file".into(), symfile.clone(), text.clone()]
            };
            launch_tool(&mut s, &args, entry, if entry == "brun" { 0 } else { 2 });
            let _ = std::fs::remove_file(&symfile);
            ok(&s.get_value().decode())
        }
        "cldb" => {
            use chialisp::classic::clvm_tools::stages::stage_0::{DefaultProgramRunner, TRunProgram};
            use chialisp::compiler::cldb::{CldbNoOverride, CldbRun, CldbRunEnv};
            use chialisp::compiler::clvm::start_step;
            use chialisp::compiler::sexp::{parse_sexp, SExp};
            use chialisp::compiler::srcloc::Srcloc;
            let forms = match parse_sexp(Srcloc::start("*input*"), bytes.iter().copied()) {
                Ok(f) => f,
                Err(e) => return err(format!("{}: {}", e.0, e.1)),
            };
            if forms.is_empty() {
                return err("no program".into());
            }
            let mut allocator = Allocator::new();
            let runner: Rc<dyn TRunProgram> = Rc::new(DefaultProgramRunner::new());
            let cenv = CldbRunEnv::new(None, Rc::new(vec![]), Box::new(CldbNoOverride::new()));
            let env = Rc::new(SExp::Nil(Srcloc::start("*args*")));
            let mut run = CldbRun::new(runner, chialisp::compiler::prims::prim_map(), Box::new(cenv), start_step(forms[0].clone(), env));
            let mut n = 0;
            while !run.is_ended() && n < 3000 {
                let _ = run.step(&mut allocator);
                n += 1;
            }
            ok(if run.is_ended() { "ended" } else { "step budget" })
        }
        "cldb-file" => {
            // the debugger on a source *file*: compiled as cldb compiles it, stepped with the file's lines at hand (the
            // rows quote the source text of every operator located in the file)
            use chialisp::classic::clvm_tools::comp_input::RunAndCompileInputData;
            use chialisp::classic::clvm_tools::stages::stage_0::{DefaultProgramRunner, TRunProgram};
            use chialisp::classic::platform::argparse::ArgumentValue;
            use chialisp::compiler::cldb::{CldbNoOverride, CldbRun, CldbRunEnv};
            use chialisp::compiler::clvm::start_step;
            use chialisp::compiler::sexp::parse_sexp;
            use chialisp::compiler::srcloc::Srcloc;
            let path = format!("{fdir}/main.clsp");
            std::fs::write(&path, &bytes).unwrap();
            let mut a = Allocator::new();
            let mut pa: HashMap<String, ArgumentValue> = HashMap::new();
            pa.insert("path_or_code".to_string(), ArgumentValue::ArgString(Some(path.clone()), text.clone()));
            pa.insert("include".to_string(), ArgumentValue::ArgArray(search.iter().map(|s| ArgumentValue::ArgString(None, s.clone())).collect()));
            let parsed = match RunAndCompileInputData::new(&mut a, &pa) {
                Ok(p) => p,
                Err(e) => return err(e),
            };
            let mut syms = HashMap::new();
            let program = match parsed.compile_modern(&mut a, &mut syms) {
                Ok(p) => p,
                Err(e) => {
                    let l = &e.0;
                    return json!({"outcome": "err", "modern": true, "file": l.file.to_string(), "line": l.line, "col": l.col,
                        "uline": l.until.as_ref().map(|u| u.line).unwrap_or(0), "ucol": l.until.as_ref().map(|u| u.col).unwrap_or(0),
                        "lens": lens_of(&l.file), "msg": e.1.chars().take(200).collect::<String>()});
                }
            };
            let env = parse_sexp(Srcloc::start("*args*"), "(5 7 11)".bytes()).unwrap()[0].clone();
            let lines: Rc<Vec<String>> = Rc::new(text.lines().map(|x| x.to_string()).collect());
            let runner: Rc<dyn TRunProgram> = Rc::new(DefaultProgramRunner::new());
            let cenv = CldbRunEnv::new(Some(path.clone()), lines, Box::new(CldbNoOverride::new_symbols(syms)));
            let mut run = CldbRun::new(runner, chialisp::compiler::prims::prim_map(), Box::new(cenv), start_step(program, env));
            let mut n = 0;
            while !run.is_ended() && n < 3000 {
                let _ = run.step(&mut a);
                n += 1;
            }
            ok(if run.is_ended() { "ended" } else { "step budget" })
        }
        "preprocess" | "deps" => {
            let path = format!("{scratch}/c14_{}_{}.clsp", std::process::id(), entry);
            std::fs::write(&path, &bytes).unwrap();
            let r = if entry == "deps" {
                let d = crate::p_includes::op_deps(&json!({"file": path, "search": search}));
                if d.get("deps").is_some() { ok("deps") } else { err(d["err"].as_str().unwrap_or("").to_string()) }
            } else {
                let mut s = Stream::new(None);
                let mut a = vec!["run".to_string(), "-E".to_string()];
                for d in search {
                    a.push("-i".to_string());
                    a.push(d.clone());
                }
                a.push(path.clone());
                launch_tool(&mut s, &a, "run", 2);
                ok(&s.get_value().decode())
            };
            let _ = std::fs::remove_file(&path);
            r
        }
        "usecheck" => {
            let r = crate::p_usecheck::op_usecheck(&json!({"text": text, "search": search}));
            if r.get("reported").is_some() { ok("checked") } else { err(r["err"].as_str().unwrap_or("").to_string()) }
        }
        "repl" => {
            use chialisp::classic::clvm_tools::stages::stage_0::DefaultProgramRunner;
            use chialisp::compiler::compiler::DefaultCompilerOpts;
            use chialisp::compiler::repl::Repl;
            let mut allocator = Allocator::new();
            let mut repl = Repl::new(Rc::new(DefaultCompilerOpts::new("*program*")), Rc::new(DefaultProgramRunner::new()));
            let mut last = "none".to_string();
            for line in text.split('\n').take(40) {
                last = match repl.process_line(&mut allocator, line.to_string()) {
                    Ok(_) => "ok".to_string(),
                    Err(e) => format!("{}: {}", e.0, e.1),
                };
            }
            ok(&last)
        }
        other => json!({"error": format!("unknown entry {other}")}),
    }
}

/// split a program text into tokens (parentheses, quoted strings, words) for token-level mutation
fn tokens(src: &str) -> Vec<String> {
    let b = src.as_bytes();
    let mut out = vec![];
    let mut i = 0;
    while i < b.len() {
        let c = b[i];
        if c.is_ascii_whitespace() {
            i += 1;
        } else if c == b'(' || c == b')' {
            out.push((c as char).to_string());
            i += 1;
        } else if c == b'"' {
            let mut j = i + 1;
            while j < b.len() && b[j] != b'"' {
                if b[j] == b'\\' {
                    j += 1;
                }
                j += 1;
            }
            out.push(src[i..(j + 1).min(b.len())].to_string());
            i = j + 1;
        } else {
            let mut j = i;
            while j < b.len() && !b[j].is_ascii_whitespace() && b[j] != b'(' && b[j] != b')' {
                j += 1;
            }
            out.push(src[i..j].to_string());
            i = j;
        }
    }
    out
}

pub fn drive(args: &HashMap<String, String>) {
    use rand::{Rng, SeedableRng};
    let n: usize = args.get("n").map(|s| s.parse().unwrap()).unwrap_or(40);
    let trace = args.get("trace").expect("--trace");
    let outp = args.get("out").expect("--out");
    let scratch = args.get("scratch").expect("--scratch");
    std::fs::create_dir_all(scratch).unwrap();
    let seed = crate::util::seed_from_env() ^ 0xC14;
    let mut rng = rand_chacha::ChaCha8Rng::seed_from_u64(seed);
    let mut g = Gen::new(rand_chacha::ChaCha8Rng::seed_from_u64(seed ^ 3), GenOpts::full());
    let sigils = ["*standard-cl-21*", "*strict-cl-21*", "*standard-cl-22*", "*standard-cl-23*", "*standard-cl-23.1*", "*standard-cl-24*", ""];
    let mut inputs: Vec<(String, Vec<u8>)> = vec![];
    // valid programs and their single-token mutations
    let mut sources: Vec<String> = vec![];
    for i in 0..n {
        g.o = if i % 2 == 0 { GenOpts::core() } else { GenOpts::full() };
        g.o.depth = 2;
        let p = g.program();
        sources.push(p.render(sigils[i % sigils.len()]));
    }
    for rel in crate::corpus::SHIPPED.iter().take(if n > 100 { 30 } else { 3 }) {
        if let Some((_, t, _)) = crate::corpus::load(rel) {
            if t.len() < 1500 {
                sources.push(t);
            }
        }
    }
    for src in &sources {
        let toks = tokens(src);
        inputs.push(("valid".into(), src.clone().into_bytes()));
        let per = if n > 100 { toks.len() } else { 6 };
        for _ in 0..per {
            let k = rng.random_range(0..toks.len());
            let mut t = toks.clone();
            match rng.random_range(0..3) {
                0 => {
                    t.remove(k);
                }
                1 => {
                    let x = t[k].clone();
                    t.insert(k, x);
                }
                _ => {
                    if k + 1 < t.len() {
                        t.swap(k, k + 1);
                    }
                }
            }
            inputs.push(("token-mutation".into(), t.join(" ").into_bytes()));
        }
        // truncation at byte offsets
        let cuts = if n > 100 { src.len() } else { 5 };
        for _ in 0..cuts {
            let k = rng.random_range(0..src.len());
            inputs.push(("truncation".into(), src.as_bytes()[..k].to_vec()));
        }
    }
    // token soup over keywords and delimiters
    let vocab = ["(", ")", "(", ")", ".", "mod", "defun", "defun-inline", "defmacro", "defconstant", "defconst", "let", "let*", "assign", "lambda", "&rest", "@", "(@", "qq", "unquote",
        "include", "*standard-cl-21*", "*standard-cl-23*", "*strict-cl-21*", "embed-file", "if", "list", "c", "f", "r", "a", "q", "x", "+", "X", "Y", "1", "-1", "0x", "0xff", "\"s\"", "'", "\"", "#", "#(", ";", "com", "$print$", "&", "1e9", ".."];
    for i in 0..(n * 4) {
        let len = rng.random_range(1..30);
        let mut t: Vec<&str> = (0..len).map(|_| vocab[rng.random_range(0..vocab.len())]).collect();
        if i % 2 == 0 {
            t.insert(0, "mod");
            t.insert(0, "(");
            t.push(")");
        }
        inputs.push(("token-soup".into(), t.join(" ").into_bytes()));
    }
    // regression corpus: the smallest inputs of every crash repaired so far (known_findings.json, property C14)
    for t in [
        "(mod (P1) (include *standard-cl-23*) (defun f (X) X) (defun g (Y) (f 1)) (g P1))",
        "(mod (P1) (include *standard-cl-24*) (defun f (X) (+ X 1)) (defun g (Y) (* Y (f 3))) (g P1))",
        "(mod (P1 P4) (include *standard-cl-23*) (let ((S11 P4)) (P1)))",
        "(mod () (include *standard-cl-22*) (c 1 c (2 2)))",
        "(mod () (include *standard-cl-21*) (defun-inline F (X) (if 1 X X)) (defun F (X) 1) (a (lambda (Z) (F Z)) (list 5)))",
        "(mod () (include *standard-cl-23*) (defmac m () (string?)) (m))",
        "(mod () (include *standard-cl-23*) (defmac m () (qq (m))) (m))",
        "(mod (X) (include *standard-cl-21*) (defmacro m () (qq (m))) (m X))",
        "(defun (a) 1)",
        "(mod)",
        "(mod . ())",
        "(com)",
    ] {
        inputs.push(("regression".into(), t.as_bytes().to_vec()));
    }
    // bare and one-argument special forms: every keyword the front ends treat specially with no argument, nil, one atom
    // and one pair, as a REPL line / bare form and as the body of a module under three sigils
    for kw in ["defun", "defun-inline", "defmacro", "defmac", "defconstant", "defconst", "let", "let*", "assign", "lambda", "if", "list", "qq", "unquote", "com", "mod", "include",
        "embed-file", "@", "@*env*", "q", "a", "quote", "&rest", "x", "softfork", "string?", "substring"] {
        for args in ["", " ()", " X", " (X)", " X X", " (X . X)", " . X"] {
            let f = format!("({kw}{args})");
            inputs.push(("bare-forms".into(), f.clone().into_bytes()));
            for sig in ["*standard-cl-21*", "*standard-cl-22*", "*standard-cl-23*"] {
                inputs.push(("bare-forms".into(), format!("(mod (X) (include {sig}) {f})").into_bytes()));
            }
            inputs.push(("bare-forms".into(), format!("(mod (X) {f})").into_bytes()));
            inputs.push(("bare-forms".into(), format!("(mod (X) (include *standard-cl-21*) (defun g (Y) {f}) (g X))").into_bytes()));
        }
    }
    // structured soup: balanced forms whose slots (name, parameter list, body) are filled with the wrong kind of thing:
    // definition keywords of both macro systems, the defmac-only string / number functions with any number of
    // arguments, macros calling themselves; as a whole module and as a bare form (a REPL line)
    {
        let kws = ["defun", "defun-inline", "defmacro", "defmac", "defconstant", "defconst", "let", "let*", "assign", "lambda", "if", "list", "qq", "unquote", "com", "mod", "include", "embed-file",
            "string?", "number?", "symbol?", "string->symbol", "symbol->string", "string->number", "number->string", "string-append", "string-length", "substring"];
        let atoms = ["m", "f", "X", "Y", "1", "0", "-1", "\"s\"", "()", "&rest", "@", "q", "a", "c", "+", "0xff", "m", "ARGS", "bin", "hex", "sexp"];
        fn form(rng: &mut rand_chacha::ChaCha8Rng, kws: &[&str], atoms: &[&str], depth: usize) -> String {
            use rand::Rng;
            let n = rng.random_range(0..5);
            let mut items: Vec<String> = vec![];
            if rng.random_bool(0.7) {
                items.push(kws[rng.random_range(0..kws.len())].to_string());
            }
            for _ in 0..n {
                if depth > 0 && rng.random_range(0..3) == 0 {
                    items.push(form(rng, kws, atoms, depth - 1));
                } else {
                    items.push(atoms[rng.random_range(0..atoms.len())].to_string());
                }
            }
            if rng.random_range(0..12) == 0 && items.len() >= 2 {
                let last = items.pop().unwrap();
                format!("({} . {})", items.join(" "), last)
            } else {
                format!("({})", items.join(" "))
            }
        }
        let sig = ["*standard-cl-21*", "*standard-cl-22*", "*standard-cl-23*", "*standard-cl-23.1*", "*standard-cl-24*", "*strict-cl-21*"];
        for i in 0..(n * 8) {
            let k = rng.random_range(1..4);
            let forms: Vec<String> = (0..k).map(|_| form(&mut rng, &kws, &atoms, 2)).collect();
            if i % 3 == 0 {
                inputs.push(("structured-soup".into(), forms[0].clone().into_bytes()));
            } else {
                inputs.push(("structured-soup".into(), format!("(mod (X) (include {}) {} (m X))", sig[i % sig.len()], forms.join(" ")).into_bytes()));
            }
        }
        // the defmac-only functions with arguments of the wrong kind or out of range
        for body in ["(substring \"abc\" 1 10)", "(substring \"abc\" 5 2)", "(substring \"abc\" 4 4)", "(substring \"abc\" 3 3)", "(substring \"\" 0 1)", "(substring 5 0 1)", "(substring \"abc\" -1 2)",
            "(substring \"abc\" \"a\" 2)", "(string->number \"zz\")", "(string->number \"\")", "(number->string \"a\")", "(number->string ())", "(string-append 1 2)", "(string-append \"a\" 5)",
            "(string-length 5)", "(string-length ())", "(symbol->string 5)", "(symbol->string \"s\")", "(string->symbol 5)", "(string->symbol \"\")", "(string? (q . (1 2)))", "(number? \"5\")", "(symbol? ())",
            "(substring (string-append \"ab\" \"cd\") 2 9)", "(string->symbol (substring \"abcdef\" 2 99))"] {
            for sig in ["*standard-cl-23*", "*standard-cl-24*"] {
                inputs.push(("defmac-functions".into(), format!("(mod (X) (include {sig}) (defmac m () {body}) (m))").into_bytes()));
                inputs.push(("defmac-functions".into(), format!("(mod (X) (include {sig}) (defmac m (A) (qq (c (unquote A) (unquote {body})))) (m X))").into_bytes()));
            }
        }
        // definition forms with a slot of the wrong kind, one by one
        for kw in ["defun", "defun-inline", "defmacro", "defmac", "defconstant", "defconst"] {
            for shape in ["({kw} (a) 1)", "({kw} a)", "({kw})", "({kw} a . 1)", "({kw} a 1 . 2)", "({kw} \"s\" (X) X)", "({kw} 1 (X) X)", "({kw} m () (qq (m)))", "({kw} m () (string?))", "({kw} m (X) (substring X 1))"] {
                let f = shape.replace("{kw}", kw);
                inputs.push(("definition-slots".into(), f.clone().into_bytes()));
                inputs.push(("definition-slots".into(), format!("(mod (X) (include *standard-cl-23*) {f} (m X))").into_bytes()));
                inputs.push(("definition-slots".into(), format!("(mod (X) (include *standard-cl-21*) {f} (m X))").into_bytes()));
                // (the classic compiler spends minutes on a self-recursive macro, open finding C14-K2: thorough tier only)
                if n > 100 || !(kw == "defmacro" && shape.contains("(qq (m))")) {
                    inputs.push(("definition-slots".into(), format!("(mod (X) {f} (m X))").into_bytes()));
                }
            }
        }
    }
    // random bytes, REPL lines whose parenthesis count differs from their structure, deep nesting (<= 200)
    for _ in 0..n {
        let len = rng.random_range(0..40);
        inputs.push(("random-bytes".into(), (0..len).map(|_| rng.random::<u8>()).collect()));
        let len = rng.random_range(1..12);
        inputs.push(("random-serialised".into(), (0..len).map(|_| [0xffu8, 0x80, 0x01, 0xc0, 0xfe, 0xfc, 0x81, 0x40, 0xe0, 0x00][rng.random_range(0..10)]).collect()));
    }
    for l in [")", "(", "\")\"", "; )", "(+ 1 \")\")", "(defun f (X) \n (+ X 1))\n(f 3)", "))) (((", "(list 1 2", "\"(\" )", "'(' ", "(a . )", "( . a)", "#(", "(q . \"\\\")"] {
        inputs.push(("repl-lines".into(), l.as_bytes().to_vec()));
    }
    for depth in [50usize, 120, 200] {
        inputs.push(("nesting".into(), format!("{}1{}", "(".repeat(depth), ")".repeat(depth)).into_bytes()));
        inputs.push(("nesting".into(), format!("(mod (X) {}X{})", "(f ".repeat(depth), ")".repeat(depth)).into_bytes()));
        inputs.push(("nesting".into(), vec![0xff; depth].into_iter().chain(vec![0x80; depth + 1]).collect()));
    }
    // full-size valid programs of every generator profile under every sigil: the compiling entry points only
    // (a compiler that crashes or loops on a *valid* program is the same defect as one that crashes on a malformed one)
    let first_deep = inputs.len();
    {
        let mut gd = Gen::new(rand_chacha::ChaCha8Rng::seed_from_u64(seed ^ 0xdee9), GenOpts::full());
        let builds = ["cl21", "s21", "cl22", "cl23", "cl231", "cl24", "classic"];
        let mut made = 0;
        let mut i = 0;
        while made < n * 12 && i < n * 40 {
            gd.o = match i % 4 { 0 => GenOpts::core(), 1 => GenOpts::cse(), 2 => GenOpts::classic(), _ => GenOpts::full() };
            let p = gd.program();
            let b = builds[i % builds.len()];
            i += 1;
            if !crate::p_compile::renderable(&p, b) {
                continue;
            }
            inputs.push(("valid-deep".into(), p.render(crate::p_compile::sigil_of(b)).into_bytes()));
            made += 1;
        }
    }
    // inputs that come with include files and / or go to a subset of the entry points
    let mut extras: HashMap<usize, (Vec<(String, Vec<u8>)>, Vec<&'static str>)> = HashMap::new();
    {
        let sigs = ["*standard-cl-21*", "*standard-cl-23*", "*strict-cl-21*", "*standard-cl-24*", ""];
        let inc = |sig: &str| if sig.is_empty() { String::new() } else { format!("(include {sig}) ") };
        // include files of every degenerate kind, reached by include and by the three kinds of embed-file
        let contents: Vec<(&str, Vec<u8>)> = vec![
            ("empty", b"".to_vec()), ("comment-only", b"; nothing\n".to_vec()), ("blank", b"   \n\n".to_vec()), ("nil", b"()".to_vec()), ("nil-in-list", b"(())".to_vec()),
            ("open", b"(".to_vec()), ("close", b")".to_vec()), ("atom", b"x".to_vec()), ("atom-list", b"(x)".to_vec()),
            ("self", b"((include f.clib))".to_vec()), ("mutual", b"((include g.clib))".to_vec()), ("unclosed-defun", b"((defun f (X) X)".to_vec()),
            ("binary", vec![0xff, 0xfe, 0x00, 0x28]), ("trailing", b"((defconstant K 1)) trailing".to_vec()),
            ("fine", b"(\n(defun h (X) (+ X 1))\n)".to_vec()), ("open-string", b"\"unterminated".to_vec()), ("missing-inside", b"((include missing.clib))".to_vec()),
            ("embed-self", b"((embed-file Q bin f.clib))".to_vec()), ("dotted", b"((defun f (X) X) . 5)".to_vec()), ("two-forms", b"((defconstant K 1)) ((defconstant L 2))".to_vec()),
            ("deep", format!("{}x{}", "(".repeat(120), ")".repeat(120)).into_bytes()), ("hex-junk", b"zz".to_vec()), ("hex-odd", b"abc".to_vec()),
        ];
        let uses = ["(include f.clib)", "(embed-file K sexp f.clib)", "(embed-file K hex f.clib)", "(embed-file K bin f.clib)", "(include f.clib) (include f.clib)"];
        for (si, sig) in sigs.iter().enumerate() {
            for (ui, u) in uses.iter().enumerate() {
                for (ci, (_, c)) in contents.iter().enumerate() {
                    // quick tier: every content under every use for two sigils, a third of the rest
                    if n <= 100 && si >= 2 && (ci + ui + si) % 3 != 0 {
                        continue;
                    }
                    let body = if ui == 0 || ui == 4 { "X" } else { "(c K X)" };
                    let text = format!("(mod (X) {}{u} {body})", inc(sig));
                    extras.insert(inputs.len(), (vec![("f.clib".to_string(), c.clone()), ("g.clib".to_string(), b"((include f.clib))".to_vec())],
                        vec!["compile", "deps", "preprocess", "usecheck", "cldb-file"]));
                    inputs.push(("include-files".into(), text.into_bytes()));
                }
            }
        }
        // compile-time code that does not terminate, or not soon: in a defmac body, a defmacro, a constant
        for sig in ["*strict-cl-21*", "*standard-cl-23*", "*standard-cl-24*", "*standard-cl-21*"] {
            for t in [
                "(defun lp (x) (lp x)) (defmac m (x) (lp x)) (m 1)",
                "(defun lp (x) (lp (c x x))) (defmac m (x) (lp x)) (m 1)",
                "(defun cnt (n) (if n (cnt (- n 1)) 7)) (defmac m (x) (cnt 100000)) (m 1)",
                "(defun cnt (n) (if n (cnt (- n 1)) 7)) (defmac m (x) (cnt 50)) (m 1)",
                "(defmac m (x) (m2 x)) (defmac m2 (x) (m x)) (m 1)",
                "(defun lp (x) (lp x)) (defconst K (lp 1)) K",
                "(defun lp (x) (lp x)) (defconstant K (lp 1)) K",
                "(defmacro m (x) (qq (m2 (unquote x)))) (defmacro m2 (x) (qq (m (unquote x)))) (m 1)",
                "(defun lp (x) (lp x)) (lp 1)",
                "(defun-inline lp (x) (lp2 x)) (defun lp2 (x) (lp x)) (lp 1)",
            ] {
                extras.insert(inputs.len(), (vec![], vec!["compile", "usecheck", "preprocess", "deps", "cldb-file"]));
                inputs.push(("compile-time-divergence".into(), format!("(mod (X) (include {sig}) {t})").into_bytes()));
            }
        }
        // raw apply of quoted code that is an environment path of every sign and width (what the partial evaluator and
        // the unused-argument check meet when a program applies data)
        for sig in ["*standard-cl-21*", "*standard-cl-22*", "*standard-cl-23*", ""] {
            for pth in ["-1", "0xff", "-128", "0x80", "255", "0", "1", "2", "0xffff", "-32768", "0x0001", "0x00ff", "-129", "0x8000", "18446744073709551615", "-18446744073709551616", "()", "\"a\""] {
                for envx in ["(c x x)", "x", "()", "(list x x x)", "@"] {
                    let t = format!("(mod (x) {}(a (q . {pth}) {envx}))", inc(sig));
                    extras.insert(inputs.len(), (vec![], vec!["compile", "usecheck", "cldb-file", "run"]));
                    inputs.push(("apply-path-atoms".into(), t.into_bytes()));
                }
            }
        }
        // source texts in which columns and bytes part ways: tabs and non-ASCII characters before, between and after the
        // operators on a line, in comments and in strings (the debugger quotes source text by column)
        for sig in ["*standard-cl-21*", "*standard-cl-23*"] {
            for t in [
                "(mod (X)\n  (include SIG)\n  (defun f (A) (+ A 1))\n\t(f X));\u{e9}\n",
                "(mod (X)\n  (include SIG)\n\t\t(+ X 1));\u{e9}\u{e9}\u{e9}\u{e9}\u{e9}\u{e9}\n",
                "; \u{e9}\u{e9}\u{e9}\u{e9}\u{e9}\u{e9}\u{e9}\u{e9}\u{e9}\u{e9}\u{e9}\u{e9}\n(mod (X) (include SIG) (+ X 1))",
                "(mod (X) (include SIG) (c \"\u{e9}\u{e9}\" (+ X 1))) ;\u{4e2d}\u{6587}",
                "(mod (X) (include SIG)\t(c \"\u{1f600}\"\t(+ X\t1)))\t;\u{1f600}",
                "\t(mod (X) (include SIG) (defun g (A) (* A 2)) (+ (g X) 1))\u{e9}",
                "(mod (X) (include SIG) (defun-inline g (A) (* A 2))\n\t\t\t\t(+ (g X) (g 1)))\u{e9}\u{e9}",
                "(mod (\u{e9}) (include SIG) (+ \u{e9} 1))",
                "(mod (X) (include SIG) (+ X 1))\r\n\t;\u{e9}\r\n",
            ] {
                let text = t.replace("SIG", sig);
                extras.insert(inputs.len(), (vec![], vec!["cldb-file", "compile", "repl", "preprocess"]));
                inputs.push(("tabs-and-wide-characters".into(), text.into_bytes()));
            }
        }
        // calls with constant arguments, k per helper body, in 1..3 helpers and in the main expression (cl23+ folds such a
        // call by compiling and running the helpers at compile time, once, under a guard)
        for sig in ["*standard-cl-23*", "*standard-cl-23.1*", "*standard-cl-24*", "*standard-cl-21*", "*standard-cl-22*"] {
            for helpers in 1..=3usize {
                for calls in 1..=3usize {
                    for shape in 0..3usize {
                        let callee = "(defun f (A) (* A 2)) (defun-inline fi (A) (+ A 3))";
                        let mut defs = String::new();
                        for h in 0..helpers {
                            let cs: Vec<String> = (0..calls).map(|k| match shape {
                                0 => format!("(f {})", k + 1),
                                1 => format!("(f (fi {}))", k + 1),
                                _ => format!("(f (f {}))", k + 1),
                            }).collect();
                            defs.push_str(&format!(" (defun g{h} (Y) (+ Y {}))", cs.join(" ")));
                        }
                        let main: Vec<String> = (0..helpers).map(|h| format!("(g{h} X)")).collect();
                        let t = format!("(mod (X) (include {sig}) {callee}{defs} (+ (f 5) {}))", main.join(" "));
                        extras.insert(inputs.len(), (vec![], vec!["compile", "usecheck", "cldb-file"]));
                        inputs.push(("constant-calls".into(), t.into_bytes()));
                    }
                }
            }
        }
    }
    let mut jobs = vec![];
    let mut owner = vec![];
    for (ii, (_, b)) in inputs.iter().enumerate() {
        if let Some((files, entries)) = extras.get(&ii) {
            let fj: serde_json::Map<String, Value> = files.iter().map(|(k, v)| (k.clone(), json!(v))).collect();
            for e in entries {
                jobs.push(json!({"op": "frontend", "entry": e, "bytes": b, "scratch": scratch, "files": fj}));
                owner.push((ii, *e));
            }
            continue;
        }
        for e in ENTRIES {
            if ii >= first_deep && !matches!(e, "compile" | "usecheck" | "preprocess") {
                continue;
            }
            jobs.push(json!({"op": "frontend", "entry": e, "bytes": b, "scratch": scratch}));
            owner.push((ii, e));
        }
    }
    let cfg = PoolCfg { batch: 1, timeout: Duration::from_secs(30), ..PoolCfg::default() };
    let results = run_jobs(jobs, &cfg);
    let mut rep = Report::default();
    let mut f = std::io::BufWriter::new(std::fs::File::create(trace).expect("trace"));
    for ((ii, e), r) in owner.iter().zip(results.iter()) {
        rep.evaluations += 1;
        let (family, bytes) = &inputs[*ii];
        let outcome = if r.get("panic").is_some() { "panic" } else if r.get("abort").is_some() { "abort" } else if r.get("timeout").is_some() { "timeout" }
            else { r["outcome"].as_str().unwrap_or("garbled") };
        // a *valid* generated program that is still compiling after the confirmation limit is not evidence of a loop:
        // inline expansion copies the argument expression once per use of the parameter, so a few nested inline calls
        // take hours by design.  Such runs are inconclusive ("slow"), counted and not judged.
        let outcome = if outcome == "timeout" && family == "valid-deep" { "slow" } else { outcome };
        rep.count(&format!("{e}_{outcome}"));
        rep.nontrivial(&format!("{}|{:?}", e, bytes));
        let modern = r.get("modern").is_some();
        let lens = r.get("lens").cloned().unwrap_or(json!([]));
        writeln!(f, "{}", json!({"entry": e, "family": family, "outcome": outcome, "located": modern, "known_file": !lens.is_null(),
            "file_is_pseudo": r.get("file").and_then(|x| x.as_str()).map(|s| s.starts_with('*') && s != "*input*").unwrap_or(false),
            "line": r.get("line").cloned().unwrap_or(json!(0)), "col": r.get("col").cloned().unwrap_or(json!(0)),
            "uline": r.get("uline").cloned().unwrap_or(json!(0)), "ucol": r.get("ucol").cloned().unwrap_or(json!(0)),
            "lens": if lens.is_null() { json!([]) } else { lens }})).unwrap();
        rep.traces += 1;
        if matches!(outcome, "panic" | "abort" | "timeout" | "garbled") {
            let files_json: serde_json::Map<String, Value> = extras.get(ii).map(|(fs, _)| fs.iter().map(|(k, v)| (k.clone(), json!(v))).collect()).unwrap_or_default();
            rep.violation(json!({"property": "C14", "kind": format!("entry-point-{outcome}"), "entry": e, "family": family, "bytes": bytes, "files": files_json,
                "text": String::from_utf8_lossy(bytes).chars().take(600).collect::<String>(), "observed": r}));
        }
        if rep.samples.len() < 4 && outcome == "err" && modern {
            rep.sample(json!({"entry": e, "text": String::from_utf8_lossy(bytes).chars().take(200).collect::<String>(), "result": r}));
        }
    }
    rep.write(outp);
}
