// C05: compilation is a pure function of source, include files and options.
// Histories (sequences of compilations on threads, starting counter, starting integer
// mode) are executed each in a fresh child process; outputs of equal jobs are compared
// across all histories, and the observed Begin/End events are traced for
// Trace_CompileHistory.tla.
use crate::corpus;
use crate::ops_compile::compile_lib;
use crate::util::{hash_str, read_tlc_vectors, Report};
use crate::val::serialize;
use serde_json::{json, Value};
use std::collections::{BTreeMap, HashMap};
use std::io::Write;
use std::process::{Command, Stdio};
use std::rc::Rc;
use std::sync::atomic::{AtomicUsize, Ordering};
use std::sync::Arc;

// ------------------------------------------------------------------ job catalogue
pub struct JobSrc {
    pub key: String,
    pub text: String,
    pub file: String,
    pub search: Vec<String>,
}

fn gen_jobs() -> BTreeMap<u64, Vec<JobSrc>> {
    let mut m: BTreeMap<u64, Vec<JobSrc>> = BTreeMap::new();
    let body_defs = [
        "(defun f (A B) (let ((Q (+ A 1)) (R (* B 2))) (list Q R (let* ((S (+ Q R)) (U (* S S))) (- U A))))) (f X Y)",
        "(defun-inline g (A (B . C)) (c A (c B C))) (defun h (L) (if L (c (g (f L) (list 1 2)) (h (r L))) ())) (h (list X Y))",
        "(defun m (F L) (if L (c (a F (list (f L))) (m F (r L))) ())) (m (lambda ((& X) Z) (+ X Z)) (list Y 1 2))",
        "(defun k (A) (assign (P . Q) (c A (+ A 1)) R (* P Q) (list P Q R (assign T (+ R 1) T)))) (k X)",
        "(defconstant CC 17) (defun-inline sq (V) (* V V)) (defun t1 (V) (+ (sq (+ V CC)) (sq (+ V CC)) (sq (+ V CC)))) (t1 (+ X Y))",
    ];
    for (i, b) in body_defs.iter().enumerate() {
        for (class, sigil) in [(1u64, "*standard-cl-21*"), (2, "*standard-cl-23.1*"), (2, "*standard-cl-24*"), (2, "*standard-cl-23*"), (1, "*standard-cl-22*")] {
            // cl22 cannot compile lambdas
            if sigil == "*standard-cl-22*" && b.contains("lambda") {
                continue;
            }
            m.entry(class).or_default().push(JobSrc {
                key: format!("gen{i}:{sigil}"),
                text: format!("(mod (X Y) (include {sigil}) {b})"),
                file: "*verif*".to_string(),
                search: vec![],
            });
        }
        if !b.contains("let") && !b.contains("assign") && !b.contains("lambda") {
            m.entry(4).or_default().push(JobSrc { key: format!("gen{i}:classic"), text: format!("(mod (X Y) {b})"), file: "*verif*".to_string(), search: vec![] });
        }
    }
    m.entry(4).or_default().push(JobSrc { key: "classic-destructure".into(), text: "(mod (X Y) (defun-inline p2 ((A . B) C) (+ A B C)) (defun w (Z) (* Z 2)) (w (p2 X Y)))".into(), file: "*verif*".into(), search: vec![] });
    m.entry(4).or_default().push(JobSrc { key: "classic-consts".into(), text: "(mod (X) (defconstant K 0x00ff) (defmacro twice (V) (qq (+ (unquote V) (unquote V)))) (list K (twice X) \"str\" -1 0 0x00))".into(), file: "*verif*".into(), search: vec![] });
    // failing jobs: draw names, then fail
    m.entry(3).or_default().push(JobSrc { key: "fail23".into(), text: "(mod (X) (include *standard-cl-23*) (defun f (A) (let ((Q (+ A 1))) (+ Q ZZZ))) (f X))".into(), file: "*verif*".into(), search: vec![] });
    m.entry(3).or_default().push(JobSrc { key: "fail231".into(), text: "(mod (X) (include *standard-cl-23.1*) (defun-inline r1 (A) (r2 A)) (defun-inline r2 (A) (r1 A)) (let ((Q 1)) (r1 (+ Q X))))".into(), file: "*verif*".into(), search: vec![] });
    // programs whose compilation folds a call with constant arguments (a nested compilation inside the optimiser), and
    // programs that fail inside exactly that nested compilation: state set up for it must not survive the failure
    for sigil in ["*standard-cl-23*", "*standard-cl-23.1*", "*standard-cl-24*"] {
        m.entry(2).or_default().push(JobSrc { key: format!("fold:{sigil}"), text: format!("(mod (X) (include {sigil}) (defun g (A) (* A 2)) (defun h (B) (+ B (g 5))) (+ X (g 3) (h 1)))"), file: "*verif*".into(), search: vec![] });
        m.entry(3).or_default().push(JobSrc { key: format!("failfold:{sigil}"), text: format!("(mod (X) (include {sigil}) (defun f (A) (nosuch A 2)) (+ X (f 3)))"), file: "*verif*".into(), search: vec![] });
        m.entry(3).or_default().push(JobSrc { key: format!("failfold2:{sigil}"), text: format!("(mod (X) (include {sigil}) (defun f (A) (x A)) (defun k (B) (f 1)) (+ X (k 3)))"), file: "*verif*".into(), search: vec![] });
    }
    m.entry(5).or_default().push(JobSrc { key: "fail21".into(), text: "(mod (X) (include *standard-cl-21*) (defun f (A) (let ((Q (+ A 1))) (nosuchfunction Q))) (f X))".into(), file: "*verif*".into(), search: vec![] });
    m.entry(5).or_default().push(JobSrc { key: "fail21syntax".into(), text: "(mod (X) (include *standard-cl-21*) (defun f (A) (let ((Q (+ A 1))) Q)) (f X)".into(), file: "*verif*".into(), search: vec![] });
    m
}

fn shipped_jobs() -> Vec<JobSrc> {
    corpus::SHIPPED.iter().filter_map(|rel| corpus::load(rel).map(|(path, text, search)| JobSrc { key: format!("shipped:{rel}"), text, file: path, search })).collect()
}

fn job_json(j: &JobSrc) -> Value {
    json!({"key": j.key, "text": j.text, "file": j.file, "search": j.search})
}

// ------------------------------------------------------------------ child: run one history
fn observe_mode() -> bool {
    // truthy(0x00 as a byte string) differs between the two integer modes
    chialisp::compiler::clvm::truthy(Rc::new(chialisp::compiler::sexp::SExp::Atom(crate::rich::loc(), vec![0])))
}

fn normalise_symbols(s: &HashMap<String, String>) -> BTreeMap<String, String> {
    // entries naming synthesised helpers are compared up to the numeric suffix after _$_
    let strip = |v: &str| -> String {
        let mut out = String::new();
        let mut rest = v;
        while let Some(i) = rest.find("_$_") {
            out.push_str(&rest[..i + 3]);
            rest = &rest[i + 3..];
            let digits = rest.chars().take_while(|c| c.is_ascii_digit()).count();
            out.push('N');
            rest = &rest[digits..];
        }
        out.push_str(rest);
        out
    };
    s.iter().map(|(k, v)| (strip(k), strip(v))).collect()
}

fn run_job(j: &Value) -> Value {
    let ctr_before = chialisp::compiler::gensym::ARGNAME_CTR.load(Ordering::SeqCst);
    let mode_before = observe_mode();
    let search: Vec<String> = j["search"].as_array().unwrap().iter().map(|x| x.as_str().unwrap().to_string()).collect();
    let r = std::panic::catch_unwind(|| compile_lib(j["text"].as_str().unwrap(), j["file"].as_str().unwrap(), &search, None));
    let mode_after = observe_mode();
    let ctr_after = chialisp::compiler::gensym::ARGNAME_CTR.load(Ordering::SeqCst);
    let mut out = json!({"key": j["key"], "mode_before": mode_before, "mode_after": mode_after, "ctr_before": ctr_before, "ctr_after": ctr_after});
    match r {
        Ok(Ok(c)) => {
            let mut b = vec![];
            serialize(&c.code, &mut b);
            out["code"] = json!(hex::encode(b));
            out["symbols"] = json!(normalise_symbols(&c.symbols));
            out["raw_names"] = json!(c.symbols.values().filter(|v| v.contains("_$_")).cloned().collect::<Vec<_>>());
        }
        Ok(Err(e)) => {
            out["err"] = json!(e.msg());
        }
        Err(_) => {
            out["panic"] = json!(true);
        }
    }
    out
}

pub fn child(args: &HashMap<String, String>) {
    let input = args.get("in").expect("--in");
    let h: Value = crate::util::parse_json(&std::fs::read_to_string(input).unwrap()).unwrap();
    let c0 = h["c0"].as_u64().unwrap() as usize;
    let m0 = h["m0"].as_bool().unwrap();
    chialisp::compiler::gensym::ARGNAME_CTR.store(c0, Ordering::SeqCst);
    let events = h["events"].as_array().unwrap().clone();
    // per thread: (begin event index, job)
    let mut per_thread: BTreeMap<u64, Vec<(usize, Value)>> = BTreeMap::new();
    let mut end_index: HashMap<(u64, usize), usize> = HashMap::new(); // (thread, nth job) -> event index of its end
    let mut nth: HashMap<u64, usize> = HashMap::new();
    for (i, e) in events.iter().enumerate() {
        let t = e[1].as_u64().unwrap();
        if e[0] == "begin" {
            per_thread.entry(t).or_default().push((i, e[2].clone()));
        } else {
            let k = nth.entry(t).or_insert(0);
            end_index.insert((t, *k), i);
            *k += 1;
        }
    }
    let ended: Arc<Vec<AtomicUsize>> = Arc::new((0..events.len()).map(|_| AtomicUsize::new(0)).collect());
    let is_end: Vec<bool> = events.iter().map(|e| e[0] == "end").collect();
    let results = Arc::new(std::sync::Mutex::new(Vec::<Value>::new()));
    let on_main = h["main_thread"].as_bool().unwrap_or(false) && per_thread.len() == 1;
    let mut handles = vec![];
    let run_thread = move |t: u64, jobs: Vec<(usize, Value)>, ended: Arc<Vec<AtomicUsize>>, is_end: Vec<bool>, end_index: HashMap<(u64, usize), usize>, results: Arc<std::sync::Mutex<Vec<Value>>>| {
        // the thread's initial integer mode (the guard is leaked on purpose: it *is* the initial state)
        std::mem::forget(chialisp::compiler::clvm::NewStyleIntConversion::new(m0));
        for (k, (b, job)) in jobs.into_iter().enumerate() {
            // wait for every End that precedes this Begin in the history
            loop {
                let ready = (0..b).all(|i| !is_end[i] || ended[i].load(Ordering::SeqCst) == 1);
                if ready {
                    break;
                }
                std::thread::yield_now();
            }
            let mut r = run_job(&job);
            r["thread"] = json!(t);
            r["begin_index"] = json!(b);
            results.lock().unwrap().push(r);
            if let Some(ei) = end_index.get(&(t, k)) {
                ended[*ei].store(1, Ordering::SeqCst);
            }
        }
    };
    if on_main {
        let (t, jobs) = per_thread.into_iter().next().unwrap();
        run_thread(t, jobs, ended.clone(), is_end.clone(), end_index.clone(), results.clone());
    } else {
        for (t, jobs) in per_thread {
            let (e2, ie, ei, rs) = (ended.clone(), is_end.clone(), end_index.clone(), results.clone());
            let rt = run_thread.clone();
            handles.push(std::thread::Builder::new().stack_size(64 << 20).spawn(move || rt(t, jobs, e2, ie, ei, rs)).unwrap());
        }
        for hd in handles {
            let _ = hd.join();
        }
    }
    let rs = results.lock().unwrap().clone();
    println!("{}", json!({"c0": c0, "m0": m0, "results": rs}));
}

// ------------------------------------------------------------------ parent
fn run_child(hist: &Value, scratch: &str, idx: usize) -> Value {
    let path = format!("{scratch}/hist_{idx}.json");
    std::fs::write(&path, hist.to_string()).unwrap();
    let out = Command::new(std::env::current_exe().unwrap())
        .args(["c05-child", "--in", &path])
        .stdin(Stdio::null())
        .stderr(Stdio::null())
        .output()
        .expect("spawn c05 child");
    let _ = std::fs::remove_file(&path);
    let s = String::from_utf8_lossy(&out.stdout);
    match s.lines().last().and_then(|l| crate::util::parse_json(l).ok()) {
        Some(v) => v,
        None => json!({"crash": out.status.code().unwrap_or(-1)}),
    }
}

pub fn drive(args: &HashMap<String, String>) {
    use rand::{Rng, SeedableRng};
    let trace = args.get("trace").expect("--trace");
    let outp = args.get("out").expect("--out");
    let scratch = args.get("scratch").expect("--scratch");
    let n_tlc: usize = args.get("tlc-histories").map(|s| s.parse().unwrap()).unwrap_or(60);
    let n_rand: usize = args.get("random-histories").map(|s| s.parse().unwrap()).unwrap_or(40);
    std::fs::create_dir_all(scratch).unwrap();
    let seed = crate::util::seed_from_env();
    let mut rng = rand_chacha::ChaCha8Rng::seed_from_u64(seed ^ 0xC05);
    let gj = gen_jobs();
    let sj = shipped_jobs();
    let mut hists: Vec<Value> = vec![];

    // 1. histories enumerated by TLC (classes instantiated with concrete programs)
    if let Some(tl) = args.get("hist") {
        let mut all = read_tlc_vectors(tl, "V");
        // deterministic subsample spread over the file
        let step = (all.len() / n_tlc.max(1)).max(1);
        all = all.into_iter().step_by(step).take(n_tlc).collect();
        for (hi, h) in all.iter().enumerate() {
            let mut events = vec![];
            let mut started: HashMap<u64, Value> = HashMap::new();
            for (k, e) in h["hist"].as_array().unwrap().iter().enumerate() {
                let t = e[1].as_u64().unwrap();
                if e[0] == "begin" {
                    let class = e[2].as_u64().unwrap();
                    let list = &gj[&class];
                    let j = &list[(hi + k) % list.len()];
                    started.insert(t, job_json(j));
                    events.push(json!(["begin", t, job_json(j)]));
                } else {
                    events.push(json!(["end", t, started[&t]["key"]]));
                }
            }
            hists.push(json!({"c0": h["c0"], "m0": h["m0"], "events": events, "source": "tlc"}));
        }
    }
    // 2. boundary histories for every generated and shipped program: starting counters at digit-length
    //    boundaries, both initial modes, a failed compilation / another dialect immediately before,
    //    main thread vs spawned thread, and up to 8 concurrent threads
    let counters = [0usize, 8, 9, 98, 99, 998, 99_998];
    let mut all_jobs: Vec<&JobSrc> = gj.iter().filter(|(c, _)| **c != 3 && **c != 5).flat_map(|(_, v)| v.iter()).collect();
    let ship_n = if n_rand > 100 { sj.len() } else { 10 };
    all_jobs.extend(sj.iter().take(ship_n));
    let fails: Vec<&JobSrc> = gj[&3].iter().chain(gj[&5].iter()).collect();
    for i in 0..n_rand {
        let c0 = counters[i % counters.len()];
        let m0 = i % 2 == 0;
        let nthreads = match i % 5 { 0 => 1, 1 => 1, 2 => 2, 3 => 3, _ => rng.random_range(4..=8) };
        let mut events = vec![];
        // prologue on thread 1: a failing compile or a compile in another dialect
        if i % 3 != 0 {
            let p = if i % 3 == 1 { fails[i % fails.len()] } else { all_jobs[rng.random_range(0..all_jobs.len())] };
            events.push(json!(["begin", 1, job_json(p)]));
            events.push(json!(["end", 1, p.key]));
        }
        let mut begun = vec![];
        for t in 1..=nthreads {
            let j = all_jobs[(i * 7 + t * 3) % all_jobs.len()];
            events.push(json!(["begin", t, job_json(j)]));
            begun.push((t, j.key.clone()));
        }
        for (t, k) in begun {
            events.push(json!(["end", t, k]));
        }
        hists.push(json!({"c0": c0, "m0": m0, "events": events, "main_thread": i % 5 == 0, "source": "boundary"}));
    }
    // 2b. every failing job directly before every constant-folding job on the same thread (error paths must restore
    //     whatever state the failed compilation set up), on the main thread and on a spawned one
    {
        let folds: Vec<&JobSrc> = all_jobs.iter().filter(|j| j.key.starts_with("fold:")).cloned().collect();
        for (fi, f) in fails.iter().enumerate() {
            for (gi, g) in folds.iter().enumerate() {
                let events = json!([["begin", 1, job_json(f)], ["end", 1, f.key], ["begin", 1, job_json(g)], ["end", 1, g.key]]);
                hists.push(json!({"c0": 8, "m0": true, "events": events, "main_thread": (fi + gi) % 2 == 0, "source": "fail-then-fold"}));
            }
        }
    }
    // 3. generated programs (C01 generator, half of them rich in repeated subexpressions so that the cl23+ CSE pass has
    //    several candidates per function): each alone in a fresh process under every boundary counter
    let n_gen: usize = args.get("gen-programs").map(|s| s.parse().unwrap()).unwrap_or(0);
    let mut gen_srcs: Vec<JobSrc> = vec![];
    {
        use crate::gen::{Gen, GenOpts};
        let sigils = ["*standard-cl-23*", "*standard-cl-23.1*", "*standard-cl-24*", "*standard-cl-21*", "*standard-cl-22*"];
        let builds = ["cl23", "cl231", "cl24", "cl21", "cl22"];
        let mut g = Gen::new(rand_chacha::ChaCha8Rng::seed_from_u64(seed ^ 0xC05C5E), GenOpts::cse());
        let mut i = 0;
        while gen_srcs.len() < n_gen && i < n_gen * 4 {
            g.o = if i % 2 == 0 { GenOpts::cse() } else { GenOpts::full() };
            g.o.macros = false;
            let mut p = g.program();
            // a third of the programs with one- and two-letter variable names (measures that include the length of
            // renamed variables sit on other thresholds than with the generator's P12 / L7 names)
            if i % 3 == 2 {
                p = p.rename_vars(&|n: &str| {
                    let digits = n.trim_start_matches(|c: char| c.is_ascii_alphabetic());
                    let head = &n[..n.len() - digits.len()];
                    match (head, digits.parse::<usize>()) {
                        ("P" | "L" | "S" | "Z" | "M", Ok(k)) => {
                            let k = k - 1;
                            if k < 26 { ((b'A' + k as u8) as char).to_string() } else { format!("{}{}", (b'A' + (k / 26 - 1) as u8 % 26) as char, (b'A' + (k % 26) as u8) as char) }
                        }
                        _ => n.to_string(),
                    }
                });
            }
            let k = i % sigils.len();
            i += 1;
            if !crate::p_compile::renderable(&p, builds[k]) {
                continue;
            }
            gen_srcs.push(JobSrc { key: format!("rand{}:{}", i, sigils[k]), text: p.render(sigils[k]), file: "*verif*".to_string(), search: vec![] });
        }
    }
    // (a generated program whose compilation takes more than 10 s -- nested inline calls copy their arguments once per use --
    //  would be compiled again in a fresh process for every counter: left out, as in C10)
    {
        let jobs: Vec<Value> = gen_srcs.iter().map(|j| json!({"op": "compile", "text": j.text, "optimize": false})).collect();
        let cfg = crate::pool::PoolCfg { batch: 1, timeout: std::time::Duration::from_secs(10), ..crate::pool::PoolCfg::default() };
        let res = crate::pool::run_jobs_unconfirmed(jobs, &cfg);
        let mut keep = vec![];
        let mut slow = 0;
        for (j, r) in gen_srcs.into_iter().zip(res.iter()) {
            if r.get("timeout").is_some() {
                slow += 1;
            } else {
                keep.push(j);
            }
        }
        if slow > 0 {
            eprintln!("[drive-history] {slow} generated program(s) left out: compilation takes more than 10 s");
        }
        gen_srcs = keep;
    }
    // 3b. de-inlining ties: two nested lets of which the inner one only renames the outer one's value, so that "both let
    //     functions kept separate" and "only the inner one" are programs of (nearly) the same size; the padding string moves
    //     the sizes across each other.  Whatever order the search tries its candidates in must not depend on the length of
    //     generated names (the counter crosses 10^5, 10^6 and 10^12 below)
    if n_gen > 0 {
        for pad in (56..=80).step_by(if n_gen > 1000 { 1 } else { 2 }) {
            for (k, sig) in ["*standard-cl-23*", "*standard-cl-24*"].iter().enumerate() {
                let text = format!("(mod (X Y) (include {sig}) (defun F (X Y) (let ((v2 (* (* Y Y 8) Y (* Y Y Y)))) (+ (let ((v3 v2)) (concat (logand v2 v2 Y Y) (+ v2 Y v2 v3 Y Y Y Y))) (strlen \"{}\")))) (F X Y))", "abcdefghijklmnopqrstuvwxyz".repeat(4)[..pad].to_string());
                gen_srcs.push(JobSrc { key: format!("tie{pad}:{k}"), text, file: "*verif*".to_string(), search: vec![] });
            }
        }
    }
    // 3c. NameLadder programs (variables called q, quote, a, c ..): a name that escapes renaming shows as a generated
    //     name in the output, which then depends on the counter
    if n_gen > 0 {
        for (k, (p, _)) in crate::p_compile::name_ladder().into_iter().enumerate() {
            if n_gen <= 1000 && k % 2 == 1 {
                continue;
            }
            let (b, sig) = [("cl21", "*standard-cl-21*"), ("cl22", "*standard-cl-22*"), ("cl23", "*standard-cl-23*")][k % 3];
            if crate::p_compile::renderable(&p, b) {
                gen_srcs.push(JobSrc { key: format!("name{k}:{sig}"), text: p.render(sig), file: "*verif*".to_string(), search: vec![] });
            }
        }
    }
    // 3d. several independent let / assign names used together in one branch of a conditional, under the dialect whose
    //     front end evaluates before it generates code (cl22): the evaluator re-binds the names a branch needs around the
    //     code it compiles apart, and the order it does that in must not come out of a hash table
    if n_gen > 0 {
        let names = ["x", "y", "zed", "w1", "Kay", "m_n"];
        for k in 2..=5usize {
            let binds: Vec<String> = (0..k).map(|i| format!("({} ({} {} {}))", names[i], ["+", "*", "-"][i % 3], if i % 2 == 0 { "A" } else { "B" }, i + 1)).collect();
            let used = names[..k].join(" ");
            for (shape, text) in [
                ("fun-let", format!("(mod (A B) (include *standard-cl-22*) (defun f (A B) (let ({}) (if A (+ {used}) (- {used})))) (f A B))", binds.join(" "))),
                ("main-let", format!("(mod (A B) (include *standard-cl-22*) (let ({}) (if A (+ {used}) (- {used}))))", binds.join(" "))),
                ("fun-assign", format!("(mod (A B) (include *standard-cl-22*) (defun f (A B) (assign {} (if B (list {used}) (+ {used})))) (f A B))",
                    (0..k).map(|i| format!("{} ({} {} {})", names[i], ["+", "*", "-"][i % 3], if i % 2 == 0 { "A" } else { "B" }, i + 1)).collect::<Vec<_>>().join(" "))),
                ("inline-let", format!("(mod (A B) (include *standard-cl-22*) (defun-inline g (A B) (let ({}) (if B (* {used}) (+ {used})))) (defun f (P Q) (g P Q)) (f A B))", binds.join(" "))),
            ] {
                gen_srcs.push(JobSrc { key: format!("evalorder{k}:{shape}"), text, file: "*verif*".to_string(), search: vec![] });
            }
        }
    }
    for j in &gen_srcs {
        let tie = j.key.starts_with("tie");
        for c0 in [8usize, 98, 998, 99_998].into_iter().chain(if tie { vec![100_000usize, 999_998, 1_000_000_000_000] } else { vec![] }) {
            hists.push(json!({"c0": c0, "m0": true, "events": [["begin", 1, job_json(j)], ["end", 1, j.key]], "main_thread": true, "source": "generated"}));
        }
    }
    // 4. include files are part of the input: the same include name found in different directories (different search
    //    paths, or a directory searched sooner) by consecutive compilations of one thread
    let mut inc_srcs: Vec<JobSrc> = vec![];
    {
        let mk = |dir: &str, k: i64| {
            let d = format!("{scratch}/{dir}");
            std::fs::create_dir_all(&d).unwrap();
            std::fs::write(format!("{d}/kval.clib"), format!("(\n  (defconstant KVAL {k})\n)")).unwrap();
            d
        };
        let (da, db) = (mk("incA", 77), mk("incB", 1000));
        for (sig, tag) in [("", "classic"), ("(include *standard-cl-21*)", "cl21"), ("(include *standard-cl-23*)", "cl23")] {
            let text = format!("(mod (X) {sig} (include kval.clib) (+ X KVAL))");
            for (name, search) in [("A", vec![da.clone()]), ("B", vec![db.clone()]), ("BA", vec![db.clone(), da.clone()]), ("AB", vec![da.clone(), db.clone()])] {
                inc_srcs.push(JobSrc { key: format!("inc{name}:{tag}"), text: text.clone(), file: format!("{scratch}/main.clsp"), search });
            }
        }
        for a in 0..inc_srcs.len() {
            for b in 0..inc_srcs.len() {
                if a != b && a / 4 == b / 4 {
                    let (x, y) = (&inc_srcs[a], &inc_srcs[b]);
                    hists.push(json!({"c0": 8, "m0": true, "events": [["begin", 1, job_json(x)], ["end", 1, x.key], ["begin", 1, job_json(y)], ["end", 1, y.key]],
                        "main_thread": (a + b) % 2 == 0, "source": "include-pair"}));
                }
            }
        }
    }
    all_jobs.extend(gen_srcs.iter());
    all_jobs.extend(inc_srcs.iter());
    // every job also once alone with the default process state (the reference observation)
    for j in &all_jobs {
        hists.push(json!({"c0": 0, "m0": true, "events": [["begin", 1, job_json(j)], ["end", 1, j.key]], "main_thread": true, "source": "alone"}));
    }

    // run the children in parallel
    let hists = Arc::new(hists);
    let next = Arc::new(AtomicUsize::new(0));
    let outs = Arc::new(std::sync::Mutex::new(vec![Value::Null; hists.len()]));
    let mut ths = vec![];
    for _ in 0..6 {
        let (hists, next, outs, scratch) = (hists.clone(), next.clone(), outs.clone(), scratch.clone());
        ths.push(std::thread::spawn(move || loop {
            let i = next.fetch_add(1, Ordering::SeqCst);
            if i >= hists.len() {
                break;
            }
            let r = run_child(&hists[i], &scratch, i);
            outs.lock().unwrap()[i] = r;
        }));
    }
    for t in ths {
        let _ = t.join();
    }
    let outs = outs.lock().unwrap().clone();

    // decide + trace
    let mut rep = Report::default();
    let mut f = std::io::BufWriter::new(std::fs::File::create(trace).expect("trace"));
    let mut by_key: HashMap<String, Vec<(usize, Value)>> = HashMap::new();
    let mut out_ids: HashMap<u64, usize> = HashMap::new();
    let mut key_ids: HashMap<String, usize> = HashMap::new();
    for (hi, (h, o)) in hists.iter().zip(outs.iter()).enumerate() {
        rep.evaluations += 1;
        if o.get("results").is_none() {
            rep.violation(json!({"property": "C05", "kind": "history-crashed", "history": strip_texts(h), "observed": o}));
            continue;
        }
        rep.traces += 1;
        writeln!(f, "{}", json!({"ev": "Start", "c0": h["c0"], "m0": h["m0"]})).unwrap();
        let mut rs: Vec<Value> = o["results"].as_array().unwrap().clone();
        rs.sort_by_key(|r| r["begin_index"].as_u64().unwrap());
        for r in rs {
            let key = r["key"].as_str().unwrap().to_string();
            let nk = key_ids.len();
            let kid = *key_ids.entry(key.clone()).or_insert(nk);
            let outsig = if r.get("code").is_some() { format!("{}|{}", r["code"], r["symbols"]) } else { "fail".to_string() };
            let no = out_ids.len();
            let oid = *out_ids.entry(hash_str(&outsig)).or_insert(no);
            writeln!(f, "{}", json!({"ev": "Job", "thread": r["thread"], "key": kid, "out": oid, "failed": r.get("code").is_none(),
                "mode_before": r["mode_before"], "mode_after": r["mode_after"], "ctr_before": r["ctr_before"], "ctr_after": r["ctr_after"]})).unwrap();
            if r["mode_before"] != h["m0"] || r["mode_after"] != h["m0"] {
                rep.violation(json!({"property": "C05", "kind": "integer-mode-not-restored", "history": strip_texts(h), "job": key, "observed": {"mode_before": r["mode_before"], "mode_after": r["mode_after"], "m0": h["m0"]}}));
            }
            if r.get("panic").is_some() {
                rep.violation(json!({"property": "C05", "kind": "compile-panicked", "history": strip_texts(h), "job": key}));
            }
            by_key.entry(key).or_default().push((hi, r));
        }
    }
    for (key, obs) in &by_key {
        rep.nontrivial(key);
        let first = &obs[0].1;
        for (hi, r) in obs.iter().skip(1) {
            let same = r.get("code") == first.get("code") && r.get("symbols") == first.get("symbols") && r.get("err").is_some() == first.get("err").is_some();
            if !same {
                rep.violation(json!({"property": "C05", "kind": "output-depends-on-history", "job": key,
                    "text": all_jobs.iter().find(|j| &j.key == key).map(|j| j.text.clone()),
                    "history_a": strip_texts(&hists[obs[0].0]), "history_b": strip_texts(&hists[*hi]),
                    "a": {"code": first.get("code"), "err": first.get("err"), "raw_names": first.get("raw_names")},
                    "b": {"code": r.get("code"), "err": r.get("err"), "raw_names": r.get("raw_names")},
                    "symbols_differ": r.get("symbols") != first.get("symbols"), "code_differs": r.get("code") != first.get("code")}));
                break;
            }
        }
        if rep.samples.len() < 4 {
            rep.sample(json!({"job": key, "observations": obs.len(), "code_prefix": first.get("code").and_then(|c| c.as_str()).map(|s| s.chars().take(40).collect::<String>())}));
        }
    }
    rep.count_n("jobs_observed", by_key.values().map(|v| v.len() as u64).sum());
    rep.count_n("distinct_jobs", by_key.len() as u64);
    rep.count_n("histories", hists.len() as u64);
    rep.write(outp);
}

fn strip_texts(h: &Value) -> Value {
    let mut h = h.clone();
    if let Some(evs) = h.get_mut("events").and_then(|e| e.as_array_mut()) {
        for e in evs.iter_mut() {
            if e[0] == "begin" {
                let key = e[2]["key"].clone();
                e[2] = key;
            }
        }
    }
    h
}
