// Generic compile operations through the library entry point (what the Python and
// JavaScript bindings and file-to-file compilation use).
use crate::val::{consensus_run, V, CONS_MAX_COST};
use chialisp::classic::clvm_tools::clvmc::{compile_clvm_text, compile_clvm_text_maybe_opt, CompileError};
use chialisp::compiler::compiler::DefaultCompilerOpts;
use chialisp::compiler::comptypes::CompilerOpts;
use clvmr::allocator::Allocator;
use serde_json::{json, Value};
use std::collections::HashMap;
use std::rc::Rc;

pub struct Compiled {
    pub code: V,
    pub symbols: HashMap<String, String>,
}

pub enum CompFail {
    Modern { file: String, line: usize, col: usize, until: Option<(usize, usize)>, msg: String },
    Classic(String),
}

impl CompFail {
    pub fn to_json(&self) -> Value {
        match self {
            CompFail::Modern { file, line, col, until, msg } => json!({"kind": "modern", "file": file, "line": line, "col": col,
                "until": until.map(|u| json!([u.0, u.1])), "msg": msg}),
            CompFail::Classic(m) => json!({"kind": "classic", "msg": m}),
        }
    }
    pub fn msg(&self) -> String {
        match self {
            CompFail::Modern { msg, .. } => msg.clone(),
            CompFail::Classic(m) => m.clone(),
        }
    }
}

/// library entry point; optimize = None means compile_clvm_text (always requests optimisation)
pub fn compile_lib(text: &str, filename: &str, search: &[String], optimize: Option<bool>) -> Result<Compiled, CompFail> {
    let mut allocator = Allocator::new();
    let opts: Rc<dyn CompilerOpts> = Rc::new(DefaultCompilerOpts::new(filename)).set_search_paths(search);
    let mut symbols = HashMap::new();
    let r = match optimize {
        None => compile_clvm_text(&mut allocator, opts.clone(), &mut symbols, text, filename, false),
        Some(o) => compile_clvm_text_maybe_opt(&mut allocator, o, opts.clone(), &mut symbols, text, filename, false),
    };
    match r {
        Ok(n) => Ok(Compiled { code: V::from_node(&allocator, n), symbols }),
        Err(CompileError::Modern(l, m)) => Err(CompFail::Modern {
            file: l.file.to_string(),
            line: l.line,
            col: l.col,
            until: l.until.as_ref().map(|u| (u.line, u.col)),
            msg: m,
        }),
        Err(e) => Err(CompFail::Classic(e.format(&allocator, opts))),
    }
}

/// job: {text, file?, search?, optimize?: bool|null, envs?: [V...]}
/// result: {ok: code, symbols, runs: [outcome...]} | {err: {...}}
pub fn op_compile(job: &Value) -> Value {
    let text = job["text"].as_str().unwrap();
    let file = job.get("file").and_then(|f| f.as_str()).unwrap_or("*verif*");
    let search: Vec<String> = job.get("search").and_then(|s| s.as_array()).map(|a| a.iter().map(|x| x.as_str().unwrap().to_string()).collect()).unwrap_or_default();
    let optimize = job.get("optimize").and_then(|o| o.as_bool());
    match compile_lib(text, file, &search, optimize) {
        Ok(c) => {
            let mut out = json!({"ok": c.code.to_json()});
            if job.get("symbols").and_then(|b| b.as_bool()).unwrap_or(false) {
                out["symbols"] = json!(c.symbols);
            }
            if let Some(envs) = job.get("envs").and_then(|e| e.as_array()) {
                let runs: Vec<Value> = envs
                    .iter()
                    .map(|e| consensus_run(&c.code, &V::from_json(e).unwrap(), CONS_MAX_COST).to_json_msg())
                    .collect();
                out["runs"] = json!(runs);
            }
            out
        }
        Err(e) => json!({"err": e.to_json()}),
    }
}
