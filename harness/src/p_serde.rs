// C08: replay of TLC-enumerated byte strings and random/mutated encodings through
// the classic (de)serialiser and clvmr's.
use crate::ops_serde::cons_encode;
use crate::pool::{run_jobs, PoolCfg};
use crate::util::{read_ndjson, read_tlc_vectors, Report};
use crate::val::V;
use serde_json::{json, Value};
use std::collections::HashMap;
use std::io::Write;
use std::time::Duration;

fn is_ok(r: &Value) -> bool {
    r[0] == "ok"
}

/// decide one decoder case; returns violation record if the property fails
fn decide_decode(rep: &mut Report, bytes: &Value, r: &Value, spec_ref: Option<&Value>) {
    if r.get("abort").is_some() || r.get("timeout").is_some() || r.get("panic").is_some() {
        rep.violation(json!({"property": "C08", "kind": "decoder-crash", "bytes": bytes, "observed": r}));
        return;
    }
    let i = &r["impl"];
    let c = &r["cons"];
    if let Some(s) = spec_ref {
        // the TLA+ reference decoder against clvmr (spec error if they differ)
        if s[0] != "oom" && (is_ok(s) != is_ok(c) || (is_ok(s) && s[1] != c[1])) {
            rep.spec_error(json!({"bytes": bytes, "spec": s, "consensus": c}));
        }
    }
    if is_ok(c) {
        rep.count("consensus_accepts");
    }
    if is_ok(i) {
        rep.count("impl_accepts");
        rep.nontrivial(&bytes.to_string());
        if !is_ok(c) || c[1] != i[1] {
            rep.violation(json!({"property": "C08", "kind": "decoder-returns-other-value", "bytes": bytes, "impl": i, "consensus": c}));
        }
    } else if is_ok(c) {
        rep.count("impl_stricter_than_consensus");
    }
}

pub fn replay(args: &HashMap<String, String>) {
    let input = args.get("in").expect("--in");
    let outp = args.get("out").expect("--out");
    let vectors: Vec<Value> = if args.contains_key("ndjson") { read_ndjson(input) } else { read_tlc_vectors(input, "V") };
    let jobs: Vec<Value> = vectors.iter().map(|v| json!({"op": "serde", "bytes": v["bytes"]})).collect();
    let cfg = PoolCfg { batch: 128, timeout: Duration::from_secs(20), ..PoolCfg::default() };
    let results = run_jobs(jobs, &cfg);
    let mut rep = Report::default();
    for (v, r) in vectors.iter().zip(results.iter()) {
        rep.evaluations += 1;
        decide_decode(&mut rep, &v["bytes"], r, v.get("ref"));
        if let Some(m) = v.get("impl") {
            // the machine model against the real decoder: drift
            if r.get("impl").is_some() && m[0] != "oom" && (is_ok(m) != is_ok(&r["impl"]) || (is_ok(m) && m[1] != r["impl"][1])) {
                rep.drift(json!({"bytes": v["bytes"], "model": m, "impl": r["impl"]}));
            }
        }
        if rep.samples.len() < 3 && r.get("impl").map(is_ok).unwrap_or(false) {
            rep.sample(json!({"bytes": v["bytes"], "observed": r}));
        }
    }
    rep.traces = rep.evaluations;
    rep.write(outp);
}

/// R for Casts.tla: every (bytes, value) vector of MC_Casts goes through the real int_from_bytes; the u64 it returns
/// must be the big-endian value of the input, which is what the model says (value = the input, leading zeros aside)
pub fn replay_casts(args: &HashMap<String, String>) {
    use chialisp::classic::clvm::__type_compatibility__::{Bytes, BytesFromType};
    use chialisp::classic::clvm::casts::int_from_bytes;
    let vectors = read_tlc_vectors(args.get("in").expect("--in"), "V");
    let mut rep = Report::default();
    for v in &vectors {
        let bytes: Vec<u8> = v["bytes"].as_array().unwrap().iter().map(|b| b.as_u64().unwrap() as u8).collect();
        let model: Vec<u8> = v["value"].as_array().unwrap().iter().map(|b| b.as_u64().unwrap() as u8).collect();
        rep.evaluations += 1;
        rep.nontrivial(&format!("{bytes:?}"));
        // independent of the model: the big-endian value
        let want = bytes.iter().fold(0u128, |a, b| (a << 8) | *b as u128);
        let model_val = model.iter().fold(0u128, |a, b| (a << 8) | *b as u128);
        if model_val != want {
            rep.spec_error(json!({"bytes": bytes, "model_value": model, "big_endian_value": want.to_string()}));
        }
        let got = std::panic::catch_unwind(|| int_from_bytes(Bytes::new(Some(BytesFromType::Raw(bytes.clone()))), None));
        match got {
            Ok(Ok(g)) => {
                if g as u128 != want {
                    // a length prefix read as another number: the decoder takes a different number of bytes for the atom
                    rep.violation(json!({"property": "C08", "kind": "length-prefix-read-as-other-number", "size_bytes": bytes, "int_from_bytes": g.to_string(), "value": want.to_string()}));
                }
            }
            Ok(Err(_)) => rep.violation(json!({"property": "C08", "kind": "length-prefix-read-as-other-number", "size_bytes": bytes, "int_from_bytes": "error", "value": want.to_string()})),
            Err(_) => rep.violation(json!({"property": "C08", "kind": "decoder-crash", "size_bytes": bytes})),
        }
    }
    rep.traces = rep.evaluations;
    rep.write(args.get("out").expect("--out"));
}

pub fn drive(args: &HashMap<String, String>) {
    use crate::gen_clvm::ClvmGen;
    use rand::{Rng, SeedableRng};
    let n: usize = args.get("n").map(|s| s.parse().unwrap()).unwrap_or(500);
    let big = args.contains_key("big");
    let trace = args.get("trace").expect("--trace");
    let outp = args.get("out").expect("--out");
    let seed = crate::util::seed_from_env();
    let mut g = ClvmGen { rng: rand_chacha::ChaCha8Rng::seed_from_u64(seed ^ 0xC08), opzoo: false };
    let mut rep = Report::default();
    let mut f = std::io::BufWriter::new(std::fs::File::create(trace).expect("trace"));

    // 1. values: round trip and encoder identity
    let mut values: Vec<V> = vec![];
    for len in [0usize, 1, 2, 0x3e, 0x3f, 0x40, 0x41, 0x1fff, 0x2000, 0x2001] {
        for first in [0x00u8, 0x7f, 0x80, 0xff] {
            let mut b = vec![0x33u8; len];
            if len > 0 {
                b[0] = first;
            }
            values.push(V::A(b.clone()));
            values.push(V::cons(V::A(b.clone()), V::nil()));
        }
    }
    for i in 0..n {
        values.push(g.value(1 + i % 5));
    }
    let vjobs: Vec<Value> = values.iter().map(|v| json!({"op": "serde", "value": v.to_json()})).collect();
    let cfg = PoolCfg { batch: 32, timeout: Duration::from_secs(30), ..PoolCfg::default() };
    let vres = run_jobs(vjobs, &cfg);
    let mut encodings: Vec<Vec<u8>> = vec![];
    for (v, r) in values.iter().zip(vres.iter()) {
        rep.evaluations += 1;
        if r.get("impl_bytes").is_none() {
            rep.violation(json!({"property": "C08", "kind": "encoder-crash", "value": v.to_json(), "observed": r}));
            continue;
        }
        let small = v.size() < 40 && r["impl_bytes"].as_array().unwrap().len() < 120;
        if small {
            writeln!(f, "{}", json!({"ev": "Enc", "value": v.to_json(), "impl": r["impl_bytes"], "cons": r["cons_bytes"],
                "back": if is_ok(&r["back"]) { r["back"].clone() } else { json!(["err"]) }})).unwrap();
            rep.traces += 1;
        } else {
            // too large for the trace: abstracted to what the property needs (a single atom also carries its length and the
            // first bytes of both encodings, which the specification predicts with SizeBlob)
            let same = r["impl_bytes"] == r["cons_bytes"];
            let back_ok = r["back"][0] == "ok" && V::from_json(&r["back"][1]).map(|b| b == *v).unwrap_or(false);
            let pre = |x: &Value| Value::Array(x.as_array().map(|a| a.iter().take(8).cloned().collect()).unwrap_or_default());
            if let V::A(bytes) = v {
                writeln!(f, "{}", json!({"ev": "Big", "len": bytes.len(), "paired": false, "impl_prefix": pre(&r["impl_bytes"]), "cons_prefix": pre(&r["cons_bytes"]),
                    "same": same, "back_ok": back_ok})).unwrap();
            } else {
                writeln!(f, "{}", json!({"ev": "EncAbs", "same": same, "back_ok": back_ok})).unwrap();
            }
            rep.traces += 1;
        }
        rep.nontrivial(&v.to_json().to_string());
        if r["impl_bytes"] != r["cons_bytes"] {
            rep.violation(json!({"property": "C08", "kind": "encoder-differs-from-consensus", "value_text": v.show().chars().take(200).collect::<String>(),
                "value": if small { v.to_json() } else { json!(null) }, "impl": r["impl_bytes"], "consensus": r["cons_bytes"]}));
        }
        if !(r["back"][0] == "ok" && V::from_json(&r["back"][1]).map(|b| b == *v).unwrap_or(false)) {
            rep.violation(json!({"property": "C08", "kind": "roundtrip-fails", "value_text": v.show().chars().take(200).collect::<String>(),
                "value": if small { v.to_json() } else { json!(null) }, "back": r["back"]}));
        }
        encodings.push(cons_encode(v));
    }

    // 2. decoder inputs: truncations at every offset, flipped prefix bits, trailing garbage, random bytes
    let mut inputs: Vec<Vec<u8>> = vec![];
    for e in encodings.iter().filter(|e| e.len() <= 80).take(n) {
        for k in 0..e.len() {
            inputs.push(e[..k].to_vec());
        }
        for _ in 0..3 {
            let mut m = e.clone();
            let i = g.rng.random_range(0..m.len());
            m[i] ^= 1 << g.rng.random_range(0..8);
            inputs.push(m);
        }
        let mut t = e.clone();
        t.extend((0..g.rng.random_range(1..4)).map(|_| g.rng.random::<u8>()));
        inputs.push(t);
    }
    for _ in 0..n {
        let l = g.rng.random_range(0..12);
        inputs.push((0..l).map(|_| [0xff, 0xfe, 0xfc, 0xf8, 0xf0, 0xe0, 0xc0, 0x80, 0x81, 0x01, 0x00, 0x7f][g.rng.random_range(0..12)]).collect());
    }
    // over-long (non-minimal) prefixes of every width around a small atom
    for body in [vec![0x41u8], vec![0x80u8], vec![1, 2, 3]] {
        let n = body.len() as u8;
        for p in [vec![0xc0, n], vec![0xe0, 0, n], vec![0xf0, 0, 0, n], vec![0xf8, 0, 0, 0, n], vec![0xfc, 0, 0, 0, 0, n], vec![0xfe, 0, 0, 0, 0, 0, n]] {
            let mut b = p.clone();
            b.extend(&body);
            inputs.push(b);
        }
    }
    // length prefixes of 5 and 6 bytes in which every byte position of the size carries something in turn (sizes from
    // 2^32 up to the format's limit and beyond, with a small low word), followed by 0..3 bytes: no decoder has that many
    // bytes to read, whatever the width of the arithmetic the size goes through
    for lead in [0xf8u8, 0xf9, 0xfa, 0xfb, 0xfc, 0xfd] {
        let width = if lead >= 0xfc { 5 } else { 4 };
        for hot in 0..=width {
            for v in [1u8, 0x80, 0xff] {
                for low in [0u8, 1, 2] {
                    let mut size = vec![0u8; width];
                    if hot < width {
                        size[hot] = v;
                    }
                    size[width - 1] |= low;
                    for tail in [&b""[..], &b"a"[..], &b"ab"[..], &b"abc"[..]] {
                        let mut b = vec![lead];
                        b.extend(&size);
                        b.extend(tail);
                        inputs.push(b.clone());
                        let mut p = vec![0xff, 0x01];
                        p.extend(&b);
                        inputs.push(p);
                    }
                }
            }
        }
    }
    inputs.sort();
    inputs.dedup();
    let djobs: Vec<Value> = inputs.iter().map(|b| json!({"op": "serde", "bytes": b})).collect();
    let cfg = PoolCfg { batch: 128, timeout: Duration::from_secs(20), ..PoolCfg::default() };
    let dres = run_jobs(djobs, &cfg);
    for (b, r) in inputs.iter().zip(dres.iter()) {
        rep.evaluations += 1;
        let bj = json!(b);
        decide_decode(&mut rep, &bj, r, None);
        if r.get("impl").is_some() {
            writeln!(f, "{}", json!({"ev": "Dec", "bytes": b, "impl": if is_ok(&r["impl"]) { r["impl"].clone() } else { json!(["err"]) },
                "cons": if is_ok(&r["cons"]) { r["cons"].clone() } else { json!(["err"]) }})).unwrap();
            rep.traces += 1;
        }
        if rep.samples.len() < 4 && r.get("impl").map(is_ok).unwrap_or(false) {
            rep.sample(json!({"bytes": b, "observed": r}));
        }
    }

    // 3. large atoms (abstract in the trace: length + prefix)
    let mut lens: Vec<usize> = vec![0xfffff, 0x100000, 0x100001];
    if big {
        lens.extend([0x7ffffff, 0x8000000, 0x8000001]);
    }
    let mut bjobs = vec![];
    for l in &lens {
        for paired in [false, true] {
            bjobs.push(json!({"op": "serde", "biglen": l, "paired": paired}));
        }
    }
    let cfg = PoolCfg { batch: 1, timeout: Duration::from_secs(300), workers: 4, ..PoolCfg::default() };
    let bres = run_jobs(bjobs.clone(), &cfg);
    for (j, r) in bjobs.iter().zip(bres.iter()) {
        rep.evaluations += 1;
        if r.get("len").is_none() {
            rep.violation(json!({"property": "C08", "kind": "big-atom-crash", "job": j, "observed": r}));
            continue;
        }
        writeln!(f, "{}", json!({"ev": "Big", "len": r["len"], "paired": j["paired"], "impl_prefix": r["impl_prefix"], "cons_prefix": r["cons_prefix"],
            "same": r["impl_digest"] == r["cons_digest"] && r["impl_len"] == r["cons_len"], "back_ok": r["back_ok"]})).unwrap();
        rep.traces += 1;
        rep.nontrivial(&j.to_string());
        if r["impl_digest"] != r["cons_digest"] || r["impl_len"] != r["cons_len"] {
            rep.violation(json!({"property": "C08", "kind": "encoder-differs-from-consensus", "job": j, "observed": r}));
        }
        if r["back_ok"] != true {
            rep.violation(json!({"property": "C08", "kind": "roundtrip-fails", "job": j, "observed": r}));
        }
    }
    rep.write(outp);
}
