// CLVM values in the encoding shared by the TLA+ modules, JSON and Rust:
//   atom  = ["a", [b1,...,bn]]      (TLA+  <<"a", <<b1,...,bn>>>>)
//   pair  = ["p", left, right]      (TLA+  <<"p", l, r>>)
// Everything in this file is independent of /repo: it is part of the oracle side.
use clvmr::allocator::{Allocator, NodePtr, SExp as CSExp};
use num_bigint::BigInt;
use serde_json::{json, Value};
use std::rc::Rc;

#[derive(Clone, Debug, PartialEq, Eq, Hash, PartialOrd, Ord)]
pub enum V {
    A(Vec<u8>),
    P(Rc<V>, Rc<V>),
}

impl V {
    pub fn nil() -> V {
        V::A(vec![])
    }
    pub fn atom(b: &[u8]) -> V {
        V::A(b.to_vec())
    }
    pub fn cons(a: V, b: V) -> V {
        V::P(Rc::new(a), Rc::new(b))
    }
    pub fn int(n: i64) -> V {
        V::A(int_bytes(&BigInt::from(n)))
    }
    pub fn list(items: &[V]) -> V {
        Self::list_tail(items, V::nil())
    }
    pub fn list_tail(items: &[V], tail: V) -> V {
        let mut r = tail;
        for i in items.iter().rev() {
            r = V::cons(i.clone(), r);
        }
        r
    }
    pub fn is_atom(&self) -> bool {
        matches!(self, V::A(_))
    }
    pub fn size(&self) -> usize {
        match self {
            V::A(_) => 1,
            V::P(a, b) => 1 + a.size() + b.size(),
        }
    }
    pub fn to_json(&self) -> Value {
        // iterative-ish: recursion depth bounded by tree depth; callers keep trees modest
        match self {
            V::A(b) => json!(["a", b]),
            V::P(a, b) => json!(["p", a.to_json(), b.to_json()]),
        }
    }
    pub fn from_json(j: &Value) -> Result<V, String> {
        let arr = j.as_array().ok_or_else(|| format!("value not array: {j}"))?;
        match arr.first().and_then(|t| t.as_str()) {
            Some("a") => {
                let bs = arr
                    .get(1)
                    .and_then(|b| b.as_array())
                    .ok_or_else(|| format!("bad atom {j}"))?;
                let mut out = Vec::with_capacity(bs.len());
                for b in bs {
                    out.push(b.as_u64().ok_or_else(|| format!("bad byte {j}"))? as u8);
                }
                Ok(V::A(out))
            }
            Some("p") => {
                if arr.len() != 3 {
                    return Err(format!("bad pair {j}"));
                }
                Ok(V::cons(V::from_json(&arr[1])?, V::from_json(&arr[2])?))
            }
            _ => Err(format!("bad value tag {j}")),
        }
    }
    pub fn to_node(&self, a: &mut Allocator) -> NodePtr {
        match self {
            V::A(b) => {
                if b.is_empty() {
                    NodePtr::NIL
                } else {
                    a.new_atom(b).expect("alloc atom")
                }
            }
            V::P(l, r) => {
                let ln = l.to_node(a);
                let rn = r.to_node(a);
                a.new_pair(ln, rn).expect("alloc pair")
            }
        }
    }
    pub fn from_node(a: &Allocator, n: NodePtr) -> V {
        match a.sexp(n) {
            CSExp::Atom => V::A(a.atom(n).as_ref().to_vec()),
            CSExp::Pair(l, r) => V::cons(V::from_node(a, l), V::from_node(a, r)),
        }
    }
    /// Classic-style text (our own printer; used only for human-readable samples).
    pub fn show(&self) -> String {
        match self {
            V::A(b) => {
                if b.is_empty() {
                    "()".to_string()
                } else {
                    format!("0x{}", hex::encode(b))
                }
            }
            V::P(_, _) => {
                let mut s = String::from("(");
                let mut cur = self;
                let mut first = true;
                loop {
                    match cur {
                        V::P(a, b) => {
                            if !first {
                                s.push(' ');
                            }
                            first = false;
                            s.push_str(&a.show());
                            cur = b;
                        }
                        V::A(b) => {
                            if !b.is_empty() {
                                s.push_str(" . ");
                                s.push_str(&cur.show());
                            }
                            break;
                        }
                    }
                }
                s.push(')');
                s
            }
        }
    }
}

/// canonical CLVM integer encoding (minimal signed big endian; zero = empty)
pub fn int_bytes(n: &BigInt) -> Vec<u8> {
    if n == &BigInt::from(0) {
        return vec![];
    }
    n.to_signed_bytes_be()
}

pub fn int_of_bytes(b: &[u8]) -> BigInt {
    if b.is_empty() {
        BigInt::from(0)
    } else {
        BigInt::from_signed_bytes_be(b)
    }
}

/// canonical serialisation, own implementation of the format (used to cross check clvmr)
pub fn serialize(v: &V, out: &mut Vec<u8>) {
    match v {
        V::P(a, b) => {
            out.push(0xff);
            serialize(a, out);
            serialize(b, out);
        }
        V::A(b) => {
            let n = b.len() as u64;
            if n == 0 {
                out.push(0x80);
            } else if n == 1 && b[0] < 0x80 {
                out.push(b[0]);
            } else {
                if n < 0x40 {
                    out.push(0x80 | n as u8);
                } else if n < 0x2000 {
                    out.push(0xc0 | (n >> 8) as u8);
                    out.push(n as u8);
                } else if n < 0x100000 {
                    out.push(0xe0 | (n >> 16) as u8);
                    out.push((n >> 8) as u8);
                    out.push(n as u8);
                } else if n < 0x8000000 {
                    out.push(0xf0 | (n >> 24) as u8);
                    out.push((n >> 16) as u8);
                    out.push((n >> 8) as u8);
                    out.push(n as u8);
                } else {
                    out.push(0xf8 | (n >> 32) as u8);
                    out.push((n >> 24) as u8);
                    out.push((n >> 16) as u8);
                    out.push((n >> 8) as u8);
                    out.push(n as u8);
                }
                out.extend_from_slice(b);
            }
        }
    }
}

pub fn sha256tree(v: &V) -> Vec<u8> {
    use sha2::{Digest, Sha256};
    match v {
        V::A(b) => {
            let mut h = Sha256::new();
            h.update([1u8]);
            h.update(b);
            h.finalize().to_vec()
        }
        V::P(a, b) => {
            let l = sha256tree(a);
            let r = sha256tree(b);
            let mut h = Sha256::new();
            h.update([2u8]);
            h.update(&l);
            h.update(&r);
            h.finalize().to_vec()
        }
    }
}

// ---------------------------------------------------------------- outcomes
#[derive(Clone, Debug, PartialEq, Eq)]
pub enum Outcome {
    Ok(V),
    Err(String),   // runtime failure / raise
    Fuel,          // cost / step budget exhausted
    Oom,           // out of model (spec side only)
    Panic(String), // code under test panicked
    Abort,         // worker died
    Timeout,
    CompErr(String),
}

impl Outcome {
    pub fn to_json(&self) -> Value {
        match self {
            Outcome::Ok(v) => json!(["ok", v.to_json()]),
            Outcome::Err(_) => json!(["err"]),
            Outcome::Fuel => json!(["fuel"]),
            Outcome::Oom => json!(["oom"]),
            Outcome::Panic(_) => json!(["panic"]),
            Outcome::Abort => json!(["abort"]),
            Outcome::Timeout => json!(["timeout"]),
            Outcome::CompErr(_) => json!(["comperr"]),
        }
    }
    pub fn to_json_msg(&self) -> Value {
        match self {
            Outcome::Err(m) => json!(["err", m]),
            Outcome::Panic(m) => json!(["panic", m]),
            Outcome::CompErr(m) => json!(["comperr", m]),
            o => o.to_json(),
        }
    }
    pub fn from_json(j: &Value) -> Result<Outcome, String> {
        let arr = j.as_array().ok_or_else(|| format!("outcome not array: {j}"))?;
        let msg = || {
            arr.get(1)
                .and_then(|m| m.as_str())
                .unwrap_or("")
                .to_string()
        };
        match arr.first().and_then(|t| t.as_str()) {
            Some("ok") => Ok(Outcome::Ok(V::from_json(&arr[1])?)),
            Some("err") => Ok(Outcome::Err(msg())),
            Some("fuel") => Ok(Outcome::Fuel),
            Some("oom") => Ok(Outcome::Oom),
            Some("panic") => Ok(Outcome::Panic(msg())),
            Some("abort") => Ok(Outcome::Abort),
            Some("timeout") => Ok(Outcome::Timeout),
            Some("comperr") => Ok(Outcome::CompErr(msg())),
            _ => Err(format!("bad outcome {j}")),
        }
    }
    pub fn kind(&self) -> &'static str {
        match self {
            Outcome::Ok(_) => "ok",
            Outcome::Err(_) => "err",
            Outcome::Fuel => "fuel",
            Outcome::Oom => "oom",
            Outcome::Panic(_) => "panic",
            Outcome::Abort => "abort",
            Outcome::Timeout => "timeout",
            Outcome::CompErr(_) => "comperr",
        }
    }
    pub fn is_ok(&self) -> bool {
        matches!(self, Outcome::Ok(_))
    }
}

// ---------------------------------------------------------------- consensus evaluator (oracle)
pub const CONS_MAX_COST: u64 = 2_000_000_000;

/// clvmr with the flags the tools run programs with (latest operator set, unknown operators rejected).
pub fn consensus_run(prog: &V, env: &V, max_cost: u64) -> Outcome {
    use clvmr::chia_dialect::{ChiaDialect, ENABLE_KECCAK_OPS_OUTSIDE_GUARD, NO_UNKNOWN_OPS};
    let mut a = Allocator::new();
    let p = prog.to_node(&mut a);
    let e = env.to_node(&mut a);
    let d = ChiaDialect::new(NO_UNKNOWN_OPS | ENABLE_KECCAK_OPS_OUTSIDE_GUARD);
    match clvmr::run_program::run_program(&mut a, &d, p, e, max_cost) {
        Ok(r) => Outcome::Ok(V::from_node(&a, r.1)),
        Err(e) => {
            let s = format!("{e}");
            if s.contains("cost exceeded") || s.contains("Cost Exceeded") {
                Outcome::Fuel
            } else {
                Outcome::Err(s)
            }
        }
    }
}
