// C01 / C02 / C03 (and the program source for C11, C13): generated Chialisp programs are rendered
// under each dialect, compiled through the library entry point with optimisation off/on, run with
// the consensus evaluator on argument trees, and traced for Trace_Compile.tla, which owns the
// source-meaning oracle (Chialisp.tla).
use crate::ast::{features, Program};
use crate::gen::{Gen, GenOpts};
use crate::pool::{run_jobs, PoolCfg};
use crate::util::Report;
use crate::val::V;
use serde_json::{json, Value};
use std::collections::HashMap;
use std::io::Write;
use std::time::Duration;

pub const MODERN: [(&str, &str); 6] = [
    ("cl21", "*standard-cl-21*"),
    ("s21", "*strict-cl-21*"),
    ("cl22", "*standard-cl-22*"),
    ("cl23", "*standard-cl-23*"),
    ("cl231", "*standard-cl-23.1*"),
    ("cl24", "*standard-cl-24*"),
];

pub fn sigil_of(build: &str) -> &'static str {
    let base = build.trim_end_matches("+O");
    if base == "classic" {
        return "";
    }
    MODERN.iter().find(|(n, _)| *n == base).map(|(_, s)| *s).unwrap_or_else(|| panic!("unknown build {build}"))
}

/// can this program be rendered for the dialect at all (feature matrix, DESIGN 3.5)
pub fn renderable(p: &Program, build: &str) -> bool {
    let f = features(p);
    let base = build.trim_end_matches("+O");
    match base {
        // (quote, qq and unquote are reserved words of the classic compiler: it rewrites every two-element list headed by
        // quote before it looks at what the list is, a parameter list (W quote V) included; no classic program may use
        // them as names)
        "classic" => !(f.lets || f.assign || f.lambda || f.rest || f.fnval || f.at_pattern || f.nested_mod)
            && !p.var_names().iter().any(|n| matches!(n.as_str(), "quote" | "qq" | "unquote")),
        // (cl22 refuses a lambda applied in place; a lambda handed to a non-inline function as a value compiles:
        // the programs of lambda_value_ladder, recognised by their helper app22)
        "cl22" => (!f.lambda || p.helpers.iter().any(|h| h.name() == "app22")) && !f.defconst,
        "cl21" | "s21" => !f.defconst,
        _ => true,
    }
}

pub fn build_jobs(p: &Program, envs: &[V], builds: &[String]) -> Vec<(String, Value)> {
    let mut out = vec![];
    for b in builds {
        if !renderable(p, b) {
            continue;
        }
        let text = p.render(sigil_of(b));
        let opt = b.ends_with("+O");
        out.push((b.clone(), json!({"op": "compile", "text": text, "optimize": opt, "envs": envs.iter().map(|e| e.to_json()).collect::<Vec<_>>()})));
    }
    out
}

fn outcome_json(r: &Value, nenvs: usize) -> Value {
    // one outcome per env, TLC-comparable (no messages)
    let rep = |tag: &str| Value::Array((0..nenvs).map(|_| json!([tag])).collect());
    if r.get("abort").is_some() || r.get("panic").is_some() {
        return rep("abort");
    }
    if r.get("timeout").is_some() {
        return rep("slow");
    }
    if r.get("err").is_some() {
        return rep("comperr");
    }
    Value::Array(
        r["runs"].as_array().unwrap().iter().map(|o| if o[0] == "ok" { o.clone() } else { json!([o[0]]) }).collect(),
    )
}

/// LambdaValueLadder: a lambda that survives as a value (handed to a non-inline function that applies it) and
/// captures a name bound by a let, a let* chain, an assign or an inline function's parameter: whatever expands the
/// binder away has to rewrite the capture list with it (every dialect, cl22 with its front-end optimiser included)
pub fn lambda_value_ladder() -> Vec<(Program, Vec<V>)> {
    use crate::ast::{Expr, Helper, Pat};
    let v = |n: &str| Expr::Var(n.to_string());
    let pv = |n: &str| Pat::Var(n.to_string());
    let lit = |n: i64| Expr::Lit(V::int(n));
    let app = Helper::Defun { name: "app22".into(), pat: Pat::list(vec![pv("F"), pv("V")], Pat::Nil),
        body: Expr::Apply(Box::new(v("F")), Box::new(Expr::List(vec![v("V")]))), inline: false };
    let lam = |caps: Vec<&str>, body: Expr| Expr::Lambda(caps.iter().map(|c| c.to_string()).collect(), Pat::list(vec![pv("Z")], Pat::Nil), Box::new(body));
    let call_app = |l: Expr, arg: Expr| Expr::Call("app22".into(), vec![l, arg], None);
    let mul = |a: Expr, b: Expr| Expr::Prim(18, vec![a, b]);
    let add = |a: Expr, b: Expr| Expr::Prim(16, vec![a, b]);
    let args = Pat::list(vec![pv("P1"), pv("P2")], Pat::Nil);
    let envs = vec![V::list(&[V::int(4), V::int(10)]), V::list(&[V::int(0), V::int(3)]), V::list(&[V::int(7), V::int(1)])];
    let mut out = vec![];
    let bodies: Vec<(Vec<Helper>, Expr)> = vec![
        // a let-bound name
        (vec![], Expr::Let(false, vec![("K".into(), add(v("P1"), lit(1)))], Box::new(call_app(lam(vec!["K"], mul(v("K"), v("Z"))), v("P2"))))),
        // a let* chain: the capture is the last name
        (vec![], Expr::Let(true, vec![("K".into(), add(v("P1"), lit(1))), ("M".into(), mul(v("K"), lit(2)))], Box::new(call_app(lam(vec!["M"], add(v("M"), v("Z"))), v("P2"))))),
        // two captures, one let-bound and one a parameter
        (vec![], Expr::Let(false, vec![("K".into(), add(v("P1"), lit(1)))], Box::new(call_app(lam(vec!["K", "P1"], Expr::List(vec![v("K"), v("P1"), v("Z")])), v("P2"))))),
        // an assign-bound name
        (vec![], Expr::Assign(vec![(pv("K"), add(v("P1"), lit(5)))], Box::new(call_app(lam(vec!["K"], mul(v("K"), v("Z"))), v("P2"))))),
        // the parameter of an inline function
        (vec![Helper::Defun { name: "inl22".into(), pat: Pat::list(vec![pv("K"), pv("W")], Pat::Nil), body: call_app(lam(vec!["K"], mul(v("K"), v("Z"))), v("W")), inline: true }],
            Expr::Call("inl22".into(), vec![add(v("P1"), lit(1)), v("P2")], None)),
        // a let inside a function body
        (vec![Helper::Defun { name: "fun22".into(), pat: Pat::list(vec![pv("A"), pv("B")], Pat::Nil),
            body: Expr::Let(false, vec![("K".into(), add(v("A"), lit(1)))], Box::new(call_app(lam(vec!["K"], mul(v("K"), v("Z"))), v("B")))), inline: false }],
            Expr::Call("fun22".into(), vec![v("P1"), v("P2")], None)),
        // a parameter captured directly (control)
        (vec![], call_app(lam(vec!["P1"], mul(v("P1"), v("Z"))), v("P2"))),
    ];
    for (mut hs, body) in bodies {
        hs.insert(0, app.clone());
        out.push((Program { args: args.clone(), helpers: hs, body }, envs.clone()));
    }
    out
}

/// RecLadder: the second parameter reaches the result only by changing places in the argument list of a recursive
/// call (rotation, swap, mutual recursion), the recursion running over a list the first parameter holds: whatever
/// stops unfolding a recursive function has to keep every argument of the call it stops at
pub fn rec_ladder(lower: bool) -> Vec<(Program, Vec<V>)> {
    use crate::ast::{Expr, Helper, Pat};
    let (pl, p2) = if lower { ("plist", "p2") } else { ("PLIST", "P2") };
    let v = |n: &str| Expr::Var(n.to_string());
    let pv = |n: &str| Pat::Var(n.to_string());
    let call = |f: &str, a: Vec<Expr>| Expr::Call(f.to_string(), a, None);
    let rest = |e: Expr| Expr::Prim(6, vec![e]);
    let iff = |c: Expr, t: Expr, e: Expr| Expr::If(Box::new(c), Box::new(t), Box::new(e));
    let lit = |n: i64| Expr::Lit(V::int(n));
    let defun = |name: &str, ps: Vec<&str>, body: Expr, inline: bool| Helper::Defun { name: name.to_string(), pat: Pat::list(ps.iter().map(|x| pv(x)).collect(), Pat::Nil), body, inline };
    let args = Pat::list(vec![pv(pl), pv(p2)], Pat::Nil);
    let envs: Vec<V> = [vec![1, 1], vec![1, 2, 3], vec![], vec![5], vec![1, 1, 1, 1]].iter().map(|l| V::list(&[V::list(&l.iter().map(|x| V::int(*x)).collect::<Vec<_>>()), V::int(700)])).collect();
    let mut out = vec![];
    let progs: Vec<(Vec<Helper>, Expr)> = vec![
        (vec![defun("rot", vec!["P", "Q", "R", "S"], iff(v("P"), call("rot", vec![rest(v("P")), v("R"), v("S"), v("Q")]), v("Q")), false)],
            call("rot", vec![v(pl), lit(10), lit(20), v(p2)])),
        (vec![defun("rot", vec!["P", "Q", "R", "S"], iff(v("P"), call("rot", vec![rest(v("P")), v("R"), v("S"), v("Q")]), v("Q")), false)],
            call("rot", vec![v(pl), lit(10), v(p2), lit(30)])),
        (vec![defun("sw", vec!["P", "A", "B"], iff(v("P"), call("sw", vec![rest(v("P")), v("B"), v("A")]), v("A")), false)],
            call("sw", vec![v(pl), lit(5), v(p2)])),
        (vec![defun("acc", vec!["P", "A"], iff(v("P"), call("acc", vec![rest(v("P")), Expr::Prim(4, vec![Expr::Prim(5, vec![v("P")]), v("A")])]), v("A")), false)],
            call("acc", vec![v(pl), v(p2)])),
        (vec![defun("ev", vec!["P", "A", "B"], iff(v("P"), call("od", vec![rest(v("P")), v("A"), v("B")]), v("A")), false),
              defun("od", vec!["P", "A", "B"], iff(v("P"), call("ev", vec![rest(v("P")), v("A"), v("B")]), v("B")), false)],
            call("ev", vec![v(pl), lit(1), v(p2)])),
        (vec![defun("rot", vec!["P", "Q", "R", "S"], iff(v("P"), call("rot", vec![rest(v("P")), v("R"), v("S"), v("Q")]), v("Q")), false),
              defun("wrapi", vec!["L", "X"], call("rot", vec![v("L"), lit(1), lit(2), v("X")]), true)],
            call("wrapi", vec![v(pl), v(p2)])),
        (vec![defun("last2", vec!["P", "A"], iff(rest(v("P")), call("last2", vec![rest(v("P")), v("A")]), Expr::Prim(4, vec![Expr::Prim(5, vec![v("P")]), v("A")])), false)],
            iff(v(pl), call("last2", vec![v(pl), v(p2)]), lit(0))),
    ];
    for (helpers, body) in progs {
        out.push((Program { args: args.clone(), helpers, body }, envs.clone()));
    }
    out
}

/// UseLadder: the second parameter reaches the result through every chain of one or two binding / calling /
/// branching constructs (let, let*, assign, inline call, function call, lambda capture, lambda argument, if with a
/// constant or a parameter condition, list).  Every construct handles names in its own way in the front end, the
/// evaluator and the code generator; a name lost along any chain changes the result.
pub fn use_ladder(lower: bool) -> Vec<(Program, Vec<V>)> {
    use crate::ast::{Expr, Helper, Pat};
    let (p1, p2, pprog) = if lower { ("p1", "p2", "pprog") } else { ("P1", "P2", "PPROG") };
    let v = |n: &str| Expr::Var(n.to_string());
    let pv = |n: &str| Pat::Var(n.to_string());
    let nwrap = 18;
    let wrap = |k: usize, e: Expr, ctr: &mut usize| -> Expr {
        *ctr += 1;
        let (l, m) = (format!("L{}", *ctr * 2), format!("L{}", *ctr * 2 + 1));
        match k {
            0 => Expr::Let(false, vec![(l.clone(), e)], Box::new(v(&l))),
            1 => Expr::Let(true, vec![(l.clone(), e), (m.clone(), v(&l))], Box::new(v(&m))),
            2 => Expr::Assign(vec![(Pat::Cons(Box::new(pv(&l)), Box::new(pv(&m))), Expr::Prim(4, vec![e, Expr::Lit(V::int(1))]))], Box::new(v(&l))),
            3 => Expr::Call("inl1".into(), vec![e], None),
            4 => Expr::Call("fun2".into(), vec![e], None),
            5 => Expr::Let(false, vec![(l.clone(), e)], Box::new(Expr::Apply(Box::new(Expr::Lambda(vec![l.clone()], Pat::list(vec![pv(&m)], Pat::Nil), Box::new(v(&l)))), Box::new(Expr::List(vec![Expr::Lit(V::int(1))]))))),
            6 => Expr::Apply(Box::new(Expr::Lambda(vec![], Pat::list(vec![pv(&m)], Pat::Nil), Box::new(v(&m)))), Box::new(Expr::List(vec![e]))),
            7 => Expr::If(Box::new(Expr::Lit(V::int(1))), Box::new(e), Box::new(Expr::Lit(V::int(0)))),
            8 => Expr::If(Box::new(v(p1)), Box::new(e), Box::new(Expr::Lit(V::int(0)))),
            9 => Expr::Prim(5, vec![Expr::List(vec![e])]),
            // a condition choosing between two function values, applied to an environment holding the expression
            10 => Expr::Apply(Box::new(Expr::Prim(3, vec![v(p1), v("fun2"), v("fun2")])), Box::new(Expr::List(vec![e]))),
            // ... and between two programs passed in as a parameter (the third parameter holds the CLVM program 2)
            11 => Expr::Apply(Box::new(Expr::Prim(3, vec![v(p1), v(pprog), v(pprog)])), Box::new(Expr::List(vec![e]))),
            // an inline function whose body hands its parameter to a function, and one whose body has an if on it
            12 => Expr::Call("inl3".into(), vec![e], None),
            13 => Expr::Call("inl4".into(), vec![e, v(p1)], None),
            // a lambda with two captures of which the first is a constant at compile time, applied in place ...
            14 => Expr::Let(false, vec![(m.clone(), Expr::Lit(V::int(2))), (l.clone(), e)],
                Box::new(Expr::Apply(Box::new(Expr::Lambda(vec![m.clone(), l.clone()], Pat::list(vec![pv("ZC")], Pat::Nil), Box::new(Expr::List(vec![v(&m), v(&l), v("ZC")])))), Box::new(Expr::List(vec![Expr::Lit(V::int(1))]))))),
            // ... and the same inside a function called with the constant
            15 => Expr::Call("capf".into(), vec![Expr::Lit(V::int(2)), e, Expr::Lit(V::int(1))], None),
            // a function whose whole parameter list is captured by name: what the call passes beyond the pattern (here
            // through a &rest tail) is reachable through that name only
            16 => Expr::Call("atall".into(), vec![Expr::Lit(V::int(1)), Expr::Lit(V::int(2))], Some(Box::new(Expr::List(vec![e])))),
            _ => Expr::Call("atmore".into(), vec![Expr::Lit(V::int(1)), Expr::Lit(V::int(2))], Some(Box::new(Expr::List(vec![e])))),
        }
    };
    // binder around, construct inside: the bound name (not the expression) goes through the inner construct
    let bind_around = |k: usize, e: Expr, inner: &dyn Fn(Expr) -> Expr, ctr: &mut usize| -> Expr {
        *ctr += 1;
        let (l, m) = (format!("S{}", *ctr * 2 + 100), format!("S{}", *ctr * 2 + 101));
        match k {
            0 => Expr::Let(false, vec![(l.clone(), e)], Box::new(inner(v(&l)))),
            1 => Expr::Let(true, vec![(l.clone(), e), (m.clone(), v(&l))], Box::new(inner(v(&m)))),
            2 => Expr::Assign(vec![(Pat::Cons(Box::new(pv(&l)), Box::new(pv(&m))), Expr::Prim(4, vec![e, Expr::Lit(V::int(1))]))], Box::new(inner(v(&l)))),
            // (the lambdas capture the parameters the inner constructs may name)
            3 => Expr::Let(false, vec![(l.clone(), e)], Box::new(Expr::Apply(Box::new(Expr::Lambda(vec![l.clone(), p1.to_string(), pprog.to_string()], Pat::list(vec![pv(&m)], Pat::Nil), Box::new(inner(v(&l))))), Box::new(Expr::List(vec![Expr::Lit(V::int(1))]))))),
            _ => Expr::Apply(Box::new(Expr::Lambda(vec![p1.to_string(), pprog.to_string()], Pat::list(vec![pv(&m)], Pat::Nil), Box::new(inner(v(&m))))), Box::new(Expr::List(vec![e]))),
        }
    };
    let helpers = vec![
        Helper::Defun { name: "inl1".into(), pat: Pat::list(vec![pv("A")], Pat::Nil), body: v("A"), inline: true },
        Helper::Defun { name: "fun2".into(), pat: Pat::list(vec![pv("B")], Pat::Nil), body: v("B"), inline: false },
        Helper::Defun { name: "inl3".into(), pat: Pat::list(vec![pv("C")], Pat::Nil), body: Expr::Call("fun2".into(), vec![v("C")], None), inline: true },
        Helper::Defun { name: "inl4".into(), pat: Pat::list(vec![pv("D"), pv("E")], Pat::Nil), body: Expr::If(Box::new(v("E")), Box::new(v("D")), Box::new(Expr::Lit(V::int(0)))), inline: true },
        Helper::Defun { name: "atall".into(), pat: Pat::At("ALL".into(), Box::new(Pat::list(vec![pv("AA"), pv("AB")], Pat::Nil))),
            body: Expr::Prim(5, vec![Expr::Prim(6, vec![Expr::Prim(6, vec![v("ALL")])])]), inline: false },
        Helper::Defun { name: "atmore".into(), pat: Pat::Cons(Box::new(pv("MA")), Box::new(Pat::At("MORE".into(), Box::new(Pat::list(vec![pv("MB")], Pat::Nil))))),
            body: Expr::Prim(5, vec![Expr::Prim(6, vec![v("MORE")])]), inline: false },
        Helper::Defun { name: "capf".into(), pat: Pat::list(vec![pv("CK"), pv("CV"), pv("CY")], Pat::Nil),
            body: Expr::Apply(Box::new(Expr::Lambda(vec!["CK".into(), "CV".into()], Pat::list(vec![pv("CZ")], Pat::Nil), Box::new(Expr::List(vec![v("CK"), v("CV"), v("CZ")])))), Box::new(Expr::List(vec![v("CY")]))), inline: false },
    ];
    let args = Pat::list(vec![pv(p1), pv(p2), pv(pprog)], Pat::Nil);
    let two = V::int(2);
    let envs = vec![V::list(&[V::int(1), V::int(700), two.clone()]), V::list(&[V::int(3), V::list(&[V::int(1), V::int(2)]), two.clone()]), V::list(&[V::nil(), V::int(9), two])];
    let mut out = vec![];
    for a in 0..nwrap {
        for b in (0..=nwrap).rev() {
            let mut ctr = 0;
            let inner = wrap(a, v(p2), &mut ctr);
            let e = if b == nwrap { inner } else { wrap(b, inner, &mut ctr) };
            let uses_helpers = [a, b].iter().any(|k| matches!(*k, 3 | 4 | 10 | 12 | 13 | 15 | 16 | 17));
            out.push((Program { args: args.clone(), helpers: if uses_helpers { helpers.clone() } else { vec![] }, body: Expr::Prim(4, vec![v(p1), e]) }, envs.clone()));
        }
    }
    // chains of three and four dependent binders (let*, nested lets, an assign, a mix) whose last name goes through an if:
    // whatever is compiled apart for the branch needs every name of the chain, not only the nearest
    for len in [3usize, 4] {
        for kind in 0..4usize {
            for b in [7usize, 8, 13, 0] {
                let names: Vec<String> = (1..=len).map(|i| format!("C{}", kind * 10 + i)).collect();
                // C1 = (c p2 ()), C(i+1) = (c Ci ()) .. the last ones take it apart again: total for every p2
                let step = |i: usize, prev: Expr| if i < 2 { Expr::Prim(4, vec![prev, Expr::Lit(V::nil())]) } else { Expr::Prim(5, vec![prev]) };
                let mut vals = vec![];
                let mut prev = v(p2);
                for (i, n) in names.iter().enumerate() {
                    vals.push((n.clone(), step(i, prev)));
                    prev = v(n);
                }
                let mut ctr2 = 70;
                let body = wrap(b, v(&names[len - 1]), &mut ctr2);
                let e = match kind {
                    0 => Expr::Let(true, vals, Box::new(body)),
                    1 => vals.into_iter().rev().fold(body, |acc, (n, x)| Expr::Let(false, vec![(n, x)], Box::new(acc))),
                    2 => Expr::Assign(vals.into_iter().map(|(n, x)| (Pat::Var(n), x)).collect(), Box::new(body)),
                    _ => {
                        let mut it = vals.into_iter();
                        let first = it.next().unwrap();
                        let rest: Vec<(String, Expr)> = it.collect();
                        Expr::Let(false, vec![first], Box::new(Expr::Assign(rest[..1].iter().map(|(n, x)| (Pat::Var(n.clone()), x.clone())).collect(),
                            Box::new(Expr::Let(true, rest[1..].to_vec(), Box::new(body))))))
                    }
                };
                let uses_helpers = matches!(b, 13);
                out.push((Program { args: args.clone(), helpers: if uses_helpers { helpers.clone() } else { vec![] }, body: Expr::Prim(4, vec![v(p1), e]) }, envs.clone()));
            }
        }
    }
    for a in 0..5 {
        for b in 0..nwrap {
            let mut ctr = 0;
            let mut ctr2 = 50;
            let inner = |x: Expr| wrap(b, x, &mut ctr2.clone());
            let e = bind_around(a, v(p2), &inner, &mut ctr);
            ctr2 += 1;
            let uses_helpers = matches!(b, 3 | 4 | 10 | 12 | 13 | 15 | 16 | 17);
            out.push((Program { args: args.clone(), helpers: if uses_helpers { helpers.clone() } else { vec![] }, body: Expr::Prim(4, vec![v(p1), e]) }, envs.clone()));
        }
    }
    out
}

/// RestLadder + AssignLadder.
/// RestLadder: a function / inline function of 2..5 parameters called with k positional arguments and the remaining
/// ones through &rest (a parameter holding the list, or a list expression).
/// AssignLadder: an assign form destructuring a parameter with every small shape, returning every name.
pub fn rest_and_assign_ladders() -> Vec<(Program, Vec<V>)> {
    use crate::ast::{Expr, Helper, Pat};
    let v = |n: &str| Expr::Var(n.to_string());
    let pv = |n: &str| Pat::Var(n.to_string());
    let mut out = vec![];
    let names = ["A", "B", "C", "D", "E"];
    for np in 2..=5usize {
        for k in 0..np {
            for inline in [false, true] {
                for as_list in [false, true] {
                    let fpat = Pat::list(names[..np].iter().map(|n| pv(n)).collect(), Pat::Nil);
                    let body = Expr::List(names[..np].iter().map(|n| v(n)).collect());
                    let positional: Vec<Expr> = (0..k).map(|i| Expr::Lit(V::int(900 + i as i64))).collect();
                    let missing = np - k;
                    let rest = if as_list { Expr::List((0..missing).map(|i| Expr::Prim(16, vec![v("P"), Expr::Lit(V::int(i as i64))])).collect()) } else { v("Q") };
                    let p = Program { args: Pat::list(vec![pv("P"), pv("Q")], Pat::Nil),
                        helpers: vec![Helper::Defun { name: "pick".into(), pat: fpat, body, inline }],
                        body: Expr::Call("pick".into(), positional, Some(Box::new(rest))) };
                    let qlist = V::list(&(0..missing).map(|i| V::int(3000 + i as i64)).collect::<Vec<_>>());
                    let qlong = V::list(&(0..missing + 2).map(|i| V::int(4000 + i as i64)).collect::<Vec<_>>());
                    out.push((p, vec![V::list(&[V::int(10), qlist]), V::list(&[V::int(20), qlong])]));
                }
            }
        }
    }
    // a repeated subexpression around a call with a &rest tail: in a positional argument and outside the call, in the
    // tail and outside, in both (the cl23+ CSE pass rebuilds the call)
    {
        let sq = || Expr::Prim(18, vec![v("A"), v("A")]);
        let gtail = Helper::Defun { name: "gtail".into(), pat: Pat::Cons(Box::new(pv("X")), Box::new(pv("Y"))), body: Expr::Prim(4, vec![v("X"), v("Y")]), inline: false };
        let calls: Vec<Expr> = vec![
            Expr::Prim(4, vec![sq(), Expr::Call("gtail".into(), vec![sq()], Some(Box::new(v("R"))))]),
            Expr::Prim(4, vec![sq(), Expr::Call("gtail".into(), vec![v("A")], Some(Box::new(Expr::List(vec![sq(), v("R")]))))]),
            Expr::Prim(4, vec![sq(), Expr::Call("gtail".into(), vec![sq()], Some(Box::new(Expr::List(vec![sq(), v("R")]))))]),
            Expr::Call("gtail".into(), vec![sq(), sq()], Some(Box::new(v("R")))),
            Expr::Prim(4, vec![sq(), Expr::Call("gtail".into(), vec![sq(), v("A")], Some(Box::new(v("R"))))]),
        ];
        for body in calls {
            for inline in [false, true] {
                let f = Helper::Defun { name: "crf".into(), pat: Pat::list(vec![pv("A"), pv("R")], Pat::Nil), body: body.clone(), inline };
                let p = Program { args: Pat::list(vec![pv("P"), pv("Q")], Pat::Nil), helpers: vec![gtail.clone(), f], body: Expr::Call("crf".into(), vec![v("P"), v("Q")], None) };
                out.push((p, vec![V::list(&[V::int(100), V::list(&[V::int(500), V::int(700)])]), V::list(&[V::int(3), V::nil()])]));
            }
        }
    }
    // calls whose positional arguments and &rest tail are all constants (the cl23+ optimiser evaluates such calls at
    // compile time), next to a parameter so that the program still depends on its input
    {
        let lit = |n: i64| Expr::Lit(V::int(n));
        let qlist = |xs: &[i64]| Expr::Lit(V::list(&xs.iter().map(|x| V::int(*x)).collect::<Vec<_>>()));
        let body = Expr::Prim(16, vec![v("A"), Expr::Prim(18, vec![lit(10), v("B")]), Expr::Prim(18, vec![lit(100), v("C")]), Expr::Prim(18, vec![lit(1000), v("D")])]);
        let calls: Vec<(Vec<Expr>, Expr)> = vec![
            (vec![lit(1), lit(2)], qlist(&[3, 4])),
            (vec![], qlist(&[1, 2, 3, 4])),
            (vec![lit(1)], Expr::List(vec![lit(2), lit(3), lit(4)])),
            (vec![lit(1), lit(2), lit(3)], qlist(&[4])),
            (vec![lit(1), lit(2), lit(3), lit(4)], qlist(&[5])),
            (vec![lit(1), lit(2)], Expr::Prim(4, vec![lit(3), qlist(&[4])])),
        ];
        for (pos, rest) in calls {
            for inline in [false, true] {
                let f = Helper::Defun { name: "sum4".into(), pat: Pat::list(vec![pv("A"), pv("B"), pv("C"), pv("D")], Pat::Nil), body: body.clone(), inline };
                let p = Program { args: Pat::list(vec![pv("P"), pv("Q")], Pat::Nil), helpers: vec![f],
                    body: Expr::Prim(16, vec![v("P"), Expr::Call("sum4".into(), pos.clone(), Some(Box::new(rest.clone())))]) };
                out.push((p, vec![V::list(&[V::int(10), V::int(0)]), V::list(&[V::int(0), V::int(1)])]));
            }
        }
    }
    let shapes: Vec<(Pat, Vec<&str>)> = vec![
        (Pat::Cons(Box::new(pv("A")), Box::new(pv("B"))), vec!["A", "B"]),
        (Pat::list(vec![pv("A"), pv("B"), pv("C")], Pat::Nil), vec!["A", "B", "C"]),
        (Pat::list(vec![Pat::list(vec![pv("A"), pv("B")], Pat::Nil), pv("C")], Pat::Nil), vec!["A", "B", "C"]),
        (Pat::list(vec![pv("A"), pv("B")], pv("C")), vec!["A", "B", "C"]),
        (Pat::list(vec![pv("A"), Pat::list(vec![pv("B"), pv("C")], Pat::Nil)], Pat::Nil), vec!["A", "B", "C"]),
        (Pat::Cons(Box::new(Pat::Cons(Box::new(pv("A")), Box::new(pv("B")))), Box::new(pv("C"))), vec!["A", "B", "C"]),
        (Pat::Cons(Box::new(pv("A")), Box::new(Pat::Cons(Box::new(pv("B")), Box::new(pv("C"))))), vec!["A", "B", "C"]),
        (Pat::list(vec![Pat::list(vec![pv("A"), pv("B"), pv("C")], Pat::Nil), pv("D")], Pat::Nil), vec!["A", "B", "C", "D"]),
    ];
    fn witness(p: &Pat, k: &mut i64) -> V {
        match p {
            Pat::Nil => V::nil(),
            Pat::Var(_) | Pat::At(_, _) => {
                *k += 1001;
                V::int(*k)
            }
            Pat::Cons(a, b) => {
                let l = witness(a, k);
                let r = witness(b, k);
                V::cons(l, r)
            }
        }
    }
    for (shape, ns) in shapes {
        let mut k = 0;
        let arg = witness(&shape, &mut k);
        let body = Expr::Assign(vec![(shape.clone(), v("P"))], Box::new(Expr::List(ns.iter().map(|n| v(n)).collect())));
        // directly, inside a function, inside an inline function
        let direct = Program { args: Pat::list(vec![pv("P")], Pat::Nil), helpers: vec![], body: body.clone() };
        out.push((direct, vec![V::list(&[arg.clone()])]));
        for inline in [false, true] {
            let p = Program { args: Pat::list(vec![pv("Q")], Pat::Nil),
                helpers: vec![Helper::Defun { name: "take".into(), pat: Pat::list(vec![pv("P")], Pat::Nil), body: body.clone(), inline }],
                body: Expr::Call("take".into(), vec![v("Q")], None) };
            out.push((p, vec![V::list(&[arg.clone()])]));
        }
    }
    out
}

/// AtLadder: functions with an (@ name pattern) parameter whose body reaches the captured value and the pattern's
/// names directly, under an if, and under a let; the argument has exactly the pattern's shape, a longer list, or an
/// improper tail (the capture must keep all of it).
pub fn at_ladder() -> Vec<(Program, Vec<V>)> {
    use crate::ast::{Expr, Helper, Pat};
    let v = |n: &str| Expr::Var(n.to_string());
    let pv = |n: &str| Pat::Var(n.to_string());
    let at = Pat::At("Z".into(), Box::new(Pat::list(vec![pv("B"), pv("C")], Pat::Nil)));
    let bodies: Vec<Expr> = vec![
        Expr::List(vec![v("B"), v("C"), v("Z")]),
        Expr::If(Box::new(v("A")), Box::new(Expr::Prim(4, vec![v("B"), v("Z")])), Box::new(Expr::Prim(4, vec![v("C"), v("Z")]))),
        Expr::Let(false, vec![("L".into(), v("Z"))], Box::new(Expr::If(Box::new(v("A")), Box::new(Expr::Prim(4, vec![v("C"), v("L")])), Box::new(v("L"))))),
        Expr::If(Box::new(v("A")), Box::new(Expr::Let(false, vec![("L".into(), v("B"))], Box::new(Expr::List(vec![v("L"), v("Z")])))), Box::new(v("Z"))),
    ];
    let qs = [V::list(&[V::int(2), V::int(3)]), V::list(&[V::int(2), V::int(3), V::int(4), V::int(5)]), V::list_tail(&[V::int(2), V::int(3)], V::int(9))];
    let mut out = vec![];
    for body in bodies {
        for inline in [false, true] {
            for first in [false, true] {
                let fpat = if first { Pat::list(vec![at.clone(), pv("A")], Pat::Nil) } else { Pat::list(vec![pv("A"), at.clone()], Pat::Nil) };
                let call = if first { vec![v("Q"), v("P")] } else { vec![v("P"), v("Q")] };
                let p = Program { args: Pat::list(vec![pv("P"), pv("Q")], Pat::Nil),
                    helpers: vec![Helper::Defun { name: "capt".into(), pat: fpat, body: body.clone(), inline }],
                    body: Expr::Call("capt".into(), call, None) };
                let mut envs = vec![];
                for q in qs.iter() {
                    envs.push(V::list(&[V::int(1), q.clone()]));
                    envs.push(V::list(&[V::nil(), q.clone()]));
                }
                out.push((p, envs));
            }
        }
    }
    out
}

/// DepthLadder: expressions nested deeper and deeper (5 .. 260 additions, and recursion of growing depth), bound by
/// let / let* / assign or written directly, reaching a function as an argument.  The partial evaluator gives up at a depth
/// limit; wherever it answers instead, the answer has to be the compiled program's.
pub fn depth_ladder(full: bool) -> Vec<(Program, Vec<V>)> {
    use crate::ast::{Expr, Helper, Pat};
    let v = |n: &str| Expr::Var(n.to_string());
    let pv = |n: &str| Pat::Var(n.to_string());
    let lit = |n: i64| Expr::Lit(V::int(n));
    let deep = |n: usize, leaf: Expr| {
        let mut e = leaf;
        for _ in 0..n {
            e = Expr::Prim(16, vec![lit(1), e]);
        }
        e
    };
    let depths: Vec<usize> = if full { vec![5, 30, 60, 90, 95, 100, 110, 130, 170, 200, 260] } else { vec![5, 60, 95, 130, 260] };
    let mut out = vec![];
    for n in depths {
        for shape in 0..8usize {
            let g = Helper::Defun { name: "gsum".into(), pat: Pat::list(vec![pv("X"), pv("Y")], Pat::Nil), body: Expr::Prim(16, vec![v("X"), v("Y")]), inline: shape == 2 };
            let call = |a: Expr, b: Expr| Expr::Call("gsum".into(), vec![a, b], None);
            let use_x = call(lit(1000), Expr::Prim(16, vec![v("DX"), lit(1)]));
            let mut helpers = vec![g];
            let mut arg = lit(5);
            let fbody = match shape {
                0 | 2 | 6 => Expr::Let(false, vec![("DX".into(), deep(n, v("A")))], Box::new(use_x)),
                1 => Expr::Assign(vec![(pv("DX"), deep(n, v("A")))], Box::new(use_x)),
                3 => call(lit(1000), deep(n, v("A"))),
                4 => Expr::If(Box::new(v("A")), Box::new(call(lit(1), deep(n, v("A")))), Box::new(lit(0))),
                5 => Expr::Let(true, vec![("DX".into(), deep(n, v("A"))), ("DY".into(), Expr::Prim(16, vec![v("DX"), lit(1)]))], Box::new(call(v("DY"), v("DY")))),
                _ => {
                    // depth through recursion: (count n) = n
                    helpers.push(Helper::Defun { name: "count".into(), pat: Pat::list(vec![pv("N")], Pat::Nil),
                        body: Expr::If(Box::new(v("N")), Box::new(Expr::Prim(16, vec![lit(1), Expr::Call("count".into(), vec![Expr::Prim(17, vec![v("N"), lit(1)])], None)])), Box::new(lit(0))), inline: false });
                    arg = lit(n as i64);
                    Expr::Let(false, vec![("DX".into(), Expr::Call("count".into(), vec![v("A")], None))], Box::new(use_x))
                }
            };
            helpers.push(Helper::Defun { name: "deepf".into(), pat: Pat::list(vec![pv("A")], Pat::Nil), body: fbody, inline: shape == 6 });
            let p = Program { args: Pat::list(vec![pv("P1")], Pat::Nil), helpers, body: Expr::Call("deepf".into(), vec![v("P1")], None) };
            let first = match &arg { Expr::Lit(x) => x.clone(), _ => V::int(5) };
            out.push((p, vec![V::list(&[first]), V::list(&[V::int(2)])]));
        }
    }
    out
}

/// ConstLadder: constants whose content reads as code (lists headed by 1 = q, 2 = a, 4 = c, 5 = f ..) in the places where
/// the optimisers meet them already folded: under a single first / rest next to something that is not constant, as the
/// branches of a condition, as the body of a function, inside an argument list that a function takes apart.
pub fn const_ladder() -> Vec<(Program, Vec<V>)> {
    use crate::ast::{Expr, Helper, Pat};
    let v = |n: &str| Expr::Var(n.to_string());
    let pv = |n: &str| Pat::Var(n.to_string());
    let i = |n: i64| V::int(n);
    let zoo: Vec<V> = vec![
        V::list(&[i(1), i(2), i(3)]), V::list(&[i(1)]), V::cons(i(1), i(5)), V::list(&[i(2), i(2), i(3)]), V::list(&[i(4), i(1), i(2)]),
        V::list(&[i(5), V::list(&[i(4), i(1), i(2)])]), V::list(&[V::list(&[i(1)]), i(1)]), V::list(&[i(9), i(9)]), V::list(&[i(1), V::list(&[i(1), i(2)])]),
    ];
    let mut out = vec![];
    for d in zoo {
        for shape in 0..8usize {
            let mut helpers = vec![];
            let body = match shape {
                0 => Expr::Prim(4, vec![v("P1"), Expr::Prim(6, vec![Expr::Lit(V::cons(i(5), d.clone()))])]),
                1 => Expr::Prim(4, vec![v("P1"), Expr::Prim(5, vec![Expr::Lit(V::cons(d.clone(), i(7)))])]),
                2 | 3 => {
                    helpers.push(Helper::DefConstant { name: "LC".into(), value: d.clone() });
                    helpers.push(Helper::DefConstant { name: "MC".into(), value: i(7) });
                    if shape == 2 { Expr::If(Box::new(v("P1")), Box::new(v("LC")), Box::new(v("MC"))) } else { Expr::Prim(3, vec![v("P1"), v("LC"), v("MC")]) }
                }
                4 | 5 => {
                    helpers.push(Helper::Defun { name: "kst".into(), pat: Pat::Nil, body: Expr::Lit(d.clone()), inline: shape == 5 });
                    helpers.push(Helper::Defun { name: "kst2".into(), pat: Pat::Nil, body: Expr::Lit(i(7)), inline: shape == 5 });
                    Expr::Prim(3, vec![v("P1"), Expr::Call("kst".into(), vec![], None), Expr::Call("kst2".into(), vec![], None)])
                }
                _ => {
                    helpers.push(Helper::Defun { name: "apart".into(), pat: Pat::list(vec![Pat::list(vec![pv("A"), pv("B")], Pat::Nil), pv("C")], Pat::Nil),
                        body: Expr::Prim(4, vec![v("A"), Expr::Prim(4, vec![v("B"), v("C")])]), inline: shape == 7 });
                    Expr::Call("apart".into(), vec![Expr::List(vec![Expr::Lit(d.clone()), v("P1")]), Expr::Lit(i(5))], None)
                }
            };
            out.push((Program { args: Pat::list(vec![pv("P1")], Pat::Nil), helpers, body }, vec![V::list(&[V::int(100)]), V::list(&[V::nil()])]));
        }
    }
    out
}

/// ModLadder: a (mod ..) used as an expression (its value is the compiled program) whose body has binders and helpers
/// of its own, applied directly, through a let-bound name, through a function taking the program as an argument, and
/// from inside a function; and a function used as a value whose body has binders.
pub fn mod_ladder() -> Vec<(Program, Vec<V>)> {
    use crate::ast::{Expr, Helper, Pat};
    let v = |n: &str| Expr::Var(n.to_string());
    let pv = |n: &str| Pat::Var(n.to_string());
    let lit = |n: i64| Expr::Lit(V::int(n));
    let x1 = || Expr::Prim(16, vec![v("MX"), lit(1)]);
    let bodies: Vec<(Vec<Helper>, Expr)> = vec![
        (vec![], Expr::Prim(18, vec![v("MX"), v("MX")])),
        (vec![], Expr::Let(false, vec![("MA".into(), x1())], Box::new(Expr::Prim(18, vec![v("MA"), v("MA")])))),
        (vec![], Expr::Let(true, vec![("MA".into(), x1()), ("MB".into(), Expr::Prim(18, vec![v("MA"), lit(2)]))], Box::new(Expr::Prim(4, vec![v("MA"), v("MB")])))),
        (vec![], Expr::Assign(vec![(Pat::Cons(Box::new(pv("MA")), Box::new(pv("MB"))), Expr::Prim(4, vec![v("MX"), lit(7)]))], Box::new(Expr::Prim(4, vec![v("MB"), v("MA")])))),
        (vec![Helper::Defun { name: "msq".into(), pat: Pat::list(vec![pv("MY")], Pat::Nil), body: Expr::Let(false, vec![("MC".into(), v("MY"))], Box::new(Expr::Prim(18, vec![v("MC"), v("MY")]))), inline: false }],
            Expr::Call("msq".into(), vec![x1()], None)),
        (vec![], Expr::If(Box::new(v("MX")), Box::new(Expr::Let(false, vec![("MA".into(), x1())], Box::new(v("MA")))), Box::new(lit(9)))),
    ];
    let mut out = vec![];
    for (hs, b) in bodies {
        let inner = || Expr::Mod(Box::new(Program { args: Pat::list(vec![pv("MX")], Pat::Nil), helpers: hs.clone(), body: b.clone() }));
        let envs = vec![V::list(&[V::int(5)]), V::list(&[V::nil()])];
        let args = || Pat::list(vec![pv("P1")], Pat::Nil);
        let apply = |f: Expr, a: Expr| Expr::Apply(Box::new(f), Box::new(Expr::List(vec![a])));
        out.push((Program { args: args(), helpers: vec![], body: apply(inner(), v("P1")) }, envs.clone()));
        out.push((Program { args: args(), helpers: vec![], body: Expr::Let(false, vec![("LM".into(), inner())], Box::new(apply(v("LM"), v("P1")))) }, envs.clone()));
        out.push((Program { args: args(), helpers: vec![Helper::Defun { name: "appf".into(), pat: Pat::list(vec![pv("F"), pv("W")], Pat::Nil), body: apply(v("F"), v("W")), inline: false }],
            body: Expr::Call("appf".into(), vec![inner(), v("P1")], None) }, envs.clone()));
        out.push((Program { args: args(), helpers: vec![Helper::Defun { name: "withm".into(), pat: Pat::list(vec![pv("W")], Pat::Nil), body: apply(inner(), v("W")), inline: false }],
            body: Expr::Call("withm".into(), vec![v("P1")], None) }, envs.clone()));
    }
    // a function used as a value, its body with binders
    for (k, fbody) in [
        Expr::Let(false, vec![("FL".into(), v("FV"))], Box::new(v("FL"))),
        Expr::Let(true, vec![("FL".into(), v("FV")), ("FM".into(), Expr::Prim(4, vec![v("FL"), v("FW")]))], Box::new(v("FM"))),
        Expr::Assign(vec![(pv("FL"), Expr::Prim(4, vec![v("FV"), v("FW")]))], Box::new(v("FL"))),
        Expr::If(Box::new(v("FW")), Box::new(Expr::Let(false, vec![("FL".into(), v("FV"))], Box::new(v("FL")))), Box::new(v("FV"))),
    ].into_iter().enumerate() {
        let f = Helper::Defun { name: format!("fval{k}"), pat: Pat::list(vec![pv("FV"), pv("FW")], Pat::Nil), body: fbody, inline: false };
        let body = Expr::Apply(Box::new(v(&format!("fval{k}"))), Box::new(Expr::List(vec![v("P1"), lit(7)])));
        out.push((Program { args: Pat::list(vec![pv("P1")], Pat::Nil), helpers: vec![f], body }, vec![V::list(&[V::int(5)]), V::list(&[V::list(&[V::int(1), V::int(2)])])]));
    }
    out
}

/// NameLadder: variables whose names are also the names of operators and special forms (q, quote, qq, unquote, a, c, f,
/// i, x), as a function parameter in first and in later position, a main parameter, a let / assign-bound name, a lambda
/// capture and a lambda parameter.  A name in argument position is a variable whatever it is called.
pub fn name_ladder() -> Vec<(Program, Vec<V>)> {
    use crate::ast::{Expr, Helper, Pat};
    let v = |n: &str| Expr::Var(n.to_string());
    let pv = |n: &str| Pat::Var(n.to_string());
    let lit = |n: i64| Expr::Lit(V::int(n));
    let mut out = vec![];
    for n in ["q", "quote", "qq", "unquote", "a", "c", "f", "i", "x"] {
        let envs = vec![V::list(&[V::int(5), V::int(9)]), V::list(&[V::int(0), V::int(1)])];
        let main = |helpers: Vec<Helper>, body: Expr| Program { args: Pat::list(vec![pv("P1"), pv("P2")], Pat::Nil), helpers, body };
        for inline in [false, true] {
            out.push((main(vec![Helper::Defun { name: "nfirst".into(), pat: Pat::list(vec![pv(n), pv("W")], Pat::Nil), body: Expr::Prim(17, vec![v(n), v("W")]), inline }],
                Expr::Call("nfirst".into(), vec![v("P1"), v("P2")], None)), envs.clone()));
            out.push((main(vec![Helper::Defun { name: "nlater".into(), pat: Pat::list(vec![pv("W"), pv(n), pv("V")], Pat::Nil), body: Expr::Prim(17, vec![v(n), Expr::Prim(16, vec![v("W"), v("V")])]), inline }],
                Expr::Call("nlater".into(), vec![v("P1"), v("P2"), lit(3)], None)), envs.clone()));
            out.push((main(vec![Helper::Defun { name: "ndeep".into(), pat: Pat::list(vec![Pat::list(vec![pv("W"), pv(n)], Pat::Nil), pv("V")], Pat::Nil), body: Expr::Prim(17, vec![v(n), Expr::Prim(16, vec![v("W"), v("V")])]), inline }],
                Expr::Call("ndeep".into(), vec![Expr::List(vec![v("P1"), v("P2")]), lit(3)], None)), envs.clone()));
        }
        out.push((Program { args: Pat::list(vec![pv("P1"), pv(n)], Pat::Nil), helpers: vec![], body: Expr::Prim(17, vec![v(n), v("P1")]) }, envs.clone()));
        out.push((main(vec![], Expr::Let(false, vec![(n.to_string(), Expr::Prim(16, vec![v("P1"), lit(1)]))], Box::new(Expr::Prim(18, vec![v(n), v("P2")])))), envs.clone()));
        out.push((main(vec![], Expr::Assign(vec![(Pat::Cons(Box::new(pv("W")), Box::new(pv(n))), Expr::Prim(4, vec![v("P1"), v("P2")]))], Box::new(Expr::Prim(17, vec![v(n), v("W")])))), envs.clone()));
        out.push((main(vec![], Expr::Apply(Box::new(Expr::Lambda(vec!["P2".into()], pv(n), Box::new(Expr::Prim(17, vec![v(n), v("P2")])))), Box::new(Expr::List(vec![v("P1")])))), envs.clone()));
        // ... and in a lambda's parameter list, first and last
        out.push((main(vec![], Expr::Apply(Box::new(Expr::Lambda(vec!["P2".into()], Pat::list(vec![pv(n), pv("W")], Pat::Nil), Box::new(Expr::Prim(17, vec![v(n), Expr::Prim(16, vec![v("W"), v("P2")])])))), Box::new(Expr::List(vec![v("P1"), lit(3)])))), envs.clone()));
        out.push((main(vec![], Expr::Apply(Box::new(Expr::Lambda(vec!["P2".into()], Pat::list(vec![pv("W"), pv(n)], Pat::Nil), Box::new(Expr::Prim(17, vec![v(n), Expr::Prim(16, vec![v("W"), v("P2")])])))), Box::new(Expr::List(vec![lit(3), v("P1")])))), envs.clone()));
    }
    out
}

/// DefconstLadder: a constant computed at compile time (defconst) whose expression reaches another such constant through
/// a function, an inline function or a macro, with names that sort and hash in different orders, and a chain of three.
pub fn defconst_ladder() -> Vec<(Program, Vec<V>)> {
    use crate::ast::{Expr, Helper, Pat};
    let v = |n: &str| Expr::Var(n.to_string());
    let pv = |n: &str| Pat::Var(n.to_string());
    let lit = |n: i64| Expr::Lit(V::int(n));
    let mut out = vec![];
    for (a, b, c) in [("KA", "KB", "KC"), ("KZ", "KB", "KM"), ("K2", "K1", "K3"), ("ALPHA", "BETA", "GAMMA"), ("BETA", "ALPHA", "DELTA"), ("A", "B", "C")] {
        for how in 0..3usize {
            for order in 0..2usize {
                let through = match how {
                    0 => Helper::Defun { name: "tri".into(), pat: Pat::list(vec![pv("V")], Pat::Nil), body: Expr::Prim(18, vec![v("V"), v(b)]), inline: false },
                    1 => Helper::Defun { name: "tri".into(), pat: Pat::list(vec![pv("V")], Pat::Nil), body: Expr::Prim(18, vec![v("V"), v(b)]), inline: true },
                    _ => Helper::DefMacro { name: "tri".into(), params: vec!["V".into(), "W".into()], template: Expr::Prim(18, vec![v("V"), Expr::Prim(16, vec![v("W"), v(b)])]) },
                };
                let call = if how == 2 { Expr::Call("tri".into(), vec![lit(3), lit(0)], None) } else { Expr::Call("tri".into(), vec![lit(3)], None) };
                let db = Helper::DefConst { name: b.into(), expr: lit(5) };
                let da = Helper::DefConst { name: a.into(), expr: call };
                let dc = Helper::DefConst { name: c.into(), expr: Expr::Prim(16, vec![v(a), lit(100)]) };
                let helpers = if order == 0 { vec![db, through, da, dc] } else { vec![dc, da, through, db] };
                let p = Program { args: Pat::list(vec![pv("P1")], Pat::Nil), helpers, body: Expr::Prim(16, vec![v("P1"), v(a), v(c)]) };
                out.push((p, vec![V::list(&[V::int(100)]), V::list(&[V::nil()])]));
            }
        }
    }
    out
}

pub fn gen_opts(profile: &str) -> GenOpts {
    match profile {
        "core" => GenOpts::core(),
        "classic" => GenOpts::classic(),
        "cse" => GenOpts::cse(),
        _ => GenOpts::full(),
    }
}

pub fn drive(args: &HashMap<String, String>) {
    use rand::SeedableRng;
    let n: usize = args.get("n").map(|s| s.parse().unwrap()).unwrap_or(100);
    let nenvs: usize = args.get("envs").map(|s| s.parse().unwrap()).unwrap_or(3);
    let trace = args.get("trace").expect("--trace");
    let cases = args.get("cases").expect("--cases");
    let outp = args.get("out").expect("--out");
    let profile = args.get("profile").map(|s| s.as_str()).unwrap_or("full");
    let builds: Vec<String> = args.get("builds").expect("--builds").split(',').map(|s| s.to_string()).collect();
    let seed = crate::util::seed_from_env() ^ args.get("salt").map(|s| crate::util::hash_str(s)).unwrap_or(0);
    let mut g = Gen::new(rand_chacha::ChaCha8Rng::seed_from_u64(seed), gen_opts(profile));
    let mut progs: Vec<(Program, Vec<V>)> = vec![];
    if profile == "ladder" {
        // ParamLadder (DESIGN 6.2): the k-th of n parameters, directly and through a helper taking the same list
        use crate::ast::{Expr, Helper, Pat};
        let sizes: Vec<usize> = if n >= 100 { vec![1, 2, 7, 8, 9, 15, 16, 17, 31, 32, 33, 40] } else { vec![2, 8, 17, 40] };
        for nn in sizes {
            let names: Vec<String> = (1..=nn).map(|i| format!("P{i}")).collect();
            let pat = Pat::list(names.iter().map(|x| Pat::Var(x.clone())).collect(), Pat::Nil);
            let env = V::list(&(1..=nn as i64).map(|i| V::int(1000 + i)).collect::<Vec<_>>());
            let env2 = V::list(&(1..=nn as i64).map(|i| V::list(&[V::int(i), V::int(-i)])).collect::<Vec<_>>());
            // (the longest list: every position, so that every path width up to 40 steps occurs)
            let ks: Vec<usize> = if n >= 100 || nn == 40 { (1..=nn).collect() } else { vec![1, (nn + 1) / 2, nn] };
            for k in ks {
                let direct = Program { args: pat.clone(), helpers: vec![], body: Expr::Var(format!("P{k}")) };
                let anames: Vec<String> = (1..=nn).map(|i| format!("A{i}")).collect();
                let apat = Pat::list(anames.iter().map(|x| Pat::Var(x.clone())).collect(), Pat::Nil);
                let helper = Program { args: pat.clone(),
                    helpers: vec![Helper::Defun { name: "pick".to_string(), pat: apat.clone(), body: Expr::List(vec![Expr::Var(format!("A{k}")), Expr::Var("A1".to_string())]), inline: false }],
                    body: Expr::Call("pick".to_string(), names.iter().map(|x| Expr::Var(x.clone())).collect(), None) };
                let inl = Program { args: pat.clone(),
                    helpers: vec![Helper::Defun { name: "pick".to_string(), pat: apat, body: Expr::Prim(4, vec![Expr::Var(format!("A{k}")), Expr::Var(format!("A{nn}"))]), inline: true }],
                    body: Expr::Call("pick".to_string(), names.iter().map(|x| Expr::Var(x.clone())).collect(), None) };
                for p in [direct, helper, inl] {
                    progs.push((p, vec![env.clone(), env2.clone()]));
                }
            }
        }
    }
    if profile == "ladder" {
        // ScopeLadder: every binder that re-binds an enclosing name (let, let*, lambda parameter) in every expression
        // position (argument / &rest tail of a function and of an inline function, binding, branch and condition of
        // an if, body of a function whose parameter has that name, lambda body, list element): renaming has to reach
        // each of them
        use crate::ast::{Expr, Helper, Pat};
        let v = |n: &str| Expr::Var(n.to_string());
        let plus1 = |e: Expr| Expr::Prim(16, vec![e, Expr::Lit(V::int(1))]);
        let body = || Expr::Prim(4, vec![v("X"), v("Y")]);
        let binders: Vec<Expr> = vec![
            Expr::Let(false, vec![("X".to_string(), plus1(v("X")))], Box::new(body())),
            Expr::Let(true, vec![("X".to_string(), plus1(v("X"))), ("X".to_string(), plus1(v("X")))], Box::new(body())),
            Expr::Apply(Box::new(Expr::Lambda(vec!["Y".to_string()], Pat::list(vec![Pat::Var("X".to_string())], Pat::Nil), Box::new(body()))),
                Box::new(Expr::List(vec![plus1(v("X"))]))),
            Expr::Let(false, vec![("X".to_string(), plus1(v("X")))], Box::new(Expr::Let(false, vec![("X".to_string(), plus1(v("X")))], Box::new(body())))),
        ];
        let fpat = Pat::list(vec![Pat::Var("A".to_string())], Pat::Var("R".to_string()));
        let helpers = vec![
            Helper::Defun { name: "fun1".to_string(), pat: fpat.clone(), body: Expr::Prim(4, vec![v("A"), v("R")]), inline: false },
            Helper::Defun { name: "inl2".to_string(), pat: fpat.clone(), body: Expr::Prim(4, vec![v("A"), v("R")]), inline: true },
        ];
        let args = Pat::list(vec![Pat::Var("X".to_string()), Pat::Var("Y".to_string())], Pat::Nil);
        let envs = vec![V::list(&[V::int(500), V::int(700)]), V::list(&[V::int(-3), V::list(&[V::int(1), V::int(2)])])];
        for e in binders {
            let contexts: Vec<(Vec<Helper>, Expr)> = vec![
                (vec![], e.clone()),
                (helpers.clone(), Expr::Call("fun1".to_string(), vec![e.clone(), v("Y")], None)),
                (helpers.clone(), Expr::Call("fun1".to_string(), vec![v("Y")], Some(Box::new(e.clone())))),
                (helpers.clone(), Expr::Call("inl2".to_string(), vec![e.clone(), v("Y")], None)),
                (helpers.clone(), Expr::Call("inl2".to_string(), vec![v("Y")], Some(Box::new(e.clone())))),
                (vec![], Expr::Let(false, vec![("Z".to_string(), e.clone())], Box::new(Expr::Prim(4, vec![v("Z"), v("X")])))),
                (vec![], Expr::If(Box::new(v("Y")), Box::new(e.clone()), Box::new(v("X")))),
                (vec![], Expr::If(Box::new(e.clone()), Box::new(v("X")), Box::new(v("Y")))),
                (vec![Helper::Defun { name: "fun3".to_string(), pat: Pat::list(vec![Pat::Var("X".to_string()), Pat::Var("Y".to_string())], Pat::Nil), body: e.clone(), inline: false }],
                    Expr::Call("fun3".to_string(), vec![v("Y"), v("X")], None)),
                (vec![Helper::Defun { name: "inl4".to_string(), pat: Pat::list(vec![Pat::Var("X".to_string()), Pat::Var("Y".to_string())], Pat::Nil), body: e.clone(), inline: true }],
                    Expr::Call("inl4".to_string(), vec![v("Y"), v("X")], None)),
                (vec![], Expr::Apply(Box::new(Expr::Lambda(vec!["X".to_string(), "Y".to_string()], Pat::list(vec![Pat::Var("Q".to_string())], Pat::Nil), Box::new(e.clone()))), Box::new(Expr::List(vec![v("Y")])))),
                (vec![], Expr::List(vec![v("X"), e.clone(), v("X")])),
            ];
            for (hs, b) in contexts {
                progs.push((Program { args: args.clone(), helpers: hs, body: b }, envs.clone()));
            }
        }
    }
    if profile == "ladder" {
        // DestructureLadder: every name of every small destructuring shape, for a function and for an inline function,
        // the argument being a parameter of the program (one shape at the first and one at the second position)
        use crate::ast::{Expr, Helper, Pat};
        let pv = |n: &str| Pat::Var(n.to_string());
        let shapes: Vec<(Pat, Vec<&str>)> = vec![
            (Pat::list(vec![pv("A"), pv("B"), pv("C")], Pat::Nil), vec!["A", "B", "C"]),
            (Pat::list(vec![Pat::list(vec![pv("A"), pv("B")], Pat::Nil), pv("C")], Pat::Nil), vec!["A", "B", "C"]),
            (Pat::list(vec![pv("A"), pv("B")], pv("C")), vec!["A", "B", "C"]),
            (Pat::list(vec![pv("A"), Pat::list(vec![pv("B"), pv("C")], Pat::Nil)], Pat::Nil), vec!["A", "B", "C"]),
            (Pat::Cons(Box::new(Pat::Cons(Box::new(pv("A")), Box::new(pv("B")))), Box::new(pv("C"))), vec!["A", "B", "C"]),
            (Pat::list(vec![Pat::list(vec![pv("A"), pv("B"), pv("C")], Pat::Nil), pv("D")], Pat::Nil), vec!["A", "B", "C", "D"]),
            (Pat::list(vec![pv("A"), Pat::list(vec![pv("B"), pv("C"), pv("D")], Pat::Nil)], Pat::Nil), vec!["A", "B", "C", "D"]),
            (Pat::list(vec![pv("A"), pv("B"), pv("C"), pv("D")], pv("E")), vec!["A", "B", "C", "D", "E"]),
        ];
        fn witness(p: &Pat, k: &mut i64) -> V {
            match p {
                Pat::Nil => V::nil(),
                Pat::Var(_) | Pat::At(_, _) => {
                    *k += 1001;
                    V::int(*k)
                }
                Pat::Cons(a, b) => {
                    let l = witness(a, k);
                    let r = witness(b, k);
                    V::cons(l, r)
                }
            }
        }
        for (shape, names) in shapes {
            for second in [false, true] {
                // (proper lists only: a classic inline function is a macro, its dotted tail receives argument *forms*)
                let fpat = if second { Pat::list(vec![pv("X"), shape.clone()], Pat::Nil) } else { Pat::list(vec![shape.clone(), pv("X")], Pat::Nil) };
                let mut k = 0;
                let arg = witness(&shape, &mut k);
                let envs = vec![V::list(&[arg.clone(), V::int(77)]), V::list(&[V::int(5), V::int(6)])];
                for name in names.iter() {
                    for inline in [false, true] {
                        let call_args = if second { vec![Expr::Var("Q".into()), Expr::Var("P".into())] } else { vec![Expr::Var("P".into()), Expr::Var("Q".into())] };
                        let p = Program { args: Pat::list(vec![pv("P"), pv("Q")], Pat::Nil),
                            helpers: vec![Helper::Defun { name: "pick".into(), pat: fpat.clone(), body: Expr::List(vec![Expr::Var(name.to_string()), Expr::Var("X".into())]), inline }],
                            body: Expr::Call("pick".into(), call_args, None) };
                        progs.push((p, envs.clone()));
                    }
                }
            }
        }
    }
    if profile == "ladder" {
        progs.extend(use_ladder(false));
        progs.extend(rest_and_assign_ladders());
        progs.extend(lambda_value_ladder());
        progs.extend(rec_ladder(false));
        progs.extend(at_ladder());
        progs.extend(const_ladder());
        progs.extend(mod_ladder());
        progs.extend(name_ladder());
        progs.extend(defconst_ladder());
        // (TLC's JSON reader stops at 255 levels of nesting: two per addition)
        progs.extend(depth_ladder(n >= 100).into_iter().filter(|(p, _)| crate::util::json_depth(&p.to_json()) < 240));
    }
    for i in 0..(if profile == "ladder" { 0 } else { n }) {
        // alternate small / full programs
        g.o = if i % 3 == 0 { let mut o = gen_opts(profile); o.depth = 2; o.max_helpers = 2; o } else { gen_opts(profile) };
        let p = g.program();
        let envs = g.args_for(&p, nenvs);
        progs.push((p, envs));
    }
    let mut jobs = vec![];
    let mut owner = vec![];
    for (pi, (p, envs)) in progs.iter().enumerate() {
        for (b, j) in build_jobs(p, envs, &builds) {
            jobs.push(j);
            owner.push((pi, b));
        }
    }
    // (a compilation that exceeds the limit is recorded as "slow" and not judged, so it is not confirmed with a longer one:
    //  nested inline calls make a few generated programs take minutes under every build)
    let cfg = PoolCfg { batch: 1, timeout: Duration::from_secs(15), ..PoolCfg::default() };
    let results = crate::pool::run_jobs_unconfirmed(jobs, &cfg);
    let mut per: Vec<serde_json::Map<String, Value>> = progs.iter().map(|_| serde_json::Map::new()).collect();
    let mut raw: Vec<serde_json::Map<String, Value>> = progs.iter().map(|_| serde_json::Map::new()).collect();
    let mut rep = Report::default();
    for ((pi, b), r) in owner.iter().zip(results.iter()) {
        per[*pi].insert(b.clone(), outcome_json(r, progs[*pi].1.len()));
        let brief = if let Some(e) = r.get("err") { json!({"comperr": e["msg"]}) } else if r.get("runs").is_some() { json!({"runs": r["runs"]}) } else { r.clone() };
        raw[*pi].insert(b.clone(), brief);
        rep.count(&format!("build_{}", if r.get("err").is_some() { "comperr" } else if r.get("runs").is_some() { "compiled" } else { "abort_or_slow" }));
    }
    let mut tf = std::io::BufWriter::new(std::fs::File::create(trace).expect("trace"));
    let mut cf = std::io::BufWriter::new(std::fs::File::create(cases).expect("cases"));
    for (pi, (p, envs)) in progs.iter().enumerate() {
        rep.evaluations += 1;
        if per[pi].is_empty() {
            continue;
        }
        rep.traces += 1;
        writeln!(tf, "{}", json!({"ast": p.to_json(), "envs": envs.iter().map(|e| e.to_json()).collect::<Vec<_>>(), "obs": per[pi],
            "zero_leading": features(p).zero_leading_literal})).unwrap();
        writeln!(cf, "{}", json!({"source": p.render("*SIGIL*"), "envs": envs.iter().map(|e| e.show()).collect::<Vec<_>>(), "obs": raw[pi],
            "features": format!("{:?}", features(p)), "ast": p.to_json(), "envs_json": envs.iter().map(|e| e.to_json()).collect::<Vec<_>>()})).unwrap();
        if rep.samples.len() < 3 {
            rep.sample(json!({"source": p.render("*standard-cl-23*"), "envs": envs.iter().map(|e| e.show()).collect::<Vec<_>>(), "obs": raw[pi]}));
        }
    }
    rep.write(outp);
}

/// generated programs as source text, for other checks (C11)
pub fn gen_programs(args: &HashMap<String, String>) {
    use rand::SeedableRng;
    let n: usize = args.get("n").map(|s| s.parse().unwrap()).unwrap_or(50);
    let outp = args.get("out").expect("--out");
    let seed = crate::util::seed_from_env() ^ 0xC11;
    let mut g = Gen::new(rand_chacha::ChaCha8Rng::seed_from_u64(seed), GenOpts::full());
    let mut f = std::io::BufWriter::new(std::fs::File::create(outp).expect("out"));
    let builds = ["classic", "cl21", "cl22", "cl23", "cl231", "cl24"];
    for i in 0..n {
        g.o = if i % 4 == 0 { GenOpts::classic() } else if i % 4 == 1 { GenOpts::core() } else { GenOpts::full() };
        let p = g.program();
        let b = builds[i % builds.len()];
        let b = if renderable(&p, b) { b } else { "cl23" };
        if !renderable(&p, b) {
            continue;
        }
        writeln!(f, "{}", json!({"name": format!("gen{i}:{b}"), "text": p.render(sigil_of(b))})).unwrap();
    }
    // ladder programs (names that are also operator names, nested programs, code-like constants): one dialect each, by turns
    for (k, (p, _)) in name_ladder().into_iter().chain(mod_ladder()).chain(const_ladder()).enumerate() {
        if k % 3 != 0 && n < 1000 {
            continue;
        }
        let b = ["cl21", "cl23", "cl22", "cl24"][k % 4];
        if renderable(&p, b) {
            writeln!(f, "{}", json!({"name": format!("ladder{k}:{b}"), "text": p.render(sigil_of(b))})).unwrap();
        }
    }
}

/// replay: one recorded program (AST JSON is kept verbatim for the trace; the source text is re-rendered from it)
pub fn replay(args: &HashMap<String, String>) {
    let input = args.get("in").expect("--in");
    let trace = args.get("trace").expect("--trace");
    let cases = args.get("cases").expect("--cases");
    let v: Value = crate::util::parse_json(&std::fs::read_to_string(input).unwrap()).unwrap();
    let p = program_from_json(&v["ast"]);
    let envs: Vec<V> = v["envs"].as_array().unwrap().iter().map(|e| V::from_json(e).unwrap()).collect();
    let builds: Vec<String> = v["builds"].as_array().unwrap().iter().map(|b| b.as_str().unwrap().to_string()).collect();
    let jobs = build_jobs(&p, &envs, &builds);
    let cfg = PoolCfg { batch: 1, timeout: Duration::from_secs(30), ..PoolCfg::default() };
    let results = run_jobs(jobs.iter().map(|(_, j)| j.clone()).collect(), &cfg);
    let mut per = serde_json::Map::new();
    let mut raw = serde_json::Map::new();
    for ((b, _), r) in jobs.iter().zip(results.iter()) {
        per.insert(b.clone(), outcome_json(r, envs.len()));
        raw.insert(b.clone(), if let Some(e) = r.get("err") { json!({"comperr": e["msg"]}) } else if r.get("runs").is_some() { json!({"runs": r["runs"]}) } else { r.clone() });
    }
    std::fs::write(trace, format!("{}\n", json!({"ast": p.to_json(), "envs": envs.iter().map(|e| e.to_json()).collect::<Vec<_>>(), "obs": per,
        "zero_leading": features(&p).zero_leading_literal}))).unwrap();
    std::fs::write(cases, format!("{}\n", json!({"source": p.render("*SIGIL*"), "envs": envs.iter().map(|e| e.show()).collect::<Vec<_>>(), "obs": raw,
        "features": format!("{:?}", features(&p)), "ast": p.to_json(), "envs_json": envs.iter().map(|e| e.to_json()).collect::<Vec<_>>()}))).unwrap();
}

// ---- AST from JSON (only for replay files written by this harness)
use crate::ast::{Expr, Helper, Pat};
fn pat_from_json(j: &Value) -> Pat {
    match j[0].as_str().unwrap() {
        "pn" => Pat::Nil,
        "pv" => Pat::Var(j[1].as_str().unwrap().to_string()),
        "pc" => Pat::Cons(Box::new(pat_from_json(&j[1])), Box::new(pat_from_json(&j[2]))),
        "pat" => Pat::At(j[1].as_str().unwrap().to_string(), Box::new(pat_from_json(&j[2]))),
        o => panic!("bad pat {o}"),
    }
}
fn exprs(j: &Value) -> Vec<Expr> {
    j.as_array().unwrap().iter().map(expr_from_json).collect()
}
fn expr_from_json(j: &Value) -> Expr {
    let s = |v: &Value| v.as_str().unwrap().to_string();
    match j[0].as_str().unwrap() {
        "lit" => Expr::Lit(V::from_json(&j[1]).unwrap()),
        "var" => Expr::Var(s(&j[1])),
        "prim" => Expr::Prim(j[1].as_u64().unwrap() as u8, exprs(&j[2])),
        "call" => Expr::Call(s(&j[1]), exprs(&j[2]), if j[3][0] == "none" { None } else { Some(Box::new(expr_from_json(&j[3]))) }),
        "if" => Expr::If(Box::new(expr_from_json(&j[1])), Box::new(expr_from_json(&j[2])), Box::new(expr_from_json(&j[3]))),
        "list" => Expr::List(exprs(&j[1])),
        "let" => Expr::Let(j[1] == "seq", j[2].as_array().unwrap().iter().map(|b| (s(&b[0]), expr_from_json(&b[1]))).collect(), Box::new(expr_from_json(&j[3]))),
        "assign" => Expr::Assign(j[1].as_array().unwrap().iter().map(|b| (pat_from_json(&b[0]), expr_from_json(&b[1]))).collect(), Box::new(expr_from_json(&j[2]))),
        "lambda" => Expr::Lambda(j[1].as_array().unwrap().iter().map(s).collect(), pat_from_json(&j[2]), Box::new(expr_from_json(&j[3]))),
        "apply" => Expr::Apply(Box::new(expr_from_json(&j[1])), Box::new(expr_from_json(&j[2]))),
        "mod" => Expr::Mod(Box::new(program_from_json(&j[1]))),
        o => panic!("bad expr {o}"),
    }
}
pub fn program_from_json(j: &Value) -> Program {
    let s = |v: &Value| v.as_str().unwrap().to_string();
    let helpers = j["helpers"].as_array().unwrap().iter().map(|h| match h[0].as_str().unwrap() {
        "defun" => Helper::Defun { name: s(&h[1]), pat: pat_from_json(&h[2]), body: expr_from_json(&h[3]), inline: h[4].as_bool().unwrap() },
        "defconstant" => Helper::DefConstant { name: s(&h[1]), value: V::from_json(&h[2]).unwrap() },
        "defconst" => Helper::DefConst { name: s(&h[1]), expr: expr_from_json(&h[2]) },
        "defmacro" => Helper::DefMacro { name: s(&h[1]), params: h[2].as_array().unwrap().iter().map(s).collect(), template: expr_from_json(&h[3]) },
        o => panic!("bad helper {o}"),
    }).collect();
    Program { args: pat_from_json(&j["args"]), helpers, body: expr_from_json(&j["body"]) }
}

/// C02 on the shipped programs: optimisation off/on through the library entry point, run on a few generic
/// argument trees.  Their macros are outside Chialisp.tla, so the trace carries an AST whose meaning is
/// out of model (a lone sha256) and only the differential clauses are evaluated.
pub fn drive_shipped(args: &HashMap<String, String>) {
    let trace = args.get("trace").expect("--trace");
    let cases = args.get("cases").expect("--cases");
    let outp = args.get("out").expect("--out");
    let envs: Vec<V> = vec![
        V::nil(),
        V::list(&[V::int(1), V::int(2), V::int(3), V::int(4), V::int(5), V::int(6)]),
        V::list(&[V::list(&[V::int(1), V::int(2)]), V::list(&[V::int(3), V::int(4), V::int(5)]), V::int(7), V::list(&[V::list(&[V::int(9)])])]),
        V::list(&[V::A(vec![0x11; 32]), V::int(100), V::list(&[V::int(51), V::A(vec![0x22; 32]), V::int(1000)]), V::int(0)]),
        V::list(&[V::list(&[V::int(3), V::int(1), V::int(2)]), V::list(&[V::int(9), V::int(8)])]),
    ];
    let mut jobs = vec![];
    let mut owner = vec![];
    for rel in crate::corpus::SHIPPED {
        if let Some((path, text, search)) = crate::corpus::load(rel) {
            let stepping = if text.contains("*standard-cl-23.1*") || text.contains("*standard-cl-24*") { "cl231" } else if text.contains("*standard-cl-23*") { "cl23" }
                else if text.contains("*standard-cl-22*") { "cl22" } else if text.contains("cl-21*") { "cl21" } else { "classic" };
            for opt in [false, true] {
                jobs.push(json!({"op": "compile", "text": text, "file": path, "search": search, "optimize": opt, "envs": envs.iter().map(|e| e.to_json()).collect::<Vec<_>>()}));
                owner.push((rel.to_string(), format!("{}{}", stepping, if opt { "+O" } else { "" })));
            }
        }
    }
    let cfg = PoolCfg { batch: 1, timeout: Duration::from_secs(60), ..PoolCfg::default() };
    let results = run_jobs(jobs, &cfg);
    let mut rep = Report::default();
    let mut tf = std::io::BufWriter::new(std::fs::File::create(trace).expect("trace"));
    let mut cf = std::io::BufWriter::new(std::fs::File::create(cases).expect("cases"));
    let opaque = json!({"args": ["pv", "ARGS"], "helpers": [], "body": ["prim", 11, []]});
    let mut i = 0;
    while i + 1 < owner.len() {
        let (rel, b0) = &owner[i];
        let (_, b1) = &owner[i + 1];
        let mut per = serde_json::Map::new();
        let mut raw = serde_json::Map::new();
        for (b, r) in [(b0, &results[i]), (b1, &results[i + 1])] {
            per.insert(b.clone(), outcome_json(r, envs.len()));
            raw.insert(b.clone(), if let Some(e) = r.get("err") { json!({"comperr": e["msg"]}) } else if r.get("runs").is_some() { json!({"runs": r["runs"]}) } else { r.clone() });
        }
        rep.evaluations += 1;
        rep.traces += 1;
        if results[i].get("runs").map(|r| r.as_array().unwrap().iter().any(|o| o[0] == "ok")).unwrap_or(false) {
            rep.nontrivial(rel);
        }
        writeln!(tf, "{}", json!({"ast": opaque, "envs": envs.iter().map(|e| e.to_json()).collect::<Vec<_>>(), "obs": per, "zero_leading": false})).unwrap();
        writeln!(cf, "{}", json!({"source": format!("shipped:{rel}"), "envs": envs.iter().map(|e| e.show()).collect::<Vec<_>>(), "obs": raw,
            "features": "Features { shipped: true }", "ast": opaque, "envs_json": envs.iter().map(|e| e.to_json()).collect::<Vec<_>>()})).unwrap();
        i += 2;
    }
    rep.write(outp);
}

/// R direction for C01-C03: programs enumerated by TLC (MC_ChialispGen) with the outcome Chialisp.tla predicts for each
/// argument tree are compiled under each build and run; the property is evaluated against the prediction.
pub fn replay_chialisp(args: &HashMap<String, String>) {
    let input = args.get("in").expect("--in");
    let outp = args.get("out").expect("--out");
    let prop = args.get("prop").map(|s| s.as_str()).unwrap_or("C01").to_string();
    let builds: Vec<String> = args.get("builds").expect("--builds").split(',').map(|s| s.to_string()).collect();
    let vectors = crate::util::read_tlc_vectors(input, "V");
    let mut jobs = vec![];
    let mut owner = vec![];
    let mut progs = vec![];
    for (vi, v) in vectors.iter().enumerate() {
        let p = program_from_json(&v["ast"]);
        let envs: Vec<V> = v["envs"].as_array().unwrap().iter().map(|e| V::from_json(e).unwrap()).collect();
        for (b, j) in build_jobs(&p, &envs, &builds) {
            jobs.push(j);
            owner.push((vi, b));
        }
        progs.push((p, envs));
    }
    let cfg = PoolCfg { batch: 8, timeout: Duration::from_secs(15), ..PoolCfg::default() };
    let results = run_jobs(jobs, &cfg);
    let mut rep = Report::default();
    let mut per: Vec<HashMap<String, Value>> = vectors.iter().map(|_| HashMap::new()).collect();
    for ((vi, b), r) in owner.iter().zip(results.iter()) {
        per[*vi].insert(b.clone(), r.clone());
    }
    for (vi, v) in vectors.iter().enumerate() {
        rep.evaluations += 1;
        let (p, envs) = &progs[vi];
        let res = v["res"].as_array().unwrap();
        let feats = features(p);
        let case = || json!({"source": p.render("*SIGIL*"), "envs": envs.iter().map(|e| e.show()).collect::<Vec<_>>(), "features": format!("{:?}", feats),
            "ast": p.to_json(), "envs_json": envs.iter().map(|e| e.to_json()).collect::<Vec<_>>()});
        if res.iter().any(|o| o[0] == "ok") {
            rep.nontrivial(&v["ast"].to_string());
        }
        for (b, r) in per[vi].iter() {
            let obs = outcome_json(r, envs.len());
            let raw = if let Some(e) = r.get("err") { json!({"comperr": e["msg"]}) } else { r.get("runs").cloned().unwrap_or(r.clone()) };
            for (i, want) in res.iter().enumerate() {
                if want[0] != "ok" {
                    continue;
                }
                rep.count("compared");
                let got = &obs[i];
                let ran = got[0] == "ok" || got[0] == "err" || got[0] == "fuel";
                if ran && got != want {
                    rep.violation(json!({"property": prop, "kind": "build-differs-from-source-meaning", "builds": [b], "env_index": i + 1, "expected": want,
                        "observed": {b.as_str(): raw}, "case": case()}));
                    break;
                }
            }
            // C02 (c): with the optimised counterpart present, a value-returning unoptimised build implies a value-returning optimised one
            if let Some(o) = per[vi].get(&format!("{b}+O")) {
                if v["staticfail"] != true {
                    let oo = outcome_json(o, envs.len());
                    for i in 0..envs.len() {
                        if obs[i][0] == "ok" && (oo[i][0] == "err" || oo[i][0] == "comperr" || oo[i][0] == "abort") {
                            rep.violation(json!({"property": prop, "kind": "optimisation-makes-program-fail", "builds": [b, format!("{b}+O")], "env_index": i + 1,
                                "observed": {b.as_str(): raw.clone(), format!("{b}+O"): o.get("runs").cloned().unwrap_or(o.clone())}, "case": case()}));
                            break;
                        }
                    }
                }
            }
        }
        if rep.samples.len() < 3 && res.iter().any(|o| o[0] == "ok") {
            rep.sample(json!({"source": p.render("*standard-cl-21*"), "envs": envs.iter().map(|e| e.show()).collect::<Vec<_>>(), "predicted": v["res"]}));
        }
    }
    rep.traces = rep.evaluations;
    rep.write(outp);
}

// ---------------------------------------------------------------- CseGuards.tla vectors (C02)
fn cse_tree_to_expr(t: &Value) -> crate::ast::Expr {
    use crate::ast::Expr;
    let v = |n: &str| Expr::Var(n.to_string());
    match t[0].as_str().unwrap() {
        // the repeated subexpression: fails when X is an atom, a 32-byte hash otherwise
        "E" => Expr::Prim(11, vec![Expr::Prim(5, vec![Expr::Prim(5, vec![v("X")])]), Expr::Lit(V::int(1))]),
        "K" => Expr::Lit(V::int(101)),
        "g" => v(&format!("G{}", t[1].as_i64().unwrap())),
        "if" => Expr::If(Box::new(cse_tree_to_expr(&t[1])), Box::new(cse_tree_to_expr(&t[2])), Box::new(cse_tree_to_expr(&t[3]))),
        other => panic!("unknown tree node {other}"),
    }
}

/// spec -> impl: every tree of CseGuards.tla with two or more instances of the repeated subexpression becomes the body
/// of a function; each build is run on the eight (guard, guard, failing?) rows and must return what the model's source
/// meaning returns whenever that is a value
pub fn replay_cse(args: &HashMap<String, String>) {
    use crate::ast::{Expr, Helper, Pat};
    let input = args.get("in").expect("--in");
    let outp = args.get("out").expect("--out");
    let builds: Vec<String> = args.get("builds").expect("--builds").split(',').map(|s| s.to_string()).collect();
    let take: usize = args.get("take").map(|s| s.parse().unwrap()).unwrap_or(usize::MAX);
    let prop = args.get("prop").cloned().unwrap_or_else(|| "C02".to_string());
    let mut vectors = crate::util::read_tlc_vectors(input, "V");
    if vectors.len() > take {
        let step = vectors.len() / take;
        vectors = vectors.into_iter().step_by(step.max(1)).take(take).collect();
    }
    let pat = Pat::list(vec![Pat::Var("G1".into()), Pat::Var("G2".into()), Pat::Var("X".into())], Pat::Nil);
    let good_x = V::list(&[V::cons(V::int(7), V::int(8))]);
    let bad_x = V::int(5);
    let e_val = match crate::val::consensus_run(&V::list(&[V::A(vec![11]), V::list(&[V::A(vec![5]), V::list(&[V::A(vec![5]), V::A(vec![2])])]), V::cons(V::A(vec![1]), V::int(1))]), &V::list(&[good_x.clone()]), crate::val::CONS_MAX_COST) {
        crate::val::Outcome::Ok(v) => v,
        o => panic!("cannot evaluate the repeated subexpression: {:?}", o.to_json()),
    };
    let mut jobs = vec![];
    let mut owner = vec![];
    let mut progs = vec![];
    for (vi, v) in vectors.iter().enumerate() {
        let body = cse_tree_to_expr(&v["tree"]);
        let p = Program { args: pat.clone(),
            helpers: vec![Helper::Defun { name: "fun1".into(), pat: pat.clone(), body, inline: false }],
            body: Expr::Call("fun1".into(), vec![Expr::Var("G1".into()), Expr::Var("G2".into()), Expr::Var("X".into())], None) };
        let envs: Vec<V> = v["rows"].as_array().unwrap().iter().map(|r| {
            let g = |b: &Value| if b.as_bool().unwrap() { V::int(1) } else { V::nil() };
            V::list(&[g(&r["g1"]), g(&r["g2"]), if r["efail"].as_bool().unwrap() { bad_x.clone() } else { good_x.clone() }])
        }).collect();
        for (b, j) in build_jobs(&p, &envs, &builds) {
            jobs.push(j);
            owner.push((vi, b));
        }
        progs.push((p, envs));
    }
    let results = run_jobs(jobs, &PoolCfg { batch: 8, timeout: Duration::from_secs(15), ..PoolCfg::default() });
    let mut rep = Report::default();
    for ((vi, b), r) in owner.iter().zip(results.iter()) {
        let v = &vectors[*vi];
        let (p, envs) = &progs[*vi];
        rep.evaluations += 1;
        if v["saturated"] == true {
            rep.count("saturated_trees_x_builds");
        }
        let obs = outcome_json(r, envs.len());
        for (i, row) in v["rows"].as_array().unwrap().iter().enumerate() {
            let want = match row["out"].as_str().unwrap() {
                "fail" => continue,
                "E" => e_val.clone(),
                "K" => V::int(101),
                "t" => V::int(1),
                "n" => V::nil(),
                other => panic!("unknown outcome {other}"),
            };
            rep.count("rows_compared");
            rep.nontrivial(&format!("{}|{}", v["tree"], i));
            let got = &obs[i];
            if *got != json!(["ok", want.to_json()]) && got[0] != "slow" {
                rep.violation(json!({"property": prop, "kind": "cse-guard-replay", "builds": [b], "env_index": i + 1, "expected": ["ok", want.to_json()],
                    "observed": {b.as_str(): r.get("runs").cloned().unwrap_or(r.clone())}, "tree": v["tree"], "model_says_hoistable": v["saturated"],
                    "case": {"source": p.render("*SIGIL*"), "envs": envs.iter().map(|e| e.show()).collect::<Vec<_>>(), "features": format!("{:?}", features(p)),
                        "ast": p.to_json(), "envs_json": envs.iter().map(|e| e.to_json()).collect::<Vec<_>>()}}));
                break;
            }
        }
    }
    rep.traces = vectors.len() as u64;
    rep.write(outp);
}
