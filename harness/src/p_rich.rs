// C07: replay of TLC-enumerated atoms (conversion, hashes) and spelling pairs (equality), and a
// random driver over longer atoms and trees, traced for Trace_Rich.tla.
use crate::pool::{run_jobs, PoolCfg};
use crate::util::{read_tlc_vectors, Report};
use crate::val::V;
use serde_json::{json, Value};
use std::collections::{HashMap, HashSet};
use std::io::Write;
use std::time::Duration;

fn decide_convert(rep: &mut Report, v: &V, fixed: bool, r: &Value, ctx: &str) {
    if r.get("rich").is_none() {
        rep.violation(json!({"property": "C07", "kind": "convert-crash", "value": v.to_json(), "fixed": fixed, "observed": r, "context": ctx}));
        return;
    }
    if r["back_same"] != true {
        rep.violation(json!({"property": "C07", "kind": "roundtrip-differs", "value": v.to_json(), "fixed": fixed,
            "rich": r["rich"], "back": r["back"], "context": ctx}));
    }
    let hs = [&r["h_rich"], &r["h_classic"], &r["h_clvmr"]];
    if !(hs[0] == hs[1] && hs[1] == hs[2]) {
        rep.violation(json!({"property": "C07", "kind": "hashes-differ", "value": v.to_json(), "fixed": fixed,
            "h_rich": r["h_rich"], "h_classic": r["h_classic"], "h_clvmr": r["h_clvmr"], "context": ctx}));
    }
    if r["h_ref"] != r["h_clvmr"] {
        rep.spec_error(json!({"what": "harness reference tree hash differs from clvmr", "value": v.to_json()}));
    }
}

pub fn replay(args: &HashMap<String, String>) {
    let outp = args.get("out").expect("--out");
    let mut rep = Report::default();
    if let Some(input) = args.get("in") {
        let vectors = read_tlc_vectors(input, "V");
        // each atom alone, in head position of a list and as the tail of an improper pair
        let mut jobs = vec![];
        let mut meta = vec![];
        for v in &vectors {
            let atom = V::A(v["atom"].as_array().unwrap().iter().map(|b| b.as_u64().unwrap() as u8).collect());
            let fixed = v["fixed"].as_bool().unwrap();
            for (k, val) in [("alone", atom.clone()), ("head", V::list(&[atom.clone(), V::A(vec![1])])), ("tail", V::cons(V::A(vec![2]), atom.clone()))] {
                jobs.push(json!({"op": "rich", "value": val.to_json(), "fixed": fixed}));
                meta.push((val, fixed, k, v.clone()));
            }
        }
        let cfg = PoolCfg { batch: 128, timeout: Duration::from_secs(20), ..PoolCfg::default() };
        let results = run_jobs(jobs, &cfg);
        for ((val, fixed, k, vec), r) in meta.iter().zip(results.iter()) {
            rep.evaluations += 1;
            decide_convert(&mut rep, val, *fixed, r, k);
            if *k == "alone" {
                rep.nontrivial(&format!("{}|{}", vec["atom"], fixed));
                if r.get("rich").is_some() && r["rich"] != vec["rich"] {
                    rep.drift(json!({"atom": vec["atom"], "fixed": fixed, "model": vec["rich"], "impl": r["rich"]}));
                }
                if rep.samples.len() < 3 && vec["atom"].as_array().unwrap().len() == 2 {
                    rep.sample(json!({"atom": vec["atom"], "fixed": fixed, "observed": r}));
                }
            }
        }
    }
    if let Some(pairs) = args.get("pairs") {
        let ws = read_tlc_vectors(pairs, "W");
        let mut seen = HashSet::new();
        let ws: Vec<Value> = ws.into_iter().filter(|w| seen.insert(w.to_string())).collect();
        let jobs: Vec<Value> = ws.iter().map(|w| json!({"op": "rich", "x": w["x"], "y": w["y"]})).collect();
        let cfg = PoolCfg { batch: 128, timeout: Duration::from_secs(20), ..PoolCfg::default() };
        let results = run_jobs(jobs, &cfg);
        for (w, r) in ws.iter().zip(results.iter()) {
            rep.evaluations += 1;
            rep.nontrivial(&w.to_string());
            if r.get("eq").is_none() {
                rep.violation(json!({"property": "C07", "kind": "equality-crash", "pair": w, "observed": r}));
                continue;
            }
            // the statement: compare (and hash) equal exactly when the encodings are byte-identical
            if r["eq"] != r["enc_eq"] {
                rep.violation(json!({"property": "C07", "kind": "equality-vs-encoding", "x": w["x"], "y": w["y"], "observed": r}));
            }
            if r["eq"] == true && r["hash_eq"] != true {
                rep.violation(json!({"property": "C07", "kind": "equal-values-hash-differently", "x": w["x"], "y": w["y"], "observed": r}));
            }
            if r["eq"] != w["eq"] {
                rep.drift(json!({"pair": w, "impl_eq": r["eq"]}));
            }
        }
    }
    rep.traces = rep.evaluations;
    rep.write(outp);
}

pub fn drive(args: &HashMap<String, String>) {
    use crate::gen_clvm::ClvmGen;
    use rand::{Rng, SeedableRng};
    let n: usize = args.get("n").map(|s| s.parse().unwrap()).unwrap_or(500);
    let trace = args.get("trace").expect("--trace");
    let outp = args.get("out").expect("--out");
    let seed = crate::util::seed_from_env();
    let mut g = ClvmGen { rng: rand_chacha::ChaCha8Rng::seed_from_u64(seed ^ 0xC07), opzoo: false };
    let mut vals: Vec<V> = vec![];
    for i in 0..n {
        let len = match i % 8 { 0 => 3, 1 => 4, 2 => 8, 3 => 32, 4 => 33, 5 => g.rng.random_range(5..20), 6 => 1500, _ => g.rng.random_range(3..7) };
        let mut b: Vec<u8> = (0..len).map(|_| g.rng.random::<u8>()).collect();
        match i % 5 {
            0 => b[0] = 0,                                            // zero-prefixed
            1 => { b[0] = 0xff; if len > 1 { b[1] |= 0x80; } }        // sign-extended
            2 => for x in b.iter_mut() { *x = 32 + (*x % 95); },      // printable, incl. quotes and backslash
            3 => { for x in b.iter_mut() { *x = b'a' + (*x % 26); } b[len / 2] = [b'"', b'\\', b'\'', b' '][i % 4]; }
            _ => {}
        }
        vals.push(V::A(b.clone()));
        if i % 3 == 0 {
            vals.push(V::list(&[V::A(b.clone()), g.value(2), V::A(b)]));
        }
    }
    for i in 0..n / 2 {
        vals.push(g.value(1 + i % 5));
    }
    let mut jobs = vec![];
    for v in &vals {
        for fixed in [true, false] {
            jobs.push(json!({"op": "rich", "value": v.to_json(), "fixed": fixed}));
        }
    }
    let cfg = PoolCfg { batch: 64, timeout: Duration::from_secs(20), ..PoolCfg::default() };
    let results = run_jobs(jobs, &cfg);
    let mut rep = Report::default();
    let mut f = std::io::BufWriter::new(std::fs::File::create(trace).expect("trace"));
    let mut k = 0;
    // ids are per distinct value, so that the trace spec can state "the hash is a function of the value and injective"
    let mut ids: HashMap<V, usize> = HashMap::new();
    for (vi0, v) in vals.iter().enumerate() {
        let next = ids.len();
        let vi = *ids.entry(v.clone()).or_insert(next);
        let _ = vi0;
        for fixed in [true, false] {
            let r = &results[k];
            k += 1;
            rep.evaluations += 1;
            rep.nontrivial(&format!("{}|{}", v.to_json(), fixed));
            decide_convert(&mut rep, v, fixed, r, "random");
            if r.get("rich").is_some() {
                // the trace gives each value an id; hashes are opaque strings for TLC (uninterpreted H)
                let small = v.size() < 30 && v.to_json().to_string().len() < 1500;
                writeln!(f, "{}", json!({"id": vi, "fixed": fixed, "small": small,
                    "value": if small { v.to_json() } else { json!(["a", []]) },
                    "rich": if small { r["rich"].clone() } else { json!(["nil"]) },
                    "back_same": r["back_same"], "h_rich": r["h_rich"], "h_classic": r["h_classic"], "h_clvmr": r["h_clvmr"]})).unwrap();
                rep.traces += 1;
            }
            if rep.samples.len() < 4 && vi % 97 == 3 {
                rep.sample(json!({"value_text": v.show().chars().take(120).collect::<String>(), "fixed": fixed, "observed": {"rich": r["rich"], "h_rich": r["h_rich"], "h_clvmr": r["h_clvmr"]}}));
            }
        }
    }
    rep.write(outp);
}
