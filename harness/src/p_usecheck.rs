// C17: an argument reported as unused cannot influence the result.
use crate::ast::{Pat, Program};
use crate::gen::{Gen, GenOpts};
use crate::pool::{run_jobs, PoolCfg};
use crate::util::Report;
use crate::val::V;
use serde_json::{json, Value};
use std::collections::{BTreeMap, HashMap};
use std::io::Write;
use std::time::Duration;

pub fn op_usecheck(job: &Value) -> Value {
    use chialisp::classic::clvm_tools::debug::check_unused;
    use chialisp::compiler::compiler::DefaultCompilerOpts;
    use chialisp::compiler::comptypes::CompilerOpts;
    use std::rc::Rc;
    let text = job["text"].as_str().unwrap();
    let search: Vec<String> = job.get("search").and_then(|s| s.as_array()).map(|a| a.iter().map(|x| x.as_str().unwrap().to_string()).collect()).unwrap_or_default();
    let opts: Rc<dyn CompilerOpts> = Rc::new(DefaultCompilerOpts::new("*verif*")).set_search_paths(&search);
    match check_unused(opts, text) {
        Ok((_ok, out)) => {
            let names: Vec<String> = out.lines().filter_map(|l| l.strip_prefix(" - ")).map(|s| s.trim().to_string()).collect();
            json!({"reported": names})
        }
        Err(e) => json!({"err": format!("{}: {}", e.0, e.1)}),
    }
}

/// build the argument tree of a pattern from a valuation of its variables
fn build(p: &Pat, val: &BTreeMap<String, V>) -> V {
    match p {
        Pat::Nil => V::nil(),
        Pat::Var(n) => val[n].clone(),
        Pat::At(_, q) => build(q, val),
        Pat::Cons(a, b) => V::cons(build(a, val), build(b, val)),
    }
}

pub fn drive(args: &HashMap<String, String>) {
    use rand::{Rng, SeedableRng};
    let n: usize = args.get("n").map(|s| s.parse().unwrap()).unwrap_or(100);
    let npairs: usize = args.get("pairs").map(|s| s.parse().unwrap()).unwrap_or(8);
    let trace = args.get("trace").expect("--trace");
    let cases = args.get("cases").expect("--cases");
    let outp = args.get("out").expect("--out");
    let seed = crate::util::seed_from_env() ^ 0xC17;
    let mut o = GenOpts::full();
    o.at_patterns = false;
    o.max_params = 8;
    o.big_literals = false;
    o.all_ops = false;
    let mut g = Gen::new(rand_chacha::ChaCha8Rng::seed_from_u64(seed), o.clone());
    let lower = |s: &str| if s.starts_with('P') { s.to_lowercase() } else { s.to_string() };
    let mut progs: Vec<Program> = vec![];
    for i in 0..n {
        g.o = o.clone();
        if i % 3 == 0 {
            g.o.depth = 2;
        }
        // parameter names from all over the alphabet (whatever sorts or compares names meets every order): every second
        // program spells P<k> with a first letter that depends on k
        let spread = |s: &str| if let Some(rest) = s.strip_prefix('P') {
            let k: usize = rest.bytes().filter(|b| b.is_ascii_digit()).fold(0usize, |a, b| a * 10 + (b - b'0') as usize);
            format!("{}{}", ["b", "x", "h", "r", "k", "z", "m", "t", "d", "v"][k % 10], rest.to_lowercase())
        } else { s.to_string() };
        if i % 2 == 1 {
            progs.push(g.program().rename_vars(&spread));
            continue;
        }
        progs.push(g.program().rename_vars(&lower));
    }
    // UseLadder: the second parameter is used through every chain of two constructs (it must never be reported)
    let late = |s: &str| match s { "p1" => "r1".to_string(), "p2" => "x2".to_string(), o => o.to_string() };
    for (p, _) in crate::p_compile::use_ladder(true) {
        // ... once more with parameter names from the end of the alphabet
        progs.push(p.rename_vars(&late));
        progs.push(p);
    }
    // ModLadder: the parameter reaches the result through a nested (mod ..) or a function used as a value
    for (p, _) in crate::p_compile::rec_ladder(true) {
        progs.push(p.rename_vars(&late));
        progs.push(p);
    }
    for (p, _) in crate::p_compile::mod_ladder() {
        progs.push(p.rename_vars(&lower));
    }
    // DepthLadder: the parameter is used at the bottom of expressions nested up to the evaluator's depth limit and beyond
    // (TLC's JSON reader stops at 255 levels of nesting: two per addition)
    for (p, _) in crate::p_compile::depth_ladder(true) {
        if crate::util::json_depth(&p.to_json()) < 240 {
            progs.push(p.rename_vars(&lower));
        }
    }
    // 1. ask the checker
    let jobs: Vec<Value> = progs.iter().map(|p| json!({"op": "usecheck", "text": p.render("*standard-cl-21*"), "events": true})).collect();
    let cfg = PoolCfg { batch: 1, timeout: Duration::from_secs(20), ..PoolCfg::default() };
    let reports = run_jobs(jobs, &cfg);
    if let Some(st) = args.get("scope-trace") {
        let mut sf = std::io::BufWriter::new(std::fs::File::create(st).expect("scope trace"));
        for (p, r) in progs.iter().zip(reports.iter()) {
            if let Some(mut rec) = crate::util::scope_record(&p.var_names(), r) {
                rec["source"] = json!(p.render("*standard-cl-21*"));
                writeln!(sf, "{}", rec).unwrap();
            }
        }
    }
    // 2. for every reported parameter: pairs of argument trees differing only there
    let mut cjobs = vec![];
    let mut owner = vec![];
    let mut valuations: Vec<Vec<(String, Vec<(BTreeMap<String, V>, V)>)>> = vec![];
    for (pi, (p, r)) in progs.iter().zip(reports.iter()).enumerate() {
        let mut names = vec![];
        p.args.names(&mut names);
        let reported: Vec<String> = r.get("reported").and_then(|x| x.as_array()).map(|a| a.iter().map(|s| s.as_str().unwrap().to_string()).filter(|s| names.contains(s)).collect()).unwrap_or_default();
        let mut per = vec![];
        for rp in &reported {
            let mut pairs = vec![];
            let mut envs = vec![];
            for k in 0..npairs {
                let mut val: BTreeMap<String, V> = names.iter().map(|nm| (nm.clone(), if nm == "pprog" { V::int(2) } else if nm == "plist" { V::list(&(0..(2 + k % 3)).map(|j| V::int(1 + j as i64)).collect::<Vec<_>>()) } else { g.value_for(&Pat::Var(nm.clone())) })).collect();
                let alt = match k % 4 {
                    0 => V::cons(V::int(1), V::int(2)),
                    1 => V::nil(),
                    2 => V::int(g.rng.random_range(1..1000)),
                    _ => g.value_for(&Pat::Var("x".to_string())),
                };
                if k % 4 == 0 {
                    val.insert(rp.clone(), V::int(7));
                }
                envs.push(build(&p.args, &val));
                let mut val2 = val.clone();
                val2.insert(rp.clone(), alt.clone());
                envs.push(build(&p.args, &val2));
                pairs.push((val, alt));
            }
            for b in ["cl21", "cl23"] {
                cjobs.push(json!({"op": "compile", "text": p.render(crate::p_compile::sigil_of(b)), "optimize": false, "envs": envs.iter().map(|e| e.to_json()).collect::<Vec<_>>()}));
                owner.push((pi, rp.clone(), b.to_string()));
            }
            per.push((rp.clone(), pairs));
        }
        valuations.push(per);
    }
    let results = run_jobs(cjobs, &cfg);
    let mut runs: HashMap<(usize, String, String), Value> = HashMap::new();
    for ((pi, rp, b), r) in owner.iter().zip(results.iter()) {
        runs.insert((*pi, rp.clone(), b.clone()), r.clone());
    }
    let mut rep = Report::default();
    let mut tf = std::io::BufWriter::new(std::fs::File::create(trace).expect("trace"));
    let mut cf = std::io::BufWriter::new(std::fs::File::create(cases).expect("cases"));
    for (pi, p) in progs.iter().enumerate() {
        rep.evaluations += 1;
        if reports[pi].get("reported").is_none() {
            rep.count("checker_failed");
            continue;
        }
        let mut names = vec![];
        p.args.names(&mut names);
        let mut reported_ev = vec![];
        for (rp, pairs) in &valuations[pi] {
            rep.count("reported_parameters");
            let mut per_build = serde_json::Map::new();
            for b in ["cl21", "cl23"] {
                let r = &runs[&(pi, rp.clone(), b.to_string())];
                let outs: Vec<Value> = match r.get("runs") {
                    Some(rs) => rs.as_array().unwrap().iter().map(|o| if o[0] == "ok" { o.clone() } else { json!([o[0]]) }).collect(),
                    None => vec![],
                };
                per_build.insert(b.to_string(), json!(outs));
            }
            reported_ev.push(json!({"param": rp, "pairs": pairs.iter().map(|(val, alt)| json!({"base": val.iter().map(|(k, v)| json!([k, v.to_json()])).collect::<Vec<_>>(), "alt": alt.to_json()})).collect::<Vec<_>>(),
                "obs": per_build}));
        }
        rep.traces += 1;
        if !reported_ev.is_empty() {
            rep.nontrivial(&p.render(""));
        }
        writeln!(tf, "{}", json!({"ast": p.to_json(), "params": names, "reported": reported_ev})).unwrap();
        writeln!(cf, "{}", json!({"source": p.render("*standard-cl-21*"), "params": names, "reported": reports[pi]["reported"]})).unwrap();
        if rep.samples.len() < 3 && !valuations[pi].is_empty() {
            rep.sample(json!({"source": p.render("*standard-cl-21*"), "reported_unused": reports[pi]["reported"]}));
        }
    }
    rep.write(outp);
}
