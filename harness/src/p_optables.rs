// C20: dump the operator tables of the running code (and what each name compiles / assembles /
// disassembles / steps to) as trace rows for Trace_OpTables.tla.
use crate::ops_compile::compile_lib;
use crate::util::Report;
use crate::val::V;
use chialisp::classic::clvm::{keyword_from_atom, keyword_to_atom};
use chialisp::classic::clvm_tools::binutils::{assemble, disassemble};
use chialisp::classic::clvm_tools::stages::stage_0::{DefaultProgramRunner, RunProgramOption, TRunProgram};
use chialisp::compiler::prims::{prim_map, prims};
use chialisp::compiler::sexp::{parse_sexp, SExp};
use clvmr::allocator::Allocator;
use serde_json::{json, Value};
use std::borrow::Borrow;
use std::collections::{BTreeSet, HashMap};
use std::io::Write;

fn rich_atom_bytes(s: &SExp) -> Option<Vec<u8>> {
    match s {
        SExp::Integer(_, i) => Some(crate::val::int_bytes(i)),
        SExp::Atom(_, b) | SExp::QuotedString(_, _, b) => Some(b.clone()),
        SExp::Nil(_) => Some(vec![]),
        _ => None,
    }
}

fn head_of(v: &V) -> Value {
    match v {
        V::P(a, _) => match a.borrow() {
            V::A(b) => json!(b),
            _ => json!([-1]),
        },
        _ => json!([-1]),
    }
}

pub fn dump(args: &HashMap<String, String>) {
    let trace = args.get("trace").expect("--trace");
    let outp = args.get("out").expect("--out");
    let mut f = std::io::BufWriter::new(std::fs::File::create(trace).expect("trace"));
    let mut rep = Report::default();
    let mut names: BTreeSet<Vec<u8>> = BTreeSet::new();
    for v in 0..3usize {
        for (n, a) in keyword_to_atom(v).iter() {
            writeln!(f, "{}", json!({"ev": "kw", "v": v, "name": n.as_bytes(), "opcode": a})).unwrap();
            names.insert(n.as_bytes().to_vec());
        }
        for (a, n) in keyword_from_atom(v).iter() {
            writeln!(f, "{}", json!({"ev": "kwinv", "v": v, "name": n.as_bytes(), "opcode": a})).unwrap();
            names.insert(n.as_bytes().to_vec());
        }
    }
    for (n, s) in prims() {
        writeln!(f, "{}", json!({"ev": "prim", "name": n, "opcode": rich_atom_bytes(&s).unwrap()})).unwrap();
        names.insert(n.clone());
    }
    // which opcodes the evaluator of each operator-set version implements
    let runner = DefaultProgramRunner::new();
    let mut opcodes: Vec<Vec<u8>> = (0..=255u8).map(|b| vec![b]).collect();
    opcodes.push(vec![0x13, 0xd6, 0x1f, 0x00]);
    opcodes.push(vec![0x1c, 0x3a, 0x8f, 0x00]);
    for v in 0..3usize {
        for op in &opcodes {
            let mut a = Allocator::new();
            let prog = V::cons(V::A(op.clone()), V::nil()).to_node(&mut a);
            let r = runner.run_program(&mut a, prog, clvmr::allocator::NodePtr::NIL,
                Some(RunProgramOption { operators_version: v, ..RunProgramOption::default() }));
            let unimpl = match r {
                Err(e) => { let s = format!("{e}"); s.contains("unimplemented operator") || s.contains("Unimplemented") || s.contains("unknown op") }
                Ok(_) => false,
            };
            writeln!(f, "{}", json!({"ev": "impl", "v": v, "opcode": op, "implemented": !unimpl})).unwrap();
            rep.evaluations += 1;
        }
    }
    // ... and which the stepping evaluator implements (cldb, compile-time evaluation of constants and macros, the REPL):
    // recorded as "version" 3
    for op in &opcodes {
        let prog = V::cons(V::A(op.clone()), V::nil());
        let unimpl = match std::panic::catch_unwind(|| crate::ops_clvm::stepper_run(&prog, &V::nil(), "int")) {
            Ok(crate::val::Outcome::Err(m)) => m.contains("unimplemented operator") || m.contains("Unimplemented") || m.contains("unknown op"),
            _ => false,
        };
        writeln!(f, "{}", json!({"ev": "impl", "v": 3, "opcode": op, "implemented": !unimpl})).unwrap();
        rep.evaluations += 1;
    }
    // per name: what every tool turns the name into
    let pm = prim_map();
    for n in &names {
        let name = String::from_utf8_lossy(n).to_string();
        rep.evaluations += 1;
        rep.nontrivial(&name);
        // classic assembler
        let mut a = Allocator::new();
        let asm = assemble(&mut a, &format!("({name} 2)")).map(|x| head_of(&V::from_node(&a, x))).unwrap_or(json!([-1]));
        // classic compiler and modern compiler: (mod (X Y ..) (NAME X Y ..)) must behave as a call of the
        // opcode the classic table gives for NAME: the outcomes on a set of argument lists are compared
        // with clvmr running (OPCODE 2 5 ..) directly
        let special = name == "q";
        let opcode: Option<Vec<u8>> = keyword_to_atom(2).get(&name).cloned().or_else(|| pm.get(n).and_then(|s| rich_atom_bytes(s.borrow())));
        let envs = [
            V::list(&[V::int(7), V::int(3), V::int(2)]),
            V::list(&[V::cons(V::int(1), V::int(2)), V::int(3), V::int(1)]),
            V::list(&[V::A(b"hello".to_vec()), V::int(1), V::int(3)]),
            V::list(&[V::nil(), V::A(vec![0xff]), V::int(200)]),
        ];
        let mut cc = json!([-2]);
        let mut mc = json!([-2]);
        let mut sr = json!([-2]);
        if !special {
            if let Some(opc) = &opcode {
                let mut sig_ref = vec![];
                let mut sig_c = vec![];
                let mut sig_m = vec![];
                let mut sig_s = vec![];
                for arity in 1..=3usize {
                    let params = ["X", "Y", "Z"][..arity].join(" ");
                    let src_classic = format!("(mod ({params}) ({name} {params}))");
                    let src_modern = format!("(mod ({params}) (include *standard-cl-21*) ({name} {params}))");
                    let paths: Vec<V> = [2u8, 5, 11][..arity].iter().map(|p| V::A(vec![*p])).collect();
                    let reference = V::cons(V::A(opc.clone()), V::list(&paths));
                    let c = compile_lib(&src_classic, "*verif*", &[], None);
                    let m = compile_lib(&src_modern, "*verif*", &[], Some(false));
                    for e in &envs {
                        let cls = |o: crate::val::Outcome| match o { crate::val::Outcome::Ok(v) => v.to_json().to_string(), _ => "err".to_string() };
                        sig_ref.push(cls(crate::val::consensus_run(&reference, e, crate::val::CONS_MAX_COST)));
                        sig_c.push(match &c { Ok(c) => cls(crate::val::consensus_run(&c.code, e, crate::val::CONS_MAX_COST)), Err(_) => "comperr".to_string() });
                        sig_m.push(match &m { Ok(c) => cls(crate::val::consensus_run(&c.code, e, crate::val::CONS_MAX_COST)), Err(_) => "comperr".to_string() });
                        // the stepping evaluator running the direct call of the opcode
                        sig_s.push(match std::panic::catch_unwind(|| crate::ops_clvm::stepper_run(&reference, e, "int")) { Ok(o) => cls(o), Err(_) => "panic".to_string() });
                    }
                }
                // a compile error is tolerated only where the call can never return (the optimisers fold and reject it)
                // one-directional, as for every compiler property: where the direct call of the opcode returns a
                // value the compiled program must return it (a call with the wrong number of arguments never
                // returns; the compilers are free to reject or re-shape it, e.g. / compiles to (f (divmod ..)))
                let agrees = |sig: &Vec<String>| sig.iter().zip(sig_ref.iter()).all(|(a, b)| b == "err" || a == b);
                cc = if agrees(&sig_c) { json!(opc) } else { json!([-1]) };
                mc = if agrees(&sig_m) { json!(opc) } else { json!([-1]) };
                sr = if agrees(&sig_s) { json!(opc) } else { json!([-1]) };
                if sig_ref.iter().any(|x| x != "err") {
                    rep.count("names_with_distinguishing_behaviour");
                }
            }
        }
        // the stepping evaluator's table and the reader's #name syntax
        let st = pm.get(n).and_then(|s| rich_atom_bytes(s.borrow())).map(|b| json!(b)).unwrap_or(json!([-1]));
        let hash_name = parse_sexp(crate::rich::loc(), format!("#{name}").bytes()).ok()
            .and_then(|fs| fs.first().and_then(|x| rich_atom_bytes(x.borrow()))).map(|b| json!(b)).unwrap_or(json!([-1]));
        writeln!(f, "{}", json!({"ev": "use", "name": n, "assembled": asm, "classic_compiled": cc, "modern_compiled": mc, "stepper": st, "stepper_runs": sr, "hash_syntax": hash_name})).unwrap();
        if rep.samples.len() < 4 {
            rep.sample(json!({"name": name, "assembled": asm, "classic_compiled": cc, "modern_compiled": mc, "stepper": st, "stepper_runs": sr, "hash_syntax": hash_name}));
        }
    }
    // disassembly of (opcode) under each version
    for v in 0..3usize {
        for op in &opcodes {
            let mut a = Allocator::new();
            let prog = V::list(&[V::A(op.clone()), V::A(vec![2])]).to_node(&mut a);
            let text = disassemble(&a, prog, Some(v));
            let head = text.trim_start_matches('(').split(' ').next().unwrap_or("").to_string();
            writeln!(f, "{}", json!({"ev": "disasm", "v": v, "opcode": op, "head": head.as_bytes()})).unwrap();
        }
    }
    rep.traces = 1;
    rep.write(outp);
}
