// Conversions between V and the compiler's rich SExp, written independently of
// /repo's own conversion functions (which are code under test for C07).
use crate::val::{int_bytes, int_of_bytes, V};
use chialisp::compiler::sexp::SExp;
use chialisp::compiler::srcloc::Srcloc;
use serde_json::{json, Value};
use std::borrow::Borrow;
use std::rc::Rc;

pub fn loc() -> Srcloc {
    Srcloc::start("*verif*")
}

#[derive(Clone, Copy, Debug, PartialEq, Eq)]
pub enum Spelling {
    Int,  // canonical integers as Integer, everything else as hex QuotedString; empty as Nil
    Atom, // every non-empty atom as Atom(bytes); empty as Nil
    Qs,   // every non-empty atom as QuotedString('"', bytes); empty as Nil
    QsAll, // every atom incl. empty as QuotedString
    IntZero, // like Int, but the empty atom is spelled Integer(0)
}

pub fn spelling_of(s: &str) -> Spelling {
    match s {
        "int" => Spelling::Int,
        "atom" => Spelling::Atom,
        "qs" => Spelling::Qs,
        "qsall" => Spelling::QsAll,
        "intzero" => Spelling::IntZero,
        _ => panic!("unknown spelling {s}"),
    }
}

pub fn is_canonical_int(b: &[u8]) -> bool {
    !b.is_empty() && int_bytes(&int_of_bytes(b)) == b
}

pub fn to_rich(v: &V, sp: Spelling) -> Rc<SExp> {
    match v {
        V::P(a, b) => Rc::new(SExp::Cons(loc(), to_rich(a, sp), to_rich(b, sp))),
        V::A(b) => {
            if b.is_empty() {
                return match sp {
                    Spelling::QsAll => Rc::new(SExp::QuotedString(loc(), b'"', vec![])),
                    Spelling::IntZero => Rc::new(SExp::Integer(loc(), 0.into())),
                    _ => Rc::new(SExp::Nil(loc())),
                };
            }
            match sp {
                Spelling::Int | Spelling::IntZero => {
                    if is_canonical_int(b) {
                        Rc::new(SExp::Integer(loc(), int_of_bytes(b)))
                    } else {
                        Rc::new(SExp::QuotedString(loc(), b'x', b.clone()))
                    }
                }
                Spelling::Atom => Rc::new(SExp::Atom(loc(), b.clone())),
                Spelling::Qs | Spelling::QsAll => Rc::new(SExp::QuotedString(loc(), b'"', b.clone())),
            }
        }
    }
}

/// The CLVM value a rich value denotes in the *fixed* integer mode (Integer 0 = nil).
pub fn from_rich(s: &SExp) -> V {
    match s {
        SExp::Nil(_) => V::nil(),
        SExp::Cons(_, a, b) => V::cons(from_rich(a.borrow()), from_rich(b.borrow())),
        SExp::Integer(_, i) => V::A(int_bytes(i)),
        SExp::QuotedString(_, _, b) => V::A(b.clone()),
        SExp::Atom(_, b) => V::A(b.clone()),
    }
}

/// structural JSON view of a rich value (constructor names kept) used in traces
pub fn rich_json(s: &SExp) -> Value {
    match s {
        SExp::Nil(_) => json!(["nil"]),
        SExp::Cons(_, a, b) => json!(["cons", rich_json(a.borrow()), rich_json(b.borrow())]),
        SExp::Integer(_, i) => json!(["int", i.to_signed_bytes_be()]),
        SExp::QuotedString(_, q, b) => json!(["str", *q as u64, b]),
        SExp::Atom(_, b) => json!(["sym", b]),
    }
}
