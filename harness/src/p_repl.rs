// C16: the REPL / partial evaluator only ever returns what the compiled program would.
use crate::ast::{Expr, Helper, Pat, Program};
use crate::gen::{Gen, GenOpts};
use crate::ops_compile::compile_lib;
use crate::pool::{run_jobs, PoolCfg};
use crate::rich::from_rich;
use crate::util::Report;
use crate::val::{consensus_run, V, CONS_MAX_COST};
use serde_json::{json, Value};
use std::collections::HashMap;
use std::io::Write;
use std::time::Duration;

/// job: {defs: [text...], expr: text}  ->  {"const": V} | {"residual": text} | {"error": msg}
pub fn op_repl(job: &Value) -> Value {
    use chialisp::classic::clvm_tools::stages::stage_0::DefaultProgramRunner;
    use chialisp::compiler::compiler::DefaultCompilerOpts;
    use chialisp::compiler::comptypes::BodyForm;
    use chialisp::compiler::repl::Repl;
    use clvmr::allocator::Allocator;
    use std::borrow::Borrow;
    use std::rc::Rc;
    let mut allocator = Allocator::new();
    let runner = Rc::new(DefaultProgramRunner::new());
    let opts = Rc::new(DefaultCompilerOpts::new("*program*"));
    let mut repl = Repl::new(opts, runner);
    // "split": every form is typed over three lines, the line breaks standing where single spaces stood between two
    // tokens (outside strings), so that the break is the only thing separating them
    let split = job.get("split").and_then(|b| b.as_bool()).unwrap_or(false);
    let fragments = |text: &str| -> Vec<String> {
        if !split {
            return vec![text.to_string()];
        }
        let b = text.as_bytes();
        let mut in_str = false;
        let mut cands = vec![];
        for i in 1..b.len().saturating_sub(1) {
            if b[i] == b'"' {
                in_str = !in_str;
            }
            if !in_str && b[i] == b' ' && b[i - 1] != b' ' && b[i + 1] != b' ' && b[i - 1] != b'(' && b[i + 1] != b')' {
                cands.push(i);
            }
        }
        if cands.len() < 2 {
            return vec![text.to_string()];
        }
        let (i, j) = (cands[cands.len() / 3], cands[(2 * cands.len()) / 3]);
        if i >= j {
            return vec![text[..i].to_string(), text[i + 1..].to_string()];
        }
        vec![text[..i].to_string(), text[i + 1..j].to_string(), text[j + 1..].to_string()]
    };
    for d in job["defs"].as_array().unwrap() {
        for frag in fragments(d.as_str().unwrap()) {
            if let Err(e) = repl.process_line(&mut allocator, frag) {
                return json!({"def_error": format!("{}: {}", e.0, e.1), "def": d});
            }
        }
    }
    let mut frags = fragments(job["expr"].as_str().unwrap());
    let last = frags.pop().unwrap();
    for frag in frags {
        match repl.process_line(&mut allocator, frag) {
            Ok(None) => {}
            Ok(Some(_)) => return json!({"error": "a fragment of the expression was answered as if it were complete"}),
            Err(e) => return json!({"error": format!("{}: {}", e.0, e.1)}),
        }
    }
    match repl.process_line(&mut allocator, last) {
        Ok(Some(b)) => match b.borrow() {
            BodyForm::Quoted(v) => json!({"const": from_rich(v).to_json()}),
            other => json!({"residual": other.to_sexp().to_string()}),
        },
        Ok(None) => json!({"error": "incomplete"}),
        Err(e) => {
            let m = format!("{}: {}", e.0, e.1);
            if m.contains("stack limit") || m.contains("depth") {
                json!({"limit": m})
            } else {
                json!({"error": m})
            }
        }
    }
}

/// compile (mod ARGS defs... body) and run on envs
pub fn op_modrun(job: &Value) -> Value {
    let text = job["text"].as_str().unwrap();
    match compile_lib(text, "*verif*", &[], Some(false)) {
        Ok(c) => {
            let runs: Vec<Value> = job["envs"].as_array().unwrap().iter().map(|e| {
                let o = consensus_run(&c.code, &V::from_json(e).unwrap(), CONS_MAX_COST);
                if o.is_ok() { o.to_json() } else { json!([o.kind()]) }
            }).collect();
            json!({"runs": runs})
        }
        Err(e) => json!({"comperr": e.msg()}),
    }
}

pub fn drive(args: &HashMap<String, String>) {
    use rand::{Rng, SeedableRng};
    let n: usize = args.get("n").map(|s| s.parse().unwrap()).unwrap_or(100);
    let trace = args.get("trace").expect("--trace");
    let cases = args.get("cases").expect("--cases");
    let outp = args.get("out").expect("--out");
    let seed = crate::util::seed_from_env() ^ 0xC16;
    let mut o = GenOpts::core();
    o.macros = true;
    o.max_helpers = 4;
    let mut g = Gen::new(rand_chacha::ChaCha8Rng::seed_from_u64(seed), o.clone());
    struct Case { p: Program, open: bool, envs: Vec<V>, defs: Vec<String>, expr: String }
    let mut cs: Vec<Case> = vec![];
    for i in 0..n {
        g.o = o.clone();
        g.o.lets = i % 2 == 0;
        let open = i % 3 == 0;
        let mut p = g.program();
        if !open {
            // closed: no parameters; replace parameter references by literals
            let mut names = vec![];
            p.args.names(&mut names);
            let vals: HashMap<String, V> = names.iter().map(|nm| (nm.clone(), V::int(g.rng.random_range(0..9)))).collect();
            p = Program { args: Pat::Nil, helpers: p.helpers.clone(), body: subst(&p.body, &vals) };
        }
        let envs = if open { g.args_for(&p, 3) } else { vec![V::nil()] };
        // definitions in an order that defines before use: the generator only calls earlier helpers
        let defs: Vec<String> = p.helpers.iter().map(|h| h.render()).collect();
        let expr = p.body.render();
        cs.push(Case { p, open, envs, defs, expr });
    }
    // AtLadder sessions: open, and closed with each argument pair as literals
    for (p, envs) in crate::p_compile::at_ladder() {
        let defs: Vec<String> = p.helpers.iter().map(|h| h.render()).collect();
        cs.push(Case { expr: p.body.render(), defs: defs.clone(), envs: envs.clone(), open: true, p: p.clone() });
        for e in envs.iter() {
            if let V::P(pval, rest) = e {
                if let V::P(qval, _) = &**rest {
                    let vals: HashMap<String, V> = [("P".to_string(), (**pval).clone()), ("Q".to_string(), (**qval).clone())].into_iter().collect();
                    let pc = Program { args: Pat::Nil, helpers: p.helpers.clone(), body: subst(&p.body, &vals) };
                    cs.push(Case { expr: pc.body.render(), defs: defs.clone(), envs: vec![V::nil()], open: false, p: pc });
                }
            }
        }
    }
    // RestLadder / AssignLadder sessions (open: the program's parameters are the free variables)
    for (p, envs) in crate::p_compile::rest_and_assign_ladders() {
        let defs: Vec<String> = p.helpers.iter().map(|h| h.render()).collect();
        cs.push(Case { expr: p.body.render(), defs, envs, open: true, p });
    }
    // ModLadder sessions: open (free variable P1) and closed
    for (p, envs) in crate::p_compile::mod_ladder() {
        let defs: Vec<String> = p.helpers.iter().map(|h| h.render()).collect();
        cs.push(Case { expr: p.body.render(), defs: defs.clone(), envs: envs.clone(), open: true, p: p.clone() });
        if let V::P(first, _) = &envs[0] {
            let vals: HashMap<String, V> = [("P1".to_string(), (**first).clone())].into_iter().collect();
            let pc = Program { args: Pat::Nil, helpers: p.helpers.clone(), body: subst(&p.body, &vals) };
            cs.push(Case { expr: pc.body.render(), defs, envs: vec![V::nil()], open: false, p: pc });
        }
    }
    // DepthLadder sessions: open (free variable P1) and closed (P1 = the first argument list's value)
    for (p, envs) in crate::p_compile::depth_ladder(n >= 1000) {
        let defs: Vec<String> = p.helpers.iter().map(|h| h.render()).collect();
        cs.push(Case { expr: p.body.render(), defs: defs.clone(), envs: envs.clone(), open: true, p: p.clone() });
        if let V::P(first, _) = &envs[0] {
            let vals: HashMap<String, V> = [("P1".to_string(), (**first).clone())].into_iter().collect();
            let pc = Program { args: Pat::Nil, helpers: p.helpers.clone(), body: subst(&p.body, &vals) };
            cs.push(Case { expr: pc.body.render(), defs, envs: vec![V::nil()], open: false, p: pc });
        }
    }
    // UseLadder sessions: open (free variables P1 P2) and closed (P1 = 1, P2 = 700)
    for (p, envs) in crate::p_compile::use_ladder(false) {
        let defs: Vec<String> = p.helpers.iter().map(|h| h.render()).collect();
        cs.push(Case { expr: p.body.render(), defs: defs.clone(), envs: envs.clone(), open: true, p: p.clone() });
        let vals: HashMap<String, V> = [("P1".to_string(), V::int(1)), ("P2".to_string(), V::int(700)), ("PPROG".to_string(), V::int(2))].into_iter().collect();
        let body = subst(&p.body, &vals);
        let pc = Program { args: Pat::Nil, helpers: p.helpers.clone(), body };
        cs.push(Case { expr: pc.body.render(), defs, envs: vec![V::nil()], open: false, p: pc });
    }
    let cfg = PoolCfg { batch: 1, timeout: Duration::from_secs(20), ..PoolCfg::default() };
    // every third session is typed over several lines (the accumulated text must be what the compiler is given)
    let rjobs: Vec<Value> = cs.iter().enumerate().map(|(i, c)| json!({"op": "repl", "defs": c.defs, "expr": c.expr, "events": true, "split": i % 3 == 1})).collect();
    let rres = run_jobs(rjobs, &cfg);
    let mut cjobs = vec![];
    for (c, r) in cs.iter().zip(rres.iter()) {
        let envs: Vec<Value> = c.envs.iter().map(|e| e.to_json()).collect();
        cjobs.push(json!({"op": "modrun", "text": c.p.render("*standard-cl-21*"), "envs": envs}));
        // the residual, compiled with the same definitions
        let residual = r.get("residual").and_then(|x| x.as_str()).unwrap_or("()").to_string();
        let rp = format!("(mod {} (include *standard-cl-21*) {} {})", c.p.args.render(), c.defs.join(" "), residual);
        cjobs.push(json!({"op": "modrun", "text": rp, "envs": envs}));
    }
    let cres = run_jobs(cjobs, &cfg);
    // evaluator scope events of every session (Trace_ComScope)
    if let Some(st) = args.get("scope-trace") {
        let mut sf = std::io::BufWriter::new(std::fs::File::create(st).expect("scope trace"));
        for (c, r) in cs.iter().zip(rres.iter()) {
            if let Some(rec) = crate::util::scope_record(&c.p.var_names(), r) {
                let mut rec = rec;
                rec["open"] = json!(c.open);
                rec["expr"] = json!(c.expr);
                rec["defs"] = json!(c.defs);
                writeln!(sf, "{}", rec).unwrap();
            }
        }
    }
    let mut rep = Report::default();
    let mut tf = std::io::BufWriter::new(std::fs::File::create(trace).expect("trace"));
    let mut cf = std::io::BufWriter::new(std::fs::File::create(cases).expect("cases"));
    for (i, (c, r)) in cs.iter().zip(rres.iter()).enumerate() {
        rep.evaluations += 1;
        let compiled = &cres[2 * i];
        let resid = &cres[2 * i + 1];
        let kind = if r.get("const").is_some() { "const" } else if r.get("residual").is_some() { "residual" } else if r.get("limit").is_some() { "limit" }
            else if r.get("abort").is_some() || r.get("panic").is_some() || r.get("timeout").is_some() { "crash" } else { "error" };
        rep.count(&format!("repl_{kind}"));
        let runs = |x: &Value| x.get("runs").cloned().unwrap_or_else(|| Value::Array(c.envs.iter().map(|_| json!(["comperr"])).collect()));
        rep.traces += 1;
        if kind == "const" || kind == "residual" {
            rep.nontrivial(&format!("{}|{}", c.defs.join(" "), c.expr));
        }
        // TLC's JSON reader stops at 255 levels of nesting: a deeper program goes without its AST (the source-meaning
        // clause, which is bounded by fuel anyway, is then not evaluated for it)
        let ast = c.p.to_json();
        let in_model = crate::util::json_depth(&ast) < 240;
        let ast = if in_model { ast } else { Program { args: Pat::Nil, helpers: vec![], body: Expr::Lit(V::nil()) }.to_json() };
        writeln!(tf, "{}", json!({"ast": ast, "in_model": in_model, "open": c.open, "kind": kind, "value": r.get("const").cloned().unwrap_or(json!(["a", []])),
            "envs": c.envs.iter().map(|e| e.to_json()).collect::<Vec<_>>(), "compiled": runs(compiled), "residual_compiled": runs(resid)})).unwrap();
        writeln!(cf, "{}", json!({"defs": c.defs, "expr": c.expr, "split": i % 3 == 1, "args": c.p.args.render(), "repl": r, "compiled": compiled, "residual_compiled": resid,
            "envs": c.envs.iter().map(|e| e.show()).collect::<Vec<_>>()})).unwrap();
        if rep.samples.len() < 4 && kind != "error" {
            rep.sample(json!({"defs": c.defs, "expr": c.expr, "repl": r, "compiled": compiled}));
        }
    }
    rep.write(outp);
}

fn subst(e: &Expr, vals: &HashMap<String, V>) -> Expr {
    let f = |x: &Expr| subst(x, vals);
    match e {
        Expr::Var(n) => match vals.get(n) {
            Some(v) => Expr::Lit(v.clone()),
            None => e.clone(),
        },
        Expr::Lit(_) => e.clone(),
        Expr::Prim(o, a) => Expr::Prim(*o, a.iter().map(f).collect()),
        Expr::Call(n, a, r) => Expr::Call(n.clone(), a.iter().map(f).collect(), r.as_ref().map(|x| Box::new(f(x)))),
        Expr::If(c, t, x) => Expr::If(Box::new(f(c)), Box::new(f(t)), Box::new(f(x))),
        Expr::List(a) => Expr::List(a.iter().map(f).collect()),
        Expr::Let(s, bs, b) => Expr::Let(*s, bs.iter().map(|(n, x)| (n.clone(), f(x))).collect(), Box::new(f(b))),
        Expr::Assign(bs, b) => Expr::Assign(bs.iter().map(|(p, x)| (p.clone(), f(x))).collect(), Box::new(f(b))),
        Expr::Lambda(c, p, b) => Expr::Lambda(c.clone(), p.clone(), Box::new(f(b))),
        Expr::Apply(a, b) => Expr::Apply(Box::new(f(a)), Box::new(f(b))),
        Expr::Mod(p) => Expr::Mod(p.clone()),
    }
}

#[allow(dead_code)]
fn unused(_h: &Helper) {}
