// Worker-side operations for C07: rich <-> CLVM conversion, the three tree hashes, equality/hash of rich values.
use crate::rich::{loc, rich_json};
use crate::val::{sha256tree as my_sha256tree, V};
use chialisp::classic::clvm_tools::sha256tree::sha256tree as classic_sha256tree;
use chialisp::compiler::clvm::{convert_from_clvm_rs, convert_to_clvm_rs, sha256tree as rich_sha256tree, NewStyleIntConversion};
use chialisp::compiler::sexp::SExp;
use clvmr::allocator::Allocator;
use serde_json::{json, Value};
use std::collections::hash_map::DefaultHasher;
use std::hash::{Hash, Hasher};
use std::rc::Rc;

fn clvmr_tree_hash(v: &V) -> Vec<u8> {
    let mut a = Allocator::new();
    let n = v.to_node(&mut a);
    clvmr::serde::node_to_bytes(&a, n)
        .map(|b| clvmr::serde::tree_hash_from_stream(&mut std::io::Cursor::new(&b)).expect("tree hash").to_vec())
        .expect("ser")
}

/// convert one CLVM value to rich form and back under the given integer mode
pub fn convert_case(v: &V, fixed: bool) -> Value {
    let _guard = NewStyleIntConversion::new(fixed);
    let mut a = Allocator::new();
    let n = v.to_node(&mut a);
    let rich = match convert_from_clvm_rs(&mut a, loc(), n) {
        Ok(r) => r,
        Err(e) => return json!({"error": format!("from: {e}")}),
    };
    let back = match convert_to_clvm_rs(&mut a, rich.clone()) {
        Ok(b) => V::from_node(&a, b),
        Err(e) => return json!({"error": format!("to: {e}")}),
    };
    let h_rich = rich_sha256tree(rich.clone());
    let h_classic = classic_sha256tree(&mut a, n).data().clone();
    let h_clvmr = clvmr_tree_hash(v);
    let h_mine = my_sha256tree(v);
    json!({"rich": rich_json(&rich), "back": back.to_json(), "back_same": back == *v,
        "h_rich": hex::encode(h_rich), "h_classic": hex::encode(h_classic), "h_clvmr": hex::encode(h_clvmr), "h_ref": hex::encode(h_mine)})
}

fn rich_from_json(j: &Value) -> Rc<SExp> {
    let a = j.as_array().unwrap();
    let bytes = |v: &Value| -> Vec<u8> { v.as_array().unwrap().iter().map(|b| b.as_u64().unwrap() as u8).collect() };
    Rc::new(match a[0].as_str().unwrap() {
        "nil" => SExp::Nil(loc()),
        "int" => SExp::Integer(loc(), num_bigint::BigInt::from_signed_bytes_be(&bytes(&a[1]))),
        "str" => SExp::QuotedString(loc(), a[1].as_u64().unwrap() as u8, bytes(&a[2])),
        "sym" => SExp::Atom(loc(), bytes(&a[1])),
        "cons" => SExp::Cons(loc(), rich_from_json(&a[1]), rich_from_json(&a[2])),
        o => panic!("bad rich tag {o}"),
    })
}

fn std_hash(s: &SExp) -> u64 {
    let mut h = DefaultHasher::new();
    s.hash(&mut h);
    h.finish()
}

pub fn op_rich(job: &Value) -> Value {
    if let Some(v) = job.get("value") {
        let v = V::from_json(v).unwrap();
        let fixed = job["fixed"].as_bool().unwrap();
        return convert_case(&v, fixed);
    }
    if job.get("x").is_some() {
        // equality clause, fixed mode
        let _guard = NewStyleIntConversion::new(true);
        let x = rich_from_json(&job["x"]);
        let y = rich_from_json(&job["y"]);
        let mut a = Allocator::new();
        let ex = convert_to_clvm_rs(&mut a, x.clone()).map(|n| V::from_node(&a, n));
        let ey = convert_to_clvm_rs(&mut a, y.clone()).map(|n| V::from_node(&a, n));
        let (ex, ey) = match (ex, ey) {
            (Ok(a), Ok(b)) => (a, b),
            _ => return json!({"error": "convert"}),
        };
        return json!({"eq": *x == *y, "hash_eq": std_hash(&x) == std_hash(&y), "enc_eq": ex == ey,
            "enc_x": ex.to_json(), "enc_y": ey.to_json()});
    }
    if let Some(t) = job.get("text") {
        // read text with the modern reader, return the rich structure (fixed mode)
        let _guard = NewStyleIntConversion::new(true);
        let txt = t.as_str().unwrap();
        return match chialisp::compiler::sexp::parse_sexp(loc(), txt.bytes()) {
            Ok(forms) => json!({"forms": forms.iter().map(|f| rich_json(f)).collect::<Vec<_>>()}),
            Err(e) => json!({"parse_error": e.1}),
        };
    }
    json!({"error": "bad rich job"})
}
