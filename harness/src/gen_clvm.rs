// Seeded random generator of raw CLVM programs and environments, with the
// boundary classes of DESIGN.md 6.2 (PathZoo, OpZoo, LengthClasses).
use crate::val::V;
use rand::Rng;
use rand_chacha::ChaCha8Rng;

pub struct ClvmGen {
    pub rng: ChaCha8Rng,
    pub opzoo: bool, // allow operator atoms in odd spellings (names, padded, unknown)
}

const CORE_OPS: &[(u8, usize)] = &[
    (2, 2), (3, 3), (4, 2), (5, 1), (6, 1), (7, 1), (8, 1), (9, 2),
];
const MORE_OPS: &[(u8, usize)] = &[
    (10, 2), (12, 2), (12, 3), (13, 1), (14, 2), (14, 3), (16, 2), (16, 3), (17, 2), (18, 2), (19, 2), (20, 2),
    (21, 2), (22, 2), (23, 2), (24, 2), (25, 2), (26, 2), (27, 1), (32, 1), (33, 2), (34, 2), (61, 2), (11, 1), (11, 2),
];

impl ClvmGen {
    pub fn small_atom(&mut self) -> V {
        let r = &mut self.rng;
        match r.random_range(0..12) {
            0 => V::nil(),
            1 => V::A(vec![1]),
            2 => V::A(vec![r.random_range(0..=127u8)]),
            3 => V::A(vec![r.random_range(128..=255u8)]),
            4 => V::A(vec![0]),
            5 => V::A(vec![0, r.random_range(0..=255u8)]),
            6 => V::A(vec![0xff, r.random_range(0..=255u8)]),
            7 => V::A(vec![r.random_range(1..=255u8), r.random_range(0..=255u8)]),
            8 => V::A(b"c".to_vec()),
            9 => {
                let n = r.random_range(3..=6);
                V::A((0..n).map(|_| r.random::<u8>()).collect())
            }
            10 => V::A(vec![0x7f, 0xff]),
            _ => V::A(vec![r.random_range(2..=40u8)]),
        }
    }

    pub fn value(&mut self, depth: usize) -> V {
        if depth == 0 || self.rng.random_range(0..3) == 0 {
            self.small_atom()
        } else if self.rng.random_range(0..3) == 0 {
            let n = self.rng.random_range(1..=4);
            let items: Vec<V> = (0..n).map(|_| self.value(depth - 1)).collect();
            V::list(&items)
        } else {
            let a = self.value(depth - 1);
            let b = self.value(depth - 1);
            V::cons(a, b)
        }
    }

    /// a deep environment: proper list of n small values (so that rest-chains of length < n work)
    pub fn list_env(&mut self, n: usize) -> V {
        let items: Vec<V> = (0..n).map(|_| self.value(1)).collect();
        V::list(&items)
    }

    /// an environment in which a path atom of the program resolves: a tree built along the path's bits (siblings are
    /// distinct small atoms), with a full binary tree of depth 3 of distinct atoms at the addressed node, so that
    /// f/r chains applied to the path still return values and a wrongly composed or wrongly decoded path is visible
    pub fn env_along(&mut self, prog: &V) -> Option<V> {
        fn atoms(v: &V, quoted: bool, out: &mut Vec<Vec<u8>>) {
            match v {
                V::A(b) => {
                    if !quoted && !b.is_empty() && b.len() <= 10 {
                        out.push(b.clone());
                    }
                }
                V::P(a, b) => {
                    // (q . X): X is data
                    if **a == V::A(vec![1]) {
                        return;
                    }
                    atoms(a, true, out); // operator position
                    let mut cur: &V = b;
                    while let V::P(x, rest) = cur {
                        atoms(x, quoted, out);
                        cur = rest;
                    }
                }
            }
        }
        let mut cands = vec![];
        atoms(prog, false, &mut cands);
        cands.retain(|b| b.iter().any(|x| *x != 0));
        if cands.is_empty() {
            return None;
        }
        // prefer wide paths
        cands.sort_by_key(|b| std::cmp::Reverse(b.len()));
        let pick = if self.rng.random_bool(0.6) { 0 } else { self.rng.random_range(0..cands.len()) };
        let path = num_bigint::BigUint::from_bytes_be(&cands[pick]);
        let nbits = path.bits();
        if nbits == 0 || nbits > 90 {
            return None;
        }
        let mut marker = 0x20u8;
        let mut next = || {
            marker = marker.wrapping_add(1);
            V::A(vec![0x40, marker])
        };
        fn full(depth: usize, next: &mut dyn FnMut() -> V) -> V {
            if depth == 0 {
                next()
            } else {
                let a = full(depth - 1, next);
                let b = full(depth - 1, next);
                V::cons(a, b)
            }
        }
        // the last step taken is the bit below the top bit: build from the target outwards
        let mut node = full(3, &mut next);
        for i in (0..nbits - 1).rev() {
            let sib = next();
            node = if path.bit(i) { V::cons(sib, node) } else { V::cons(node, sib) };
        }
        Some(node)
    }

    /// path atoms of 1..9 bytes: all-ones, top-bit-set, zero-padded, random
    pub fn path_zoo(&mut self) -> V {
        let r = &mut self.rng;
        let n = r.random_range(1..=9usize);
        match r.random_range(0..6) {
            0 => V::A(vec![0xff; n]),
            1 => {
                let mut b = vec![0x80u8];
                b.extend((1..n).map(|_| r.random::<u8>()));
                V::A(b)
            }
            2 => {
                // one to three leading zero bytes (a path is read as an unsigned number: the padding changes nothing)
                let mut b = vec![0u8; r.random_range(1..=3)];
                if r.random_bool(0.5) {
                    b.push(r.random_range(1..=0x7fu8));
                } else {
                    b.extend((1..n.max(2)).map(|_| r.random::<u8>()));
                }
                V::A(b)
            }
            3 => {
                // rest-chain path 2^k - 1 and first-of-rest-chain
                let k = r.random_range(1..=70u32);
                let mut v = num_bigint::BigUint::from(1u8) << k;
                if r.random_bool(0.5) {
                    v -= 1u8;
                } else {
                    v += (num_bigint::BigUint::from(1u8) << (k - 1)) - 1u8;
                }
                V::A(v.to_bytes_be())
            }
            4 => V::A(vec![r.random_range(1..=255u8)]),
            _ => V::A((0..n).map(|_| r.random::<u8>()).collect()),
        }
    }

    fn op_atom(&mut self, op: u8) -> V {
        if self.opzoo && self.rng.random_range(0..6) == 0 {
            match self.rng.random_range(0..5) {
                0 => V::A(vec![0, op]),                 // non-canonical padding
                1 => V::A(b"c".to_vec()),               // bytes spelling an operator name (opcode 99)
                2 => V::A(b"+".to_vec()),               // opcode 43
                3 => V::A(vec![self.rng.random_range(63..=255u8)]), // unknown / name-like opcodes
                _ => V::A(vec![61]),                    // '%' whose byte spells '='
            }
        } else {
            V::A(vec![op])
        }
    }

    pub fn prog(&mut self, depth: usize, all_ops: bool) -> V {
        let r = self.rng.random_range(0..100);
        if depth == 0 || r < 12 {
            return match self.rng.random_range(0..10) {
                0 => V::nil(),
                1..=5 => V::A(vec![[1u8, 2, 3, 5, 7, 4, 6, 11, 15][self.rng.random_range(0..9)]]),
                6 | 7 => self.path_zoo(),
                _ => V::cons(V::A(vec![1]), self.value(2)),
            };
        }
        if r < 22 {
            return V::cons(V::A(vec![1]), self.value(2));
        }
        if r < 32 {
            // f/r chain of length 0..80 applied to a path
            let n = if self.rng.random_bool(0.3) { self.rng.random_range(0..=80) } else { self.rng.random_range(0..=6) };
            let mut e = if self.rng.random_bool(0.5) { V::A(vec![1]) } else { self.path_zoo() };
            for _ in 0..n {
                let op = if self.rng.random_range(0..4) == 0 { 5u8 } else { 6u8 };
                e = V::list(&[V::A(vec![op]), e]);
            }
            return e;
        }
        if r < 40 {
            // (a (q . X) ENV) re-rooting
            let x = self.prog(depth - 1, all_ops);
            let env = match self.rng.random_range(0..4) {
                0 => V::A(vec![1]),
                1 => self.prog(depth - 1, all_ops),
                2 => V::list(&[V::A(vec![4]), self.prog(depth - 1, all_ops), self.prog(depth - 1, all_ops)]),
                _ => V::cons(V::A(vec![1]), self.value(3)),
            };
            return V::list(&[V::A(vec![2]), V::cons(V::A(vec![1]), x), env]);
        }
        let (op, ar) = if all_ops && self.rng.random_bool(0.5) {
            MORE_OPS[self.rng.random_range(0..MORE_OPS.len())]
        } else {
            CORE_OPS[self.rng.random_range(0..CORE_OPS.len())]
        };
        let ar = if self.rng.random_range(0..25) == 0 { (ar + 1) % 4 } else { ar };
        let head = self.op_atom(op);
        let args: Vec<V> = (0..ar).map(|_| self.prog(depth - 1, all_ops)).collect();
        let tail = if self.rng.random_range(0..40) == 0 { self.small_atom() } else { V::nil() };
        V::cons(head, V::list_tail(&args, tail))
    }
}
