mod ast;
mod gen;
mod gen_clvm;
mod p_compile;
mod ops_clvm;
mod ops_compile;
mod p_optables;
mod ops_print;
mod ops_rich;
mod p_print;
mod ops_serde;
mod p_rich;
mod p_serde;
mod pool;
mod rich;
mod util;
mod val;
mod p_clvm;
mod corpus;
mod p_history;
mod p_frontend;
mod p_scoping;
mod p_cldb;
mod p_hier;
mod p_reader;
mod p_repl;
mod p_symbols;
mod p_usecheck;
mod p_entry;
mod p_includes;
mod p_atomic;

use serde_json::{json, Value};

pub fn handle(job: &Value) -> Value {
    // evaluator scope events (hook verif_event in /repo): only the events of this job
    let want_events = job.get("events").and_then(|b| b.as_bool()).unwrap_or(false);
    let _ = chialisp::util::verif_take_events();
    let mut r = handle_op(job);
    let evs = chialisp::util::verif_take_events();
    if want_events {
        let parsed: Vec<Value> = evs.iter().take(400).filter_map(|l| util::parse_json(l).ok()).collect();
        if let Some(o) = r.as_object_mut() {
            o.insert("events".to_string(), Value::Array(parsed));
        }
    }
    r
}

fn handle_op(job: &Value) -> Value {
    match job["op"].as_str().unwrap_or("") {
        "clvm" => ops_clvm::op_clvm(job),
        "serde" => ops_serde::op_serde(job),
        "rich" => ops_rich::op_rich(job),
        "print" => ops_print::op_print(job),
        "compile" => ops_compile::op_compile(job),
        "deps" => p_includes::op_deps(job),
        "entry" => p_entry::op_entry(job),
        "usecheck" => p_usecheck::op_usecheck(job),
        "repl" => p_repl::op_repl(job),
        "parse" => p_reader::op_parse(job),
        "cldb" => p_cldb::op_cldb(job),
        "hier" => p_hier::op_hier(job),
        "frontend" => p_frontend::op_frontend(job),
        "modrun" => p_repl::op_modrun(job),
        "ping" => json!({"pong": true}),
        other => json!({"error": format!("unknown op {other}")}),
    }
}

fn main() {
    // deep values (serialised chains, long rows) are walked recursively on the harness side too: run on a large stack
    let h = std::thread::Builder::new().stack_size(2 << 30).spawn(real_main).expect("spawn main thread");
    if h.join().is_err() {
        std::process::exit(101);
    }
}

fn real_main() {
    let args: Vec<String> = std::env::args().collect();
    if args.len() < 2 {
        eprintln!("usage: vh <command> ...");
        std::process::exit(2);
    }
    let rest = util::args_map(&args[2..]);
    match args[1].as_str() {
        "worker" => pool::worker_main(handle),
        "replay-clvm" => p_clvm::replay(&rest),
        "drive-clvm" => p_clvm::drive(&rest),
        "drive-compile" => p_compile::drive(&rest),
        "drive-frontend" => p_frontend::drive(&rest),
        "drive-scoping" => p_scoping::drive(&rest),
        "drive-cldb" => p_cldb::drive(&rest),
        "replay-cldb" => p_cldb::replay(&rest),
        "drive-hier" => p_hier::drive(&rest),
        "replay-hier" => p_hier::replay(&rest),
        "drive-reader" => p_reader::drive(&rest),
        "replay-reader" => p_reader::replay(&rest),
        "drive-repl" => p_repl::drive(&rest),
        "drive-symbols" => p_symbols::drive(&rest),
        "drive-usecheck" => p_usecheck::drive(&rest),
        "drive-shipped" => p_compile::drive_shipped(&rest),
        "replay-chialisp" => p_compile::replay_chialisp(&rest),
        "replay-cse" => p_compile::replay_cse(&rest),
        "replay-compile" => p_compile::replay(&rest),
        "gen-programs" => p_compile::gen_programs(&rest),
        "drive-entry" => p_entry::drive(&rest),
        "drive-includes" => p_includes::drive(&rest),
        "c05-child" => p_history::child(&rest),
        "drive-history" => p_history::drive(&rest),
        "c19-child" => p_atomic::child(&rest),
        "drive-atomic" => p_atomic::drive(&rest),
        "dump-optables" => p_optables::dump(&rest),
        "replay-print" => p_print::replay(&rest),
        "drive-print" => p_print::drive(&rest),
        "replay-rich" => p_rich::replay(&rest),
        "drive-rich" => p_rich::drive(&rest),
        "replay-serde" => p_serde::replay(&rest),
        "replay-casts" => p_serde::replay_casts(&rest),
        "drive-serde" => p_serde::drive(&rest),
        "job" => {
            // run one job given as JSON on the command line, in process (for replay files)
            let j: Value = serde_json::from_str(&args[2]).expect("json job");
            println!("{}", pool::guarded(handle, &j));
        }
        other => {
            eprintln!("unknown command {other}");
            std::process::exit(2);
        }
    }
}
