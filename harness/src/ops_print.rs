// Worker-side operations for C09: classic disassemble/assemble, modern printer/reader.
use crate::rich::loc;
use crate::val::V;
use chialisp::classic::clvm_tools::binutils::{assemble, disassemble};
use chialisp::compiler::clvm::{convert_from_clvm_rs, convert_to_clvm_rs, NewStyleIntConversion};
use chialisp::compiler::sexp::parse_sexp;
use clvmr::allocator::Allocator;
use serde_json::{json, Value};

fn res(r: Result<V, String>) -> Value {
    match r {
        Ok(v) => json!(["ok", v.to_json()]),
        Err(m) => json!(["err", m]),
    }
}

pub fn classic_assemble(text: &str) -> Result<V, String> {
    let mut a = Allocator::new();
    assemble(&mut a, text).map(|n| V::from_node(&a, n)).map_err(|e| format!("{e}"))
}

pub fn modern_read(text: &str) -> Result<V, String> {
    let forms = parse_sexp(loc(), text.bytes()).map_err(|e| format!("{}: {}", e.0, e.1))?;
    if forms.len() != 1 {
        return Err(format!("{} forms", forms.len()));
    }
    let mut a = Allocator::new();
    convert_to_clvm_rs(&mut a, forms[0].clone())
        .map(|n| V::from_node(&a, n))
        .map_err(|e| format!("{e}"))
}

pub fn op_print(job: &Value) -> Value {
    let _guard = NewStyleIntConversion::new(true);
    let v = V::from_json(&job["value"]).unwrap();
    let mut out = serde_json::Map::new();
    for ver in 0..3usize {
        let mut a = Allocator::new();
        let n = v.to_node(&mut a);
        let text = disassemble(&a, n, Some(ver));
        let back = classic_assemble(&text);
        out.insert(format!("classic{ver}"), json!({"text": text, "back": res(back)}));
    }
    let mut a = Allocator::new();
    let n = v.to_node(&mut a);
    match convert_from_clvm_rs(&mut a, loc(), n) {
        Ok(rich) => {
            let text = rich.to_string();
            out.insert("modern".to_string(), json!({"text": text, "back": res(modern_read(&text)), "classic_back": res(classic_assemble(&text))}));
        }
        Err(e) => {
            out.insert("modern".to_string(), json!({"error": format!("{e}")}));
        }
    }
    Value::Object(out)
}
