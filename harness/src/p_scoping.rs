// C10: ill-scoped programs are rejected, never miscompiled and never loop the compiler.
// Well-scoped generated programs get exactly one injected defect; the defective program must be
// rejected with an error naming the identifier / form, the repaired twin must compile.
use crate::ast::{Expr, Helper, Pat, Program};
use crate::gen::{Gen, GenOpts};
use crate::pool::{run_jobs, PoolCfg};
use crate::util::Report;
use serde_json::{json, Value};
use std::collections::HashMap;
use std::io::Write;
use std::time::Duration;

/// replace the k-th variable occurrence (pre-order) of an expression; returns (new expr, replaced?)
fn replace_var(e: &Expr, k: &mut i64, fresh: &str, bound_fns: &[String]) -> Expr {
    let mut f = |x: &Expr, k: &mut i64| replace_var(x, k, fresh, bound_fns);
    match e {
        Expr::Var(n) if !bound_fns.contains(n) => {
            *k -= 1;
            if *k == -1 { Expr::Var(fresh.to_string()) } else { e.clone() }
        }
        Expr::Var(_) | Expr::Lit(_) | Expr::Mod(_) => e.clone(),
        Expr::Prim(o, a) => Expr::Prim(*o, a.iter().map(|x| f(x, k)).collect()),
        Expr::List(a) => Expr::List(a.iter().map(|x| f(x, k)).collect()),
        Expr::Call(n, a, r) => {
            let na = a.iter().map(|x| f(x, k)).collect();
            let nr = r.as_ref().map(|x| Box::new(f(x, k)));
            Expr::Call(n.clone(), na, nr)
        }
        Expr::If(c, t, x) => {
            let nc = f(c, k);
            let nt = f(t, k);
            let nx = f(x, k);
            Expr::If(Box::new(nc), Box::new(nt), Box::new(nx))
        }
        Expr::Let(s, bs, b) => {
            let nbs = bs.iter().map(|(n, x)| (n.clone(), f(x, k))).collect();
            let nb = f(b, k);
            Expr::Let(*s, nbs, Box::new(nb))
        }
        Expr::Assign(bs, b) => {
            let nbs = bs.iter().map(|(p, x)| (p.clone(), f(x, k))).collect();
            let nb = f(b, k);
            Expr::Assign(nbs, Box::new(nb))
        }
        Expr::Lambda(c, p, b) => Expr::Lambda(c.clone(), p.clone(), Box::new(f(b, k))),
        Expr::Apply(a, b) => {
            let na = f(a, k);
            let nb = f(b, k);
            Expr::Apply(Box::new(na), Box::new(nb))
        }
    }
}

fn count_vars(e: &Expr, fns: &[String]) -> i64 {
    let mut k = i64::MAX / 2;
    let start = k;
    let _ = replace_var(e, &mut k, "__none__", fns);
    start - k
}

fn calls_of(e: &Expr, out: &mut Vec<String>) {
    match e {
        Expr::Call(n, a, r) => {
            out.push(n.clone());
            a.iter().for_each(|x| calls_of(x, out));
            if let Some(r) = r {
                calls_of(r, out);
            }
        }
        Expr::Var(n) => out.push(n.clone()),
        Expr::Prim(_, a) | Expr::List(a) => a.iter().for_each(|x| calls_of(x, out)),
        Expr::If(c, t, x) => {
            calls_of(c, out);
            calls_of(t, out);
            calls_of(x, out);
        }
        Expr::Let(_, bs, b) => {
            bs.iter().for_each(|(_, x)| calls_of(x, out));
            calls_of(b, out);
        }
        Expr::Assign(bs, b) => {
            bs.iter().for_each(|(_, x)| calls_of(x, out));
            calls_of(b, out);
        }
        Expr::Lambda(_, _, b) => calls_of(b, out),
        Expr::Apply(a, b) => {
            calls_of(a, out);
            calls_of(b, out);
        }
        _ => {}
    }
}

pub struct Defect {
    pub kind: &'static str,
    pub ident: String,
    pub program: Program,
    pub where_: String,
}

pub fn inject(p: &Program, rng: &mut rand_chacha::ChaCha8Rng) -> Vec<Defect> {
    use rand::Rng;
    let mut out = vec![];
    let fns: Vec<String> = p.helpers.iter().map(|h| h.name().to_string()).collect();
    // reachable helpers (called, transitively, from the main expression)
    let mut reach: Vec<String> = vec![];
    let mut todo = vec![];
    calls_of(&p.body, &mut todo);
    while let Some(n) = todo.pop() {
        if fns.contains(&n) && !reach.contains(&n) {
            reach.push(n.clone());
            if let Some(Helper::Defun { body, .. }) = p.helpers.iter().find(|h| h.name() == n) {
                calls_of(body, &mut todo);
            }
        }
    }
    // 1. a fresh unbound name at a variable position of reachable code
    let nmain = count_vars(&p.body, &fns);
    if nmain > 0 {
        let mut k = rng.random_range(0..nmain);
        let q = Program { args: p.args.clone(), helpers: p.helpers.clone(), body: replace_var(&p.body, &mut k, "UNBOUND77", &fns) };
        out.push(Defect { kind: "unbound", ident: "UNBOUND77".into(), program: q, where_: "main".into() });
        // ... and one spelled unlike the generator's own names (a name is unbound whatever it looks like: the special
        // names @ and @*env* are the only ones the code generator answers without a lookup)
        let spellings = ["@UNBOUND80", "@u", "@undefined", "_UNBOUND81", "unbound-82!", "$UNB83", "&UNB84", "*UNB85*", "UNB86?", "@*envx*", "@@"];
        let id = spellings[rng.random_range(0..spellings.len())];
        let mut k = rng.random_range(0..nmain);
        let q = Program { args: p.args.clone(), helpers: p.helpers.clone(), body: replace_var(&p.body, &mut k, id, &fns) };
        out.push(Defect { kind: "unbound", ident: id.into(), program: q, where_: "main".into() });
    }
    for (hi, h) in p.helpers.iter().enumerate() {
        if let Helper::Defun { name, pat, body, inline } = h {
            if !reach.contains(name) {
                continue;
            }
            let n = count_vars(body, &fns);
            if n > 0 {
                let mut k = rng.random_range(0..n);
                let mut hs = p.helpers.clone();
                hs[hi] = Helper::Defun { name: name.clone(), pat: pat.clone(), body: replace_var(body, &mut k, "UNBOUND78", &fns), inline: *inline };
                out.push(Defect { kind: "unbound", ident: "UNBOUND78".into(), program: Program { args: p.args.clone(), helpers: hs, body: p.body.clone() },
                    where_: if *inline { "inline".into() } else { "function".into() } });
                break;
            }
        }
    }
    // 2. a second defun / defun-inline with the name of an existing function
    if let Some(Helper::Defun { name, pat, .. }) = p.helpers.iter().find(|h| matches!(h, Helper::Defun { .. })) {
        let mut hs = p.helpers.clone();
        hs.push(Helper::Defun { name: name.clone(), pat: pat.clone(), body: Expr::Lit(crate::val::V::int(1)), inline: rng.random_bool(0.5) });
        out.push(Defect { kind: "redefine", ident: name.clone(), program: Program { args: p.args.clone(), helpers: hs, body: p.body.clone() }, where_: "helpers".into() });
    }
    // 3. a back edge in the call graph restricted to inline functions (cycle length 1..3), made reachable from main
    {
        let len = rng.random_range(1..=3usize);
        let names: Vec<String> = (0..len).map(|i| format!("cyc{i}")).collect();
        let mut hs = p.helpers.clone();
        for i in 0..len {
            let next = names[(i + 1) % len].clone();
            let call = Expr::Call(next, vec![Expr::Prim(16, vec![Expr::Var("CA".into()), Expr::Lit(crate::val::V::int(1))])], None);
            let body = if rng.random_bool(0.5) { call } else { Expr::Prim(4, vec![Expr::Var("CA".into()), call]) };
            hs.push(Helper::Defun { name: names[i].clone(), pat: Pat::list(vec![Pat::Var("CA".into())], Pat::Nil), body, inline: true });
        }
        let body = Expr::Prim(4, vec![Expr::Call(names[0].clone(), vec![Expr::Lit(crate::val::V::int(3))], None), p.body.clone()]);
        out.push(Defect { kind: "inline-cycle", ident: names.join(","), program: Program { args: p.args.clone(), helpers: hs, body }, where_: format!("cycle{len}") });
    }
    // 3b. the same two defects where only the branch a constant condition never takes can see them: an unbound name, and
    //     a ring of inline functions called from there (strict dialects for the name, every dialect for the ring)
    {
        let one = Expr::Lit(crate::val::V::int(1));
        let dead = |x: Expr, keep: Expr, cond_true: bool| if cond_true { Expr::If(Box::new(one.clone()), Box::new(keep), Box::new(x)) } else { Expr::If(Box::new(Expr::Lit(crate::val::V::nil())), Box::new(x), Box::new(keep)) };
        for cond_true in [true, false] {
            let body = dead(Expr::Prim(4, vec![Expr::Var("UNBOUND79".into()), one.clone()]), p.body.clone(), cond_true);
            out.push(Defect { kind: "unbound", ident: "UNBOUND79".into(), program: Program { args: p.args.clone(), helpers: p.helpers.clone(), body }, where_: "dead-branch".into() });
        }
        let mut hs = p.helpers.clone();
        hs.push(Helper::Defun { name: "dcyc0".into(), pat: Pat::list(vec![Pat::Var("CA".into())], Pat::Nil), body: Expr::Call("dcyc1".into(), vec![Expr::Var("CA".into())], None), inline: true });
        hs.push(Helper::Defun { name: "dcyc1".into(), pat: Pat::list(vec![Pat::Var("CA".into())], Pat::Nil), body: Expr::Prim(4, vec![Expr::Var("CA".into()), Expr::Call("dcyc0".into(), vec![Expr::Var("CA".into())], None)]), inline: true });
        let body = dead(Expr::Call("dcyc0".into(), vec![one.clone()], None), p.body.clone(), true);
        out.push(Defect { kind: "inline-cycle", ident: "dcyc0,dcyc1".into(), program: Program { args: p.args.clone(), helpers: hs, body }, where_: "dead-branch".into() });
    }
    // 4. assign with a dependency cycle / a repeated name
    {
        let cyc = Expr::Assign(vec![(Pat::Var("CYA".into()), Expr::Prim(16, vec![Expr::Var("CYB".into()), Expr::Lit(crate::val::V::int(1))])),
                                    (Pat::Var("CYB".into()), Expr::Prim(16, vec![Expr::Var("CYA".into()), Expr::Lit(crate::val::V::int(1))]))],
                               Box::new(Expr::Prim(4, vec![Expr::Var("CYA".into()), p.body.clone()])));
        out.push(Defect { kind: "assign-cycle", ident: "CYA,CYB".into(), program: Program { args: p.args.clone(), helpers: p.helpers.clone(), body: cyc }, where_: "main".into() });
        // ... and the other shapes of a cycle: a binding that needs itself (nothing else needing it; first, in the middle,
        // last among independent bindings), three names in a ring, a ring with a tail hanging off it
        let lit = |k: i64| Expr::Lit(crate::val::V::int(k));
        let one = || lit(1);
        let plus = |a: Expr, b: Expr| Expr::Prim(16, vec![a, b]);
        let var = |n: &str| Expr::Var(n.to_string());
        let bindv = |n: &str, e: Expr| (Pat::Var(n.to_string()), e);
        let shapes: Vec<(&str, Vec<(Pat, Expr)>)> = vec![
            ("self-last", vec![bindv("CYI", one()), bindv("CYS", plus(var("CYS"), var("CYI")))]),
            ("self-first", vec![bindv("CYS", plus(var("CYS"), one())), bindv("CYI", lit(2))]),
            ("self-middle", vec![bindv("CYI", one()), bindv("CYS", plus(var("CYS"), one())), bindv("CYJ", plus(var("CYI"), one()))]),
            ("self-alone", vec![bindv("CYS", plus(var("CYS"), one()))]),
            ("ring3", vec![bindv("CYA", plus(var("CYC"), one())), bindv("CYB", plus(var("CYA"), one())), bindv("CYC", plus(var("CYB"), one()))]),
            ("ring-tail", vec![bindv("CYA", plus(var("CYB"), one())), bindv("CYB", plus(var("CYA"), one())), bindv("CYT", plus(var("CYA"), one()))]),
            ("self-in-pattern", vec![(Pat::Cons(Box::new(Pat::Var("CYS".into())), Box::new(Pat::Var("CYU".into()))), Expr::Prim(4, vec![var("CYU"), one()]))]),
        ];
        for (what, bs) in shapes {
            let used = bs.iter().flat_map(|(p, _)| { let mut v = vec![]; p.names(&mut v); v }).fold(lit(0), |acc, n| plus(acc, Expr::Var(n)));
            let idents: Vec<String> = bs.iter().flat_map(|(p, _)| { let mut v = vec![]; p.names(&mut v); v }).filter(|n| n.starts_with("CY")).collect();
            let body = Expr::Assign(bs, Box::new(Expr::Prim(4, vec![used, p.body.clone()])));
            out.push(Defect { kind: "assign-cycle", ident: idents.join(","), program: Program { args: p.args.clone(), helpers: p.helpers.clone(), body }, where_: what.into() });
        }
        let dup = Expr::Assign(vec![(Pat::Var("DUP".into()), Expr::Lit(crate::val::V::int(1))), (Pat::Var("DUP".into()), Expr::Lit(crate::val::V::int(2)))],
                               Box::new(Expr::Prim(4, vec![Expr::Var("DUP".into()), p.body.clone()])));
        out.push(Defect { kind: "assign-dup", ident: "DUP".into(), program: Program { args: p.args.clone(), helpers: p.helpers.clone(), body: dup }, where_: "main".into() });
        // the repeated name separated by 1..3 other bindings, as a simple name or inside a destructuring pattern
        use rand::Rng;
        let gap = rng.random_range(1..=3);
        let lit = |k: i64| Expr::Lit(crate::val::V::int(k));
        let mut bs: Vec<(Pat, Expr)> = vec![];
        let first_in_pattern = rng.random_bool(0.4);
        let second_in_pattern = rng.random_bool(0.4);
        let dup_binding = |in_pat: bool, other: &str, k: i64| if in_pat {
            (Pat::Cons(Box::new(Pat::Var("DUP".into())), Box::new(Pat::Var(other.into()))), Expr::Prim(4, vec![lit(k), lit(k + 1)]))
        } else {
            (Pat::Var("DUP".into()), lit(k))
        };
        bs.push(dup_binding(first_in_pattern, "DUX", 1));
        for i in 0..gap {
            bs.push((Pat::Var(format!("GAP{i}")), lit(10 + i as i64)));
        }
        bs.push(dup_binding(second_in_pattern, "DUY", 5));
        if rng.random_bool(0.5) {
            bs.push((Pat::Var("GAPZ".into()), lit(20)));
        }
        let dup2 = Expr::Assign(bs, Box::new(Expr::Prim(4, vec![Expr::Var("DUP".into()), p.body.clone()])));
        out.push(Defect { kind: "assign-dup", ident: "DUP".into(), program: Program { args: p.args.clone(), helpers: p.helpers.clone(), body: dup2 }, where_: "main".into() });
    }
    out
}

pub fn drive(args: &HashMap<String, String>) {
    use rand::SeedableRng;
    let n: usize = args.get("n").map(|s| s.parse().unwrap()).unwrap_or(60);
    let trace = args.get("trace").expect("--trace");
    let cases = args.get("cases").expect("--cases");
    let outp = args.get("out").expect("--out");
    let seed = crate::util::seed_from_env() ^ 0xC10;
    let mut rng = rand_chacha::ChaCha8Rng::seed_from_u64(seed ^ 5);
    let mut o = GenOpts::full();
    o.macros = false;
    o.at_patterns = false;
    let mut g = Gen::new(rand_chacha::ChaCha8Rng::seed_from_u64(seed), o.clone());
    let strict = ["s21", "cl23", "cl231", "cl24"];
    let all = ["cl21", "s21", "cl23", "cl231", "cl24"];
    // screening: a generated program whose own compilation does not finish within 10 s under some dialect says
    // nothing about name checking and would cost minutes per injected variant; it is left out (and counted)
    let mut progs = vec![];
    for i in 0..n {
        g.o = o.clone();
        if i % 2 == 0 {
            g.o.depth = 2;
        }
        progs.push(g.program());
    }
    // fixed bases: a repeated subexpression with one instance two lambdas deep (the common-subexpression pass has to pass
    // the new variable through both lambdas; cl23+ used to reject such programs, repaired by 0ec9405)
    {
        let v = |n: &str| Expr::Var(n.to_string());
        let pv = |n: &str| Pat::Var(n.to_string());
        let one = || Expr::Lit(crate::val::V::int(1));
        let rep = || Expr::Prim(16, vec![v("Q8"), one()]);
        for deep_body in [rep(), Expr::List(vec![v("Z11"), v("Z12"), rep()])] {
            let caps: Vec<String> = if matches!(deep_body, Expr::List(_)) { vec!["Q8".into(), "Z11".into()] } else { vec!["Q8".into()] };
            let inner = Expr::Apply(Box::new(Expr::Lambda(caps, pv("Z12"), Box::new(deep_body))), Box::new(Expr::List(vec![one()])));
            let outer = Expr::Apply(Box::new(Expr::Lambda(vec!["Q8".into()], pv("Z11"), Box::new(Expr::Prim(4, vec![v("Z11"), inner])))), Box::new(Expr::List(vec![rep()])));
            progs.push(Program { args: Pat::list(vec![pv("P1"), pv("P2")], Pat::Nil),
                helpers: vec![Helper::Defun { name: "fun17".into(), pat: Pat::list(vec![pv("Q5"), pv("Q8")], Pat::Nil), body: outer, inline: false }],
                body: Expr::Call("fun17".into(), vec![v("P1"), v("P2")], None) });
        }
    }
    let mut screen = vec![];
    let mut owner = vec![];
    for (i, p) in progs.iter().enumerate() {
        for b in all.iter() {
            if crate::p_compile::renderable(p, b) {
                screen.push(json!({"op": "compile", "text": p.render(crate::p_compile::sigil_of(b)), "optimize": false}));
                owner.push(i);
            }
        }
    }
    let quick = PoolCfg { batch: 1, timeout: Duration::from_secs(10), ..PoolCfg::default() };
    let sres = crate::pool::run_jobs_unconfirmed(screen.clone(), &quick);
    let mut slow = std::collections::BTreeSet::new();
    for (k, r) in sres.iter().enumerate() {
        if r.get("timeout").is_some() && slow.insert(owner[k]) {
            eprintln!("[drive-scoping] left out (compilation takes more than 10 s): {}", screen[k]["text"].as_str().unwrap_or(""));
        }
    }
    let mut jobs: Vec<Value> = vec![];
    let mut index_of: HashMap<String, usize> = HashMap::new();
    let mut job_for = |text: String, jobs: &mut Vec<Value>| -> usize {
        if let Some(i) = index_of.get(&text) {
            return *i;
        }
        jobs.push(json!({"op": "compile", "text": text.clone(), "optimize": false}));
        index_of.insert(text, jobs.len() - 1);
        jobs.len() - 1
    };
    let mut meta = vec![];
    let mut slots = vec![];
    for (i, p) in progs.iter().enumerate() {
        if slow.contains(&i) {
            continue;
        }
        for d in inject(p, &mut rng) {
            let builds: &[&str] = if d.kind == "unbound" { &strict } else { &all };
            for b in builds {
                if !crate::p_compile::renderable(&d.program, b) || !crate::p_compile::renderable(p, b) {
                    continue;
                }
                let jd = job_for(d.program.render(crate::p_compile::sigil_of(b)), &mut jobs);
                let jt = job_for(p.render(crate::p_compile::sigil_of(b)), &mut jobs);
                slots.push((jd, jt));
                meta.push((d.kind, d.ident.clone(), d.where_.clone(), b.to_string(), d.program.clone(), p.clone()));
            }
        }
    }
    let cfg = PoolCfg { batch: 1, timeout: Duration::from_secs(20), ..PoolCfg::default() };
    let results = run_jobs(jobs, &cfg);
    let mut rep = Report::default();
    for _ in 0..slow.len() {
        rep.count("left_out_slow_compilation");
    }
    let mut tf = std::io::BufWriter::new(std::fs::File::create(trace).expect("trace"));
    let mut cf = std::io::BufWriter::new(std::fs::File::create(cases).expect("cases"));
    for (i, (kind, ident, where_, b, dp, tp)) in meta.iter().enumerate() {
        let (rd, rt) = (&results[slots[i].0], &results[slots[i].1]);
        rep.evaluations += 1;
        rep.traces += 1;
        rep.nontrivial(&format!("{}|{}|{}", kind, b, dp.render("")));
        let outcome = |r: &Value| if r.get("ok").is_some() { "compiled" } else if r.get("err").is_some() { "rejected" } else if r.get("timeout").is_some() { "timeout" } else { "crash" };
        let msg = rd.get("err").map(|e| e["msg"].as_str().unwrap_or("").to_string()).unwrap_or_default();
        let idents: Vec<&str> = ident.split(',').collect();
        // "names the offending identifier or form": the message contains the identifier, or the error location
        // lies inside the text of the offending form (everything is rendered on line 1)
        let dsrc = dp.render(crate::p_compile::sigil_of(b));
        let span = match *kind {
            "unbound" => dsrc.find(ident.as_str()).map(|i| (i + 1, i + 1 + ident.len())),
            "redefine" => dp.helpers.last().and_then(|h| dsrc.rfind(&h.render())).map(|i| (i + 1, i + 1 + dp.helpers.last().unwrap().render().len())),
            "assign-cycle" | "assign-dup" => dsrc.find("(assign CY").or_else(|| dsrc.find("(assign (CY")).or_else(|| dsrc.find("(assign DUP")).or_else(|| dsrc.find("(assign (DUP")).map(|i| (i + 1, dsrc.len())),
            _ => None,
        };
        let loc_inside = match (rd.get("err"), span) {
            (Some(e), Some((lo, hi))) => e["file"] == "*verif*" && e["line"] == 1 && e["col"].as_u64().map(|c| (c as usize) >= lo && (c as usize) <= hi).unwrap_or(false),
            _ => false,
        };
        let names_it = idents.iter().any(|x| msg.contains(x)) || loc_inside;
        rep.count(&format!("{}_{}", kind, outcome(rd)));
        writeln!(tf, "{}", json!({"kind": kind, "build": b, "where": where_, "ast": dp.to_json(), "twin": tp.to_json(), "defective": outcome(rd), "twin_outcome": outcome(rt),
            "names_identifier": names_it, "strict": *b != "cl21"})).unwrap();
        writeln!(cf, "{}", json!({"kind": kind, "build": b, "where": where_, "identifier": ident, "defective_source": dp.render(crate::p_compile::sigil_of(b)),
            "twin_source": tp.render(crate::p_compile::sigil_of(b)), "defective": rd, "twin": if rt.get("ok").is_some() { json!("compiled") } else { rt.clone() }})).unwrap();
        if rep.samples.len() < 4 {
            rep.sample(json!({"kind": kind, "build": b, "defective_source": dp.render(crate::p_compile::sigil_of(b)), "outcome": outcome(rd), "message": msg}));
        }
    }
    rep.write(outp);
}
