// C04 / C06: replay of TLC-enumerated (program, environment, predicted outcome)
// vectors through the consensus evaluator, the stepping evaluator and the
// CLVM-level optimiser.
use crate::pool::{run_jobs, PoolCfg};
use crate::util::{read_ndjson, read_tlc_vectors, Report};
use crate::val::{Outcome, V};
use serde_json::{json, Value};
use std::collections::HashMap;
use std::time::Duration;

pub const SPELLINGS: [&str; 3] = ["int", "qs", "intzero"];

fn same_class(a: &Outcome, b: &Outcome) -> bool {
    match (a, b) {
        (Outcome::Ok(x), Outcome::Ok(y)) => x == y,
        (Outcome::Err(_), Outcome::Err(_)) => true,
        _ => false,
    }
}

pub fn replay(args: &HashMap<String, String>) {
    let input = args.get("in").expect("--in");
    let outp = args.get("out").expect("--out");
    let prop = args.get("prop").map(|s| s.as_str()).unwrap_or("both");
    let vectors: Vec<Value> = if args.contains_key("ndjson") {
        read_ndjson(input)
    } else {
        read_tlc_vectors(input, "V")
    };
    let do_step = prop == "C06" || prop == "both";
    let do_opt = prop == "C04" || prop == "both";
    let do_post = prop == "C02";
    // rule-level model of the optimiser (ClassicOpt.tla): what it answers for each enumerated term
    let mut model_opt: HashMap<String, Value> = HashMap::new();
    if do_opt && !args.contains_key("ndjson") {
        for o in read_tlc_vectors(input, "O") {
            model_opt.entry(o["prog"].to_string()).or_insert(o["mopt"].clone());
        }
    }
    let mut seen_model: std::collections::HashSet<String> = std::collections::HashSet::new();
    let jobs: Vec<Value> = vectors
        .iter()
        .map(|v| {
            let mut j = json!({"op": "clvm", "prog": v["prog"], "env": v["env"], "opt": do_opt, "postopt": do_post});
            if do_step {
                j["spellings"] = json!(SPELLINGS);
            }
            j
        })
        .collect();
    let cfg = PoolCfg {
        batch: 64,
        timeout: Duration::from_secs(10),
        ..PoolCfg::default()
    };
    let results = run_jobs(jobs, &cfg);
    let mut rep = Report::default();
    for (v, r) in vectors.iter().zip(results.iter()) {
        rep.evaluations += 1;
        let progv = V::from_json(&v["prog"]).unwrap();
        let envv = V::from_json(&v["env"]).unwrap();
        let case = json!({"prog": v["prog"], "env": v["env"], "prog_text": progv.show(), "env_text": envv.show()});
        if r.get("abort").is_some() || r.get("timeout").is_some() || r.get("panic").is_some() {
            // the harness-side op itself does not panic; an abort here is the code under test
            rep.count("worker_failures");
            let p = if do_step { "C06" } else { "C04" };
            rep.violation(json!({"property": p, "kind": "crash", "case": case, "observed": r}));
            continue;
        }
        let cons = Outcome::from_json(&r["cons"]).unwrap();
        if let Some(pred) = v.get("res") {
            let spec = Outcome::from_json(pred).unwrap();
            match (&spec, &cons) {
                (Outcome::Fuel, _) | (Outcome::Oom, _) | (_, Outcome::Fuel) => rep.count("spec_not_compared"),
                _ => {
                    rep.count("spec_compared");
                    if !same_class(&spec, &cons) {
                        rep.spec_error(json!({"case": case, "spec": spec.to_json(), "consensus": cons.to_json_msg()}));
                    }
                }
            }
        }
        rep.count(&format!("consensus_{}", cons.kind()));
        if do_step {
            if let Some(m) = r["step"].as_object() {
                for (sp, o) in m {
                    let so = Outcome::from_json(o).unwrap();
                    if matches!(so, Outcome::Fuel) || matches!(cons, Outcome::Fuel) {
                        rep.count("step_fuel_skipped");
                        continue;
                    }
                    rep.count("step_compared");
                    if !same_class(&so, &cons) {
                        // does the specification's stepper machine (with its documented head-form deviation) predict
                        // exactly what the real stepper did?
                        let explains = v.get("step").and_then(|p| Outcome::from_json(p).ok()).map(|ms| same_class(&ms, &so)).unwrap_or(false);
                        rep.violation(json!({"property": "C06", "kind": "stepper-vs-consensus", "spelling": sp, "model_explains": explains,
                            "case": case, "stepper": so.to_json_msg(), "consensus": cons.to_json_msg()}));
                    }
                }
                rep.nontrivial(&format!("{}|{}", v["prog"], v["env"]));
            }
        }
        if do_opt {
            let o = &r["opt"];
            // conformance of the rule-level model: same answer term for term (a difference is drift of the model, not a
            // violation: the property is judged on values)
            let key = v["prog"].to_string();
            if let Some(m) = model_opt.get(&key) {
                if seen_model.insert(key) && m[0] != "unk" {
                    rep.count("model_opt_compared");
                    let same = if m[0] == "ok" { o.get("out").map(|x| *x == m[1]).unwrap_or(false) } else { o.get("out").is_none() };
                    if !same {
                        rep.drift(json!({"what": "ClassicOpt.tla answers another term than optimize_sexp", "prog_text": progv.show(), "model": m,
                            "model_text": if m[0] == "ok" { V::from_json(&m[1]).map(|x| x.show()).unwrap_or_default() } else { "rejects".to_string() },
                            "real": o.get("out").and_then(|x| V::from_json(x).ok()).map(|x| x.show()).unwrap_or_else(|| "rejects".to_string())}));
                    }
                }
            }
            if o.get("changed").and_then(|b| b.as_bool()).unwrap_or(false) {
                rep.count("opt_changed");
                rep.nontrivial(&format!("{}|{}", v["prog"], v["env"]));
            }
            if let Outcome::Ok(want) = &cons {
                rep.count("opt_antecedent_holds");
                if o.get("fail").is_some() || o.get("panic").is_some() {
                    rep.violation(json!({"property": "C04", "kind": "optimizer-rejects", "case": case,
                        "consensus": cons.to_json(), "observed": o}));
                } else {
                    let res = Outcome::from_json(&o["res"]).unwrap();
                    let good = matches!(&res, Outcome::Ok(got) if got == want);
                    if !good {
                        let outv = V::from_json(&o["out"]).unwrap();
                        rep.violation(json!({"property": "C04", "kind": "optimizer-changes-value", "case": case,
                            "consensus": cons.to_json(), "optimized": o["out"], "optimized_text": outv.show(),
                            "optimized_result": res.to_json_msg()}));
                    }
                }
            }
        }
        if do_post {
            // the cl23+ post-codegen rewrites on an arbitrary CLVM term: where the term returns v, so does the rewritten one
            let o = &r["postopt"];
            if o.get("changed").and_then(|b| b.as_bool()).unwrap_or(false) {
                rep.count("postopt_changed");
                rep.nontrivial(&format!("{}|{}", v["prog"], v["env"]));
            }
            if let Outcome::Ok(want) = &cons {
                rep.count("postopt_antecedent_holds");
                let good = o.get("res").and_then(|x| Outcome::from_json(x).ok()).map(|res| matches!(&res, Outcome::Ok(got) if got == want)).unwrap_or(false);
                if !good {
                    rep.violation(json!({"property": "C02", "kind": "post-codegen-rewrite-changes-value", "case": case, "consensus": cons.to_json(),
                        "rewritten_text": o.get("out").and_then(|x| V::from_json(x).ok()).map(|x| x.show()), "rewritten_result": o.get("res"), "observed": o}));
                }
            }
        }
        if rep.samples.len() < 3 && cons.is_ok() {
            rep.sample(json!({"case": case, "consensus": cons.to_json(), "observed": r}));
        }
    }
    rep.traces = rep.evaluations;
    rep.write(outp);
}

// ---------------------------------------------------------------- T direction
// Seeded random driver: runs the real code on generated CLVM and writes one
// trace record per run for Trace_Clvm.tla; the same decisions are also taken
// here so that replay files can be written for any violation.
pub fn drive(args: &HashMap<String, String>) {
    use crate::gen_clvm::ClvmGen;
    use rand::SeedableRng;
    use std::io::Write;
    let n: usize = args.get("n").map(|s| s.parse().unwrap()).unwrap_or(1000);
    let trace = args.get("trace").expect("--trace");
    let outp = args.get("out").expect("--out");
    let opzoo = args.contains_key("opzoo");
    let seed = crate::util::seed_from_env();
    let mut g = ClvmGen { rng: rand_chacha::ChaCha8Rng::seed_from_u64(seed ^ 0xC04C06), opzoo };
    let mut cases = vec![];
    use rand::Rng;
    for i in 0..n {
        let depth = 1 + (i % 5);
        let prog = g.prog(depth, i % 3 != 0);
        let mut env = match g.rng.random_range(0..4) {
            0 => g.list_env(90),
            1 => g.list_env(12),
            _ => g.value(4),
        };
        // every third case: an environment built along one of the program's path atoms
        if i % 3 == 1 {
            if let Some(e) = g.env_along(&prog) {
                env = e;
            }
        }
        cases.push(json!({"prog": prog.to_json(), "env": env.to_json()}));
    }
    // boundary ladder: first/rest of (and short chains over) path atoms whose width sits at byte and word boundaries,
    // each in an environment built along the path; and long rest chains from the root closed by a first
    {
        let widths = [2usize, 6, 7, 8, 9, 15, 16, 17, 23, 24, 25, 31, 32, 33, 47, 48, 56, 57, 62, 63, 64, 65, 66, 71, 72, 73];
        for (wi, w) in widths.iter().enumerate() {
            for variant in 0..3 {
                // w-bit path: top bit, then all ones / all zeros / random below it
                let mut v = num_bigint::BigUint::from(1u8) << (w - 1);
                match variant {
                    0 => v = (num_bigint::BigUint::from(1u8) << *w) - 1u8,
                    1 => {}
                    _ => {
                        for b in 0..(w - 1) {
                            if g.rng.random_bool(0.5) {
                                v.set_bit(b as u64, true);
                            }
                        }
                    }
                }
                let mut bytes = v.to_bytes_be();
                // the spelling with a sign byte (what a positive integer of that width looks like as an atom)
                if (wi + variant) % 4 == 3 && bytes[0] & 0x80 != 0 {
                    bytes.insert(0, 0);
                }
                let p = V::A(bytes);
                let f = |op: u8, x: V| V::list(&[V::A(vec![op]), x]);
                let progs = vec![p.clone(), f(5, p.clone()), f(6, p.clone()), f(5, f(6, p.clone())), f(6, f(5, f(5, p.clone())))];
                for prog in progs {
                    if let Some(env) = g.env_along(&p) {
                        cases.push(json!({"prog": prog.to_json(), "env": env.to_json()}));
                    }
                }
            }
        }
        // zero-padded path atoms inside the quoted body of an apply whose environment is not the whole environment
        // (the optimiser's change of variables, sub_args / path_from_args), each in an environment built along the path
        for bytes in [vec![0u8, 0, 5], vec![0, 0, 0, 1], vec![0, 0, 2], vec![0, 5], vec![0, 0, 0xff], vec![0, 0, 0x7f, 0xff], vec![0, 0, 0, 0, 0, 0, 0, 0, 6]] {
            let p = V::A(bytes);
            let q = |x: V| V::cons(V::A(vec![1]), x);
            let app = |body: V, env: V| V::list(&[V::A(vec![2]), q(body), env]);
            for envexpr in [V::A(vec![3]), V::A(vec![2]), V::A(vec![5]), V::list(&[V::A(vec![4]), V::A(vec![2]), V::A(vec![3])])] {
                let progs = vec![app(p.clone(), envexpr.clone()), app(V::list(&[V::A(vec![4]), p.clone(), q(V::int(1))]), envexpr.clone())];
                for prog in progs {
                    cases.push(json!({"prog": prog.to_json(), "env": g.value(5).to_json()}));
                    // a full binary tree of depth 7 with distinct leaves: every short path resolves
                    fn full(d: usize, k: &mut i64) -> V {
                        if d == 0 {
                            *k += 1;
                            V::int(4000 + *k)
                        } else {
                            let a = full(d - 1, k);
                            let b = full(d - 1, k);
                            V::cons(a, b)
                        }
                    }
                    let mut k = 0;
                    cases.push(json!({"prog": prog.to_json(), "env": full(7, &mut k).to_json()}));
                }
            }
        }
        // change of variables with *data that looks like code*: (a (q . S) ARGS) where ARGS conses quoted constants whose
        // content reads as quote forms, first/rest-of-cons, applies, paths.  After substitution the optimiser holds
        // (q . DATA) forms among the operands and must leave every one of them alone
        {
            let a = |b: u8| V::A(vec![b]);
            let q = |x: V| V::cons(V::A(vec![1]), x);
            let bodies = vec![a(2), a(5), V::list(&[a(4), a(2), a(5)]), V::list(&[a(5), a(2)]), V::list(&[a(4), a(2), q(V::int(7))]), V::list(&[a(7), a(2)]),
                V::list(&[a(4), a(5), a(2)]), V::list(&[a(6), a(2)])];
            let data = vec![
                V::list(&[a(1)]), V::list(&[V::list(&[a(1)])]), V::list(&[a(1), a(2), a(3)]), V::cons(a(1), a(5)),
                V::list(&[a(5), V::list(&[a(4), a(1), a(2)])]), V::list(&[a(6), a(1)]), V::list(&[a(2), V::cons(a(1), a(5)), a(1)]),
                V::list(&[a(1), V::list(&[a(1)])]), V::list(&[V::list(&[a(5), a(1)])]), V::list(&[a(4), V::cons(a(1), a(1)), V::cons(a(1), a(2))]),
                V::list(&[a(3), V::nil(), a(1), a(2)]), V::list(&[V::list(&[a(1), a(2), a(3)]), V::list(&[a(5), a(1)])]),
                V::list(&[V::list(&[a(6), a(3)]), V::list(&[a(5), a(7)])]), V::list(&[a(2), a(2), a(1)]),
            ];
            for body in &bodies {
                for (i, d) in data.iter().enumerate() {
                    let d2 = &data[(i + 5) % data.len()];
                    let argss = vec![
                        V::list(&[a(4), q(d.clone()), a(1)]),
                        V::list(&[a(4), q(d.clone()), V::list(&[a(4), q(d2.clone()), V::nil()])]),
                        V::list(&[a(4), q(d.clone()), q(V::int(7))]),
                        V::list(&[a(4), V::list(&[a(4), q(d.clone()), a(2)]), q(d2.clone())]),
                    ];
                    for args in argss {
                        let prog = V::list(&[a(2), q(body.clone()), args]);
                        cases.push(json!({"prog": prog.to_json(), "env": g.list_env(4).to_json()}));
                    }
                }
            }
        }
        // operators that hand back byte strings which are not the minimal spelling of a number (concat, substr, logical
        // operators on such inputs): 0xff80, 0xffff, 0x0000, 0x007f, 0x00ff .. must come back as they are, directly and
        // through strlen / = / i / sha256 / a second concat
        {
            let a = |b: u8| V::A(vec![b]);
            let q = |x: V| V::cons(V::A(vec![1]), x);
            let parts: Vec<(Vec<u8>, Vec<u8>)> = vec![(vec![0xff], vec![0x80]), (vec![0xff], vec![0xff]), (vec![0xff, 0xff], vec![0x80, 0x01]), (vec![0x00], vec![0x00]), (vec![0x00], vec![0x7f]),
                (vec![0x00], vec![0xff]), (vec![0x00, 0x00], vec![0x01]), (vec![0xff], vec![0x7f]), (vec![0x00], vec![0x80]), (vec![], vec![0x00])];
            for (x, y) in parts {
                let cat = V::list(&[a(14), q(V::A(x.clone())), q(V::A(y.clone()))]);
                let mut whole = x.clone();
                whole.extend(y.clone());
                whole.push(0x05);
                let sub = V::list(&[a(12), q(V::A(whole)), q(V::nil()), q(V::int((x.len() + y.len()) as i64))]);
                for made in [cat, sub] {
                    let uses = vec![
                        made.clone(),
                        V::list(&[a(13), made.clone()]),
                        V::list(&[a(9), made.clone(), q(V::A([x.clone(), y.clone()].concat()))]),
                        V::list(&[a(3), made.clone(), q(V::int(7)), q(V::int(8))]),
                        V::list(&[a(11), made.clone()]),
                        V::list(&[a(14), made.clone(), q(V::A(vec![0x01]))]),
                        V::list(&[a(4), made.clone(), made.clone()]),
                        V::list(&[a(10), made.clone(), q(V::A(vec![0x80]))]),
                    ];
                    for prog in uses {
                        cases.push(json!({"prog": prog.to_json(), "env": V::nil().to_json()}));
                    }
                }
            }
        }
        // operator-in-parentheses forms ((X) A B): X is applied to the operands *as written*.  Operands that read as
        // paths, quotes, applies must survive the optimiser untouched, at the top, inside a cons and inside the quoted
        // body of an apply whose argument expression is not the whole environment
        {
            let a = |b: u8| V::A(vec![b]);
            let q = |x: V| V::cons(V::A(vec![1]), x);
            let operands = vec![a(2), a(5), q(V::int(7)), V::list(&[a(2), q(a(5)), a(1)]), V::list(&[a(5), V::list(&[a(4), a(1), a(2)])]), V::nil()];
            for (op, improper) in [(16u8, false), (4, false), (9, false), (16, true), (4, true)] {
                let head = if improper { V::cons(a(op), V::int(9)) } else { V::list(&[a(op)]) };
                for (i, x) in operands.iter().enumerate() {
                    let y = &operands[(i + 2) % operands.len()];
                    let form = V::list(&[head.clone(), x.clone(), y.clone()]);
                    let progs = vec![
                        form.clone(),
                        V::list(&[a(4), form.clone(), a(1)]),
                        V::list(&[a(2), q(form.clone()), a(1)]),
                        V::list(&[a(2), q(form.clone()), V::list(&[a(4), q(V::int(100)), a(1)])]),
                        V::list(&[a(2), q(V::list(&[a(4), form.clone(), a(2)])), V::list(&[a(4), q(V::int(100)), a(1)])]),
                    ];
                    for prog in progs {
                        cases.push(json!({"prog": prog.to_json(), "env": g.list_env(4).to_json()}));
                    }
                }
            }
        }
        // variadic operators with 1 .. 70 arguments (argument references are built by position)
        for nargs in [1usize, 2, 7, 31, 32, 33, 61, 62, 63, 64, 65, 70] {
            for (op, last) in [(16u8, V::int(3)), (14, V::A(vec![7])), (34, V::nil()), (33, V::int(1)), (24, V::int(5)), (11, V::A(vec![9]))] {
                let mut args: Vec<V> = (0..nargs - 1).map(|i| V::cons(V::A(vec![1]), V::int(1 + (i % 3) as i64))).collect();
                args.push(V::cons(V::A(vec![1]), last.clone()));
                let mut items = vec![V::A(vec![op])];
                items.extend(args);
                cases.push(json!({"prog": V::list(&items).to_json(), "env": V::nil().to_json()}));
                // the same with the arguments taken from the environment
                let mut items2 = vec![V::A(vec![op])];
                let mut path = num_bigint::BigUint::from(2u8);
                for _ in 0..nargs {
                    items2.push(V::A(path.to_bytes_be()));
                    path = (path << 1) | num_bigint::BigUint::from(1u8);
                }
                let envl: Vec<V> = (0..nargs).map(|i| if i + 1 == nargs { last.clone() } else { V::int(1 + (i % 3) as i64) }).collect();
                cases.push(json!({"prog": V::list(&items2).to_json(), "env": V::list(&envl).to_json()}));
            }
        }
        for k in [5usize, 30, 61, 62, 63, 64, 65, 70] {
            let mut e = V::A(vec![1]);
            for _ in 0..k {
                e = V::list(&[V::A(vec![6]), e]);
            }
            let prog = V::list(&[V::A(vec![5]), e]);
            cases.push(json!({"prog": prog.to_json(), "env": g.list_env(k + 3).to_json()}));
        }
    }
    let jobs: Vec<Value> = cases
        .iter()
        .map(|v| json!({"op": "clvm", "prog": v["prog"], "env": v["env"], "opt": true, "spellings": ["int"]}))
        .collect();
    let cfg = PoolCfg { batch: 32, timeout: Duration::from_secs(10), ..PoolCfg::default() };
    let results = run_jobs(jobs, &cfg);
    let mut f = std::io::BufWriter::new(std::fs::File::create(trace).expect("trace file"));
    let mut rep = Report::default();
    for (v, r) in cases.iter().zip(results.iter()) {
        rep.evaluations += 1;
        let progv = V::from_json(&v["prog"]).unwrap();
        let envv = V::from_json(&v["env"]).unwrap();
        let case = json!({"prog": v["prog"], "env": v["env"], "prog_text": progv.show(), "env_text": envv.show()});
        if r.get("abort").is_some() || r.get("timeout").is_some() || r.get("panic").is_some() {
            rep.violation(json!({"property": "C06", "kind": "crash", "case": case, "observed": r}));
            let ev = json!({"prog": v["prog"], "env": v["env"], "cons": ["fuel"], "step": ["abort"], "opt": ["fail"]});
            writeln!(f, "{}", ev).unwrap();
            continue;
        }
        if r.get("cons").is_none() {
            panic!("unexpected worker result {r}");
        }
        let cons = Outcome::from_json(&r["cons"]).unwrap();
        let step = Outcome::from_json(&r["step"]["int"]).unwrap();
        let o = &r["opt"];
        let optj = if o.get("out").is_some() {
            json!(["out", o["out"], Outcome::from_json(&o["res"]).unwrap().to_json()])
        } else {
            json!(["fail"])
        };
        let ev = json!({"prog": v["prog"], "env": v["env"], "cons": cons.to_json(), "step": step.to_json(), "opt": optj});
        writeln!(f, "{}", ev).unwrap();
        rep.count(&format!("consensus_{}", cons.kind()));
        if !matches!(step, Outcome::Fuel) && !matches!(cons, Outcome::Fuel) {
            rep.count("step_compared");
            if !same_class(&step, &cons) {
                rep.violation(json!({"property": "C06", "kind": "stepper-vs-consensus", "spelling": "int",
                    "case": case, "stepper": step.to_json_msg(), "consensus": cons.to_json_msg()}));
            }
        }
        if o.get("changed").and_then(|b| b.as_bool()).unwrap_or(false) {
            rep.count("opt_changed");
        }
        if let Outcome::Ok(want) = &cons {
            rep.nontrivial(&format!("{}|{}", v["prog"], v["env"]));
            if o.get("out").is_none() {
                rep.violation(json!({"property": "C04", "kind": "optimizer-rejects", "case": case,
                    "consensus": cons.to_json(), "observed": o}));
            } else {
                let res = Outcome::from_json(&o["res"]).unwrap();
                if !matches!(&res, Outcome::Ok(got) if got == want) {
                    let outv = V::from_json(&o["out"]).unwrap();
                    rep.violation(json!({"property": "C04", "kind": "optimizer-changes-value", "case": case,
                        "consensus": cons.to_json(), "optimized": o["out"], "optimized_text": outv.show(),
                        "optimized_result": res.to_json_msg()}));
                }
            }
        }
        if cons.is_ok() {
            rep.sample(json!({"case": case, "consensus": cons.to_json(), "stepper": step.to_json(), "optimizer": optj}));
        }
    }
    rep.traces = rep.evaluations;
    rep.write(outp);
}
