// C12, hierarchical (-t) view: HierarchialRunner stepped exactly as cmds.rs::cldb_hierarchy does, one event per
// step() with the projected state (depth, top frame's name / purpose / named arguments, the row if one was
// produced).  Bound to spec/Hierarchy.tla by Trace_Hier (events the model must reproduce) and judged on what C12
// states: termination, the final row against the consensus evaluator, truth of every row, and that every
// function frame hands back what the consensus evaluator computes for (code, argument value).
use crate::pool::{run_jobs, PoolCfg};
use crate::rich::{from_rich, to_rich, Spelling};
use crate::util::{read_tlc_vectors, Report};
use crate::val::{consensus_run, sha256tree, Outcome, CONS_MAX_COST, V};
use chialisp::classic::clvm_tools::stages::stage_0::{DefaultProgramRunner, TRunProgram};
use chialisp::compiler::cldb_hierarchy::{HierarchialRunner, HierarchialStepResult, RunPurpose};
use chialisp::compiler::clvm::RunStep;
use chialisp::compiler::prims::prim_map;
use chialisp::compiler::sexp::parse_sexp;
use chialisp::compiler::srcloc::Srcloc;
use serde_json::{json, Value};
use std::borrow::Borrow;
use std::collections::HashMap;
use std::io::Write;
use std::rc::Rc;
use std::time::Duration;

fn list_items(v: &V) -> Vec<V> {
    let mut out = vec![];
    let mut cur = v.clone();
    while let V::P(a, b) = cur {
        out.push((*a).clone());
        cur = (*b).clone();
    }
    out
}

fn oj(o: &Outcome) -> Value {
    if o.is_ok() {
        o.to_json()
    } else {
        json!([o.kind()])
    }
}

fn subtrees(v: &V, out: &mut HashMap<String, V>) {
    out.entry(hex::encode(sha256tree(v))).or_insert_with(|| v.clone());
    if let V::P(a, b) = v {
        subtrees(a, out);
        subtrees(b, out);
    }
}

/// the symbol table as the model sees it: [code, name, formals, left_env] per hash key whose code occurs in the
/// program or the environment
fn sym_records(symbols: &HashMap<String, String>, prog: &V, env: &V) -> Vec<Value> {
    let mut subs = HashMap::new();
    subtrees(prog, &mut subs);
    subtrees(env, &mut subs);
    let mut out = vec![];
    let mut keys: Vec<&String> = symbols.keys().filter(|k| k.len() == 64 && k.chars().all(|c| c.is_ascii_hexdigit())).collect();
    keys.sort();
    for k in keys {
        if let Some(code) = subs.get(k) {
            let formals = symbols
                .get(&format!("{k}_arguments"))
                .and_then(|t| parse_sexp(Srcloc::start("*args*"), t.bytes()).ok())
                .and_then(|p| p.first().cloned())
                .map(|p| from_rich(p.borrow()))
                // make_relevant_info: a missing entry becomes the atom "<hash>_arguments"
                .unwrap_or_else(|| V::A(format!("{k}_arguments").into_bytes()));
            let left = symbols
                .get(&format!("{k}_left_env"))
                .and_then(|t| parse_sexp(Srcloc::start("*le*"), t.bytes()).ok())
                .and_then(|p| p.first().cloned())
                .map(|p| from_rich(p.borrow()) != V::nil())
                .unwrap_or(false);
            out.push(json!({"code": code.to_json(), "name": symbols[k], "formals": formals.to_json(), "left": left}));
        }
    }
    out
}

/// job: {prog, env, symbols: {..}, limit?}  ->  {events: [...], end: "ended"|"limit"|"error", cons}
pub fn op_hier(job: &Value) -> Value {
    let prog = V::from_json(&job["prog"]).unwrap();
    let env = V::from_json(&job["env"]).unwrap();
    let symbols: HashMap<String, String> = job["symbols"].as_object().map(|o| o.iter().map(|(k, v)| (k.clone(), v.as_str().unwrap_or("").to_string())).collect()).unwrap_or_default();
    let limit = job.get("limit").and_then(|l| l.as_u64()).unwrap_or(4000) as usize;
    let runner: Rc<dyn TRunProgram> = Rc::new(DefaultProgramRunner::new());
    let mut hr = HierarchialRunner::new(
        runner,
        prim_map(),
        None,
        Rc::new(vec![]),
        Rc::new(symbols.clone()),
        to_rich(&prog, Spelling::Int),
        to_rich(&env, Spelling::Int),
    );
    let mut events: Vec<Value> = vec![];
    let mut pending: Option<(V, V)> = None;
    let mut steps = 0usize;
    let mut none_run = 0u64;
    let mut end = "ended";
    // frames for which a return is expected: (depth of the ComputeArgument frame, code, argument value)
    let mut calls: Vec<(usize, V, V)> = vec![];
    let top_of = |hr: &HierarchialRunner| -> (usize, String, &'static str) {
        let d = hr.running.len();
        if d == 0 {
            (0, String::new(), "")
        } else {
            let f = &hr.running[d - 1];
            (d, f.function_name.clone(), if matches!(f.purpose, RunPurpose::Main) { "main" } else { "arg" })
        }
    };
    let flush = |events: &mut Vec<Value>, none_run: &mut u64| {
        if *none_run > 0 {
            events.push(json!({"k": "none", "n": *none_run}));
            *none_run = 0;
        }
    };
    loop {
        if hr.is_ended() {
            break;
        }
        steps += 1;
        if steps > limit {
            end = "limit";
            break;
        }
        let depth_before = hr.running.len();
        let top_final = hr.running.last().and_then(|f| f.run.final_result()).map(|v| from_rich(v.borrow()));
        let top_pur_before = top_of(&hr).2;
        let res = hr.step();
        let (d, name, pur) = top_of(&hr);
        match res {
            Ok(HierarchialStepResult::ShapeChange) => {
                flush(&mut events, &mut none_run);
                pending = None;
                if d > depth_before {
                    // a call: the new top frame runs the function's code on the argument value
                    let f = &hr.running[d - 1];
                    let code = from_rich(f.prog.borrow());
                    let argv = from_rich(f.env.borrow());
                    let mut nargs: Vec<(String, V)> = f.named_args.iter().map(|(k, v)| (k.clone(), from_rich(v.borrow()))).collect();
                    nargs.sort_by(|a, b| a.0.cmp(&b.0));
                    let holder = &hr.running[d - 2];
                    calls.push((d, code.clone(), argv.clone()));
                    events.push(json!({"k": "call", "d": d, "name": name, "pur": pur, "code": code.to_json(), "argv": argv.to_json(),
                        "holder": {"name": holder.function_name, "pur": if matches!(holder.purpose, RunPurpose::Main) { "main" } else { "arg" }},
                        "nargs": nargs.iter().map(|(k, v)| json!([k.as_bytes(), v.to_json()])).collect::<Vec<_>>()}));
                } else {
                    let value = top_final.clone().unwrap_or_else(V::nil);
                    let mut ev = json!({"k": "return", "d": d, "name": name, "pur": pur, "from": top_pur_before, "value": value.to_json()});
                    if let Some((cd, code, argv)) = calls.last().cloned() {
                        if cd == depth_before && top_pur_before == "arg" {
                            calls.pop();
                            let c = consensus_run(&code, &argv, CONS_MAX_COST);
                            ev["cons"] = oj(&c);
                        }
                    }
                    events.push(ev);
                }
            }
            Ok(HierarchialStepResult::Info(Some(r))) => {
                flush(&mut events, &mut none_run);
                let f = &hr.running[d - 1];
                let cur = f.run.current_step();
                let mut jr = serde_json::Map::new();
                for (k, v) in r.iter() {
                    if !k.ends_with("-Location") {
                        jr.insert(k.clone(), json!(v));
                    }
                }
                let mut ev = json!({"k": "info", "d": d, "name": name, "pur": pur});
                let mut nargs: Vec<(String, V)> = f.named_args.iter().map(|(k, v)| (k.clone(), from_rich(v.borrow()))).collect();
                nargs.sort_by(|a, b| a.0.cmp(&b.0));
                ev["nargs"] = json!(nargs.iter().map(|(k, v)| json!([k.as_bytes(), v.to_json()])).collect::<Vec<_>>());
                let mut has = false;
                if r.contains_key("Value") {
                    ev["kind"] = json!("row");
                    if let RunStep::OpResult(_, x, _) = &cur {
                        ev["value"] = from_rich(x.borrow()).to_json();
                        if let Some((op, args)) = &pending {
                            has = true;
                            ev["op"] = op.to_json();
                            ev["args"] = json!(list_items(args).iter().map(|a| a.to_json()).collect::<Vec<_>>());
                            let quoted: Vec<V> = list_items(args).iter().map(|a| V::cons(V::A(vec![1]), a.clone())).collect();
                            let call = V::cons(op.clone(), V::list(&quoted));
                            ev["cons"] = oj(&consensus_run(&call, &V::nil(), CONS_MAX_COST));
                        }
                    }
                } else if r.contains_key("Final") {
                    ev["kind"] = json!("final");
                    if let Some(fv) = f.run.final_result() {
                        ev["value"] = from_rich(fv.borrow()).to_json();
                    }
                } else if r.contains_key("Failure") || r.contains_key("Throw") {
                    ev["kind"] = json!("failure");
                } else {
                    ev["kind"] = json!("other");
                }
                ev["has"] = json!(has);
                ev["row"] = json!(r.get("Row").and_then(|x| x.parse::<i64>().ok()).unwrap_or(-1));
                for k in ["op", "value"] {
                    if ev.get(k).is_none() {
                        ev[k] = json!(["a", []]);
                    }
                }
                if ev.get("args").is_none() {
                    ev["args"] = json!([]);
                }
                if ev.get("cons").is_none() {
                    ev["cons"] = json!(["none"]);
                }
                events.push(ev);
            }
            Ok(HierarchialStepResult::Info(None)) => {
                none_run += 1;
                if d > 0 {
                    if let RunStep::Op(head, _c, args, None, _) = &hr.running[d - 1].run.current_step() {
                        pending = Some((from_rich(head.borrow()), from_rich(args.borrow())));
                    }
                }
            }
            Ok(HierarchialStepResult::Done(_)) => {
                flush(&mut events, &mut none_run);
                events.push(json!({"k": "done", "d": d}));
            }
            Err(e) => {
                flush(&mut events, &mut none_run);
                events.push(json!({"k": "error", "d": d, "msg": format!("{e:?}").chars().take(120).collect::<String>()}));
                end = "error";
                break;
            }
        }
    }
    if none_run > 0 {
        events.push(json!({"k": "none", "n": none_run}));
    }
    let cons = consensus_run(&prog, &env, CONS_MAX_COST);
    // the flat debugger on the same program: how many steps a run without frames takes
    let flat_steps = {
        use chialisp::compiler::cldb::{CldbNoOverride, CldbRun, CldbRunEnv};
        let mut allocator = clvmr::allocator::Allocator::new();
        let cenv = CldbRunEnv::new(None, Rc::new(vec![]), Box::new(CldbNoOverride::new()));
        let runner: Rc<dyn TRunProgram> = Rc::new(DefaultProgramRunner::new());
        let mut run = CldbRun::new(runner, prim_map(), Box::new(cenv), chialisp::compiler::clvm::start_step(to_rich(&prog, Spelling::Int), to_rich(&env, Spelling::Int)));
        let mut n = 0usize;
        while !run.is_ended() && n < 4 * limit {
            run.step(&mut allocator);
            n += 1;
        }
        n
    };
    let main_formals = symbols
        .get("__chia__main_arguments")
        .and_then(|t| parse_sexp(Srcloc::start("*args*"), t.bytes()).ok())
        .and_then(|p| p.first().cloned())
        .map(|p| from_rich(p.borrow()))
        .unwrap_or_else(V::nil);
    let main_name = format!("clvm_program_{}", hex::encode(sha256tree(&prog)));
    json!({"events": events, "end": end, "steps": steps, "limit": limit, "flat_steps": flat_steps, "cons": oj(&cons),
        "main": {"name": main_name, "formals": main_formals.to_json()}, "syms": sym_records(&symbols, &prog, &env)})
}

fn write_cases(cases: Vec<(V, V, HashMap<String, String>, String)>, trace: &str, outp: &str, limit: usize) {
    let jobs: Vec<Value> = cases.iter().map(|(p, e, s, _)| json!({"op": "hier", "prog": p.to_json(), "env": e.to_json(), "symbols": s, "limit": limit})).collect();
    let cfg = PoolCfg { batch: 8, timeout: Duration::from_secs(30), ..PoolCfg::default() };
    let results = run_jobs(jobs, &cfg);
    let mut rep = Report::default();
    let mut f = std::io::BufWriter::new(std::fs::File::create(trace).expect("trace"));
    for ((p, e, syms_in, family), r) in cases.iter().zip(results.iter()) {
        rep.evaluations += 1;
        let case = json!({"prog": p.to_json(), "env": e.to_json(), "prog_text": p.show(), "env_text": e.show(), "family": family});
        if r.get("events").is_none() {
            // a panic, an abort or a time-out of the hierarchical runner itself
            rep.violation(json!({"property": "C12", "kind": "hierarchy-crashed", "case": case, "observed": r}));
            continue;
        }
        rep.traces += 1;
        rep.nontrivial(&format!("{}|{}|{}", p.show(), e.show(), r["syms"]));
        let ncalls = r["events"].as_array().unwrap().iter().filter(|x| x["k"] == "call").count();
        rep.count_n("function_frames", ncalls as u64);
        if ncalls > 0 {
            rep.count("runs_with_function_frames");
        }
        writeln!(f, "{}", json!({"prog": p.to_json(), "env": e.to_json(), "cons": r["cons"], "syms": r["syms"], "events": r["events"],
            "end": r["end"], "limit": r["limit"], "flat_steps": r["flat_steps"], "main": r["main"], "family": family, "symbols": syms_in})).unwrap();
        if rep.samples.len() < 2 && ncalls > 0 {
            rep.sample(json!({"case": case, "events": r["events"], "consensus": r["cons"]}));
        }
    }
    rep.write(outp);
}

/// R: the (term, environment) pairs TLC enumerated for MC_HierGen, under the symbol tables of that module
pub fn replay(args: &HashMap<String, String>) {
    let vectors = if args.contains_key("ndjson") { crate::util::read_ndjson(args.get("in").unwrap()) } else { read_tlc_vectors(args.get("in").expect("--in"), "H") };
    let mut cases = vec![];
    let every: usize = args.get("every").map(|s| s.parse().unwrap()).unwrap_or(1);
    for (i, v) in vectors.iter().enumerate() {
        let p = V::from_json(&v["prog"]).unwrap();
        let e = V::from_json(&v["env"]).unwrap();
        if let Some(s) = v.get("symbols").and_then(|s| s.as_object()) {
            // a replay file: the symbol table is given
            let m = s.iter().map(|(k, v)| (k.clone(), v.as_str().unwrap_or("").to_string())).collect();
            cases.push((p, e, m, "replay".to_string()));
            continue;
        }
        // sampling: vectors in which the model sees a function frame are kept ten times as often
        let has_calls = v["calls"].as_u64().unwrap_or(0) > 0;
        if (has_calls && i % every.div_ceil(10) != 0) || (!has_calls && i % every != 0) {
            continue;
        }
        // the tables of MC_HierGen: every pair of the program (quoted constants are programs there) and of the
        // environment, and the atoms 1 and 2, registered as functions of (X . Y)
        let mut subs = HashMap::new();
        subtrees(&p, &mut subs);
        subtrees(&e, &mut subs);
        for (left, atoms_only) in [(false, false), (true, false), (false, true)] {
            let mut m = HashMap::new();
            for (h, c) in subs.iter() {
                let is_small_atom = matches!(c, V::A(b) if b.len() == 1 && (b[0] == 1 || b[0] == 2));
                if (atoms_only && is_small_atom) || (!atoms_only && (!c.is_atom() || is_small_atom)) {
                    m.insert(h.clone(), if atoms_only { "fa".to_string() } else { "fn".to_string() });
                    m.insert(format!("{h}_arguments"), "(X . Y)".to_string());
                    m.insert(format!("{h}_left_env"), if left { "1".to_string() } else { "0".to_string() });
                }
            }
            cases.push((p.clone(), e.clone(), m, "replay".to_string()));
        }
        cases.push((p, e, HashMap::new(), "replay".to_string()));
    }
    write_cases(cases, args.get("trace").expect("--trace"), args.get("out").expect("--out"), 4000);
}

/// T: compiled generated programs with the symbol tables the compiler reports
pub fn drive(args: &HashMap<String, String>) {
    use crate::gen::{Gen, GenOpts};
    use rand::SeedableRng;
    let n: usize = args.get("n").map(|s| s.parse().unwrap()).unwrap_or(60);
    let seed = crate::util::seed_from_env() ^ 0xC12_7;
    let mut o = GenOpts::core();
    o.max_helpers = 4;
    o.depth = 2;
    let mut pg = Gen::new(rand_chacha::ChaCha8Rng::seed_from_u64(seed), o);
    let builds = ["cl21", "cl23", "classic", "cl24", "cl21+O", "cl231"];
    let mut progs = vec![];
    let mut jobs = vec![];
    for i in 0..n {
        let p = pg.program();
        let b = builds[i % builds.len()];
        if !crate::p_compile::renderable(&p, b) {
            continue;
        }
        jobs.push(json!({"op": "compile", "text": p.render(crate::p_compile::sigil_of(b)), "optimize": b.ends_with("+O"), "symbols": true}));
        let envs = pg.args_for(&p, 2);
        progs.push((p, envs, b));
    }
    let rs = run_jobs(jobs, &PoolCfg { batch: 1, timeout: Duration::from_secs(60), ..PoolCfg::default() });
    let mut cases = vec![];
    for ((_p, envs, b), r) in progs.iter().zip(rs.iter()) {
        if let Some(code) = r.get("ok").and_then(|j| V::from_json(j).ok()) {
            let syms: HashMap<String, String> = r["symbols"].as_object().map(|o| o.iter().map(|(k, v)| (k.clone(), v.as_str().unwrap_or("").to_string())).collect()).unwrap_or_default();
            if code.size() > 600 {
                continue;
            }
            for e in envs {
                cases.push((code.clone(), e.clone(), syms.clone(), format!("compiled-{b}")));
            }
        }
    }
    // hand-made shapes around the call detection: an apply of a registered function with a surplus argument, with an
    // improper argument list, with the function in the environment, nested calls, a failing function
    {
        let q = |v: V| V::cons(V::A(vec![1]), v);
        let op = |o: u8, a: Vec<V>| V::cons(V::A(vec![o]), V::list(&a));
        let fbodies = [op(16, vec![V::A(vec![2]), q(V::int(1))]), op(5, vec![V::A(vec![1])]), op(8, vec![]), V::A(vec![2]),
            op(4, vec![V::A(vec![2]), V::A(vec![3])])];
        for fb in fbodies.iter() {
            let mut m = HashMap::new();
            let h = hex::encode(sha256tree(fb));
            m.insert(h.clone(), "fun".to_string());
            m.insert(format!("{h}_arguments"), "(A B)".to_string());
            m.insert(format!("{h}_left_env"), "0".to_string());
            let argl = op(4, vec![V::A(vec![2]), op(4, vec![V::A(vec![5]), q(V::nil())])]);
            let shapes = vec![
                op(2, vec![q(fb.clone()), V::A(vec![1])]),
                op(2, vec![q(fb.clone()), argl.clone()]),
                op(2, vec![q(fb.clone()), V::A(vec![1]), q(V::int(9))]),
                V::cons(V::A(vec![2]), V::cons(q(fb.clone()), V::cons(V::A(vec![1]), V::A(vec![1])))),
                op(16, vec![op(2, vec![q(fb.clone()), V::A(vec![1])]), op(2, vec![q(fb.clone()), argl.clone()])]),
                op(2, vec![q(fb.clone()), op(4, vec![op(2, vec![q(fb.clone()), V::A(vec![1])]), V::A(vec![1])])]),
                op(3, vec![V::A(vec![2]), op(2, vec![q(fb.clone()), V::A(vec![1])]), q(V::int(3))]),
                op(2, vec![V::A(vec![2]), V::A(vec![3])]),
            ];
            for s in shapes {
                for e in [V::list(&[V::int(5), V::int(7)]), V::cons(fb.clone(), V::list(&[V::int(5), V::int(7)])), V::nil(), V::int(3)] {
                    cases.push((s.clone(), e, m.clone(), "shapes".to_string()));
                }
            }
        }
    }
    write_cases(cases, args.get("trace").expect("--trace"), args.get("out").expect("--out"), 6000);
}
