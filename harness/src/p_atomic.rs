// C19: the compiled output file is replaced atomically.
// Drives the real gentle_overwrite / compile_clvm in child processes with crash points
// (hook based and syscall based through strace), concurrent writers and readers, and
// writes a trace for Trace_AtomicWrite.tla.
use crate::util::Report;
use serde_json::{json, Value};
use std::collections::HashMap;
use std::io::Write;
use std::os::unix::process::CommandExt;
use std::path::{Path, PathBuf};
use std::process::{Command, Stdio};

pub const LABELS: [&str; 6] = [
    "gentle.start",
    "gentle.read_prev",
    "atomic.start",
    "atomic.temp_created",
    "atomic.written",
    "atomic.persisted",
];

fn content(id: &str, size: usize) -> String {
    // hex-looking text, distinct per id, ends with newline like compiled output
    let mut s = String::with_capacity(size + 16);
    let unit = format!("{:0>8}", id.bytes().fold(7u32, |a, b| a.wrapping_mul(31).wrapping_add(b as u32)));
    while s.len() < size {
        s.push_str(&unit);
    }
    s.push_str(id);
    s.push('\n');
    s
}

/// child: perform one write of the output file
pub fn child(args: &HashMap<String, String>) {
    let mode = args.get("mode").map(|s| s.as_str()).unwrap_or("gentle");
    let target = args.get("target").expect("--target");
    let r = if mode == "compile" {
        let input = args.get("input").expect("--input");
        let mut syms = HashMap::new();
        chialisp::classic::clvm_tools::clvmc::compile_clvm(input, target, &[], &mut syms).map(|_| ())
    } else {
        let id = args.get("content").expect("--content");
        let size: usize = args.get("size").map(|s| s.parse().unwrap()).unwrap_or(1000);
        chialisp::util::gentle_overwrite("input.clsp", target, &content(id, size))
    };
    match r {
        Ok(()) => std::process::exit(0),
        Err(e) => {
            eprintln!("{e}");
            std::process::exit(3)
        }
    }
}

struct Scn {
    dir: PathBuf,
    target: PathBuf,
}

fn setup(base: &Path, name: &str, kind: &str, size: usize) -> Scn {
    let dir = base.join(name);
    let _ = std::fs::remove_dir_all(&dir);
    std::fs::create_dir_all(&dir).unwrap();
    let target = dir.join("out.hex");
    if kind != "absent" {
        std::fs::write(&target, content("old", size)).unwrap();
    }
    use std::os::unix::fs::PermissionsExt;
    std::fs::set_permissions(&dir, std::fs::Permissions::from_mode(if kind.starts_with("readonly") { 0o755 } else { 0o777 })).unwrap();
    Scn { dir, target }
}

fn classify(target: &Path, size: usize, ids: &[String]) -> String {
    match std::fs::read_to_string(target) {
        Err(e) if e.kind() == std::io::ErrorKind::NotFound => "absent".to_string(),
        Err(_) => "unreadable".to_string(),
        Ok(s) => {
            if s == content("old", size) {
                return "old".to_string();
            }
            for id in ids {
                if s == content(id, size) {
                    return format!("new:{id}");
                }
            }
            if s.is_empty() {
                "empty".to_string()
            } else {
                "partial".to_string()
            }
        }
    }
}

fn tmp_left(dir: &Path) -> usize {
    std::fs::read_dir(dir).map(|d| d.filter(|e| e.as_ref().map(|e| e.file_name() != "out.hex" && e.file_name() != "in.clsp").unwrap_or(false)).count()).unwrap_or(0)
}

/// can every user reach this path (every ancestor directory searchable by others)?
fn reachable_by_everyone(p: &Path) -> bool {
    use std::os::unix::fs::PermissionsExt;
    p.ancestors().skip(1).all(|d| d.as_os_str().is_empty() || std::fs::metadata(d).map(|m| m.permissions().mode() & 0o001 != 0).unwrap_or(false))
}

thread_local! {
    // the harness binary as the unprivileged child can execute it (a copy under the scratch area when the build
    // directory lies below a directory closed to other users)
    static CHILD_EXE: std::cell::RefCell<Option<PathBuf>> = const { std::cell::RefCell::new(None) };
}

fn child_exe() -> PathBuf {
    CHILD_EXE.with(|c| c.borrow().clone()).unwrap_or_else(|| std::env::current_exe().unwrap())
}

fn child_cmd(target: &Path, id: &str, size: usize, unprivileged: bool) -> Command {
    let mut c = Command::new(child_exe());
    c.args(["c19-child", "--mode", "gentle", "--target", target.to_str().unwrap(), "--content", id, "--size", &size.to_string()]);
    c.stdout(Stdio::null()).stderr(Stdio::null());
    if unprivileged {
        c.uid(65534).gid(65534);
    }
    c
}

fn read_labels(trace_file: &Path) -> Vec<String> {
    std::fs::read_to_string(trace_file)
        .map(|s| s.lines().filter_map(|l| l.split(' ').nth(2).map(|x| x.to_string())).collect())
        .unwrap_or_default()
}

/// the decision, shared by all scenarios: P on the observed final state
fn intact(kind: &str, fin: &str) -> bool {
    fin == "old" && kind != "absent" || fin.starts_with("new:") || (fin == "absent" && kind == "absent")
}

pub fn drive(args: &HashMap<String, String>) {
    let trace = args.get("trace").expect("--trace");
    let outp = args.get("out").expect("--out");
    let thorough = args.contains_key("thorough");
    let mut base = PathBuf::from(args.get("scratch").expect("--scratch"));
    // the read-only scenarios run the writer as another user: scratch area and binary must be reachable for it
    let mut _public: Option<tempfile::TempDir> = None;
    if !reachable_by_everyone(&base.join("x")) || !reachable_by_everyone(&std::env::current_exe().unwrap()) {
        use std::os::unix::fs::PermissionsExt;
        let t = tempfile::Builder::new().prefix("vh_c19_").tempdir().expect("temp dir");
        std::fs::set_permissions(t.path(), std::fs::Permissions::from_mode(0o755)).unwrap();
        let exe = t.path().join("vh");
        std::fs::copy(std::env::current_exe().unwrap(), &exe).expect("copy harness binary");
        CHILD_EXE.with(|c| *c.borrow_mut() = Some(exe));
        base = t.path().join("scratch");
        _public = Some(t);
    }
    let _ = std::fs::remove_dir_all(&base);
    std::fs::create_dir_all(&base).unwrap();
    {
        use std::os::unix::fs::PermissionsExt;
        std::fs::set_permissions(&base, std::fs::Permissions::from_mode(0o755)).unwrap();
    }
    let mut f = std::io::BufWriter::new(std::fs::File::create(trace).expect("trace"));
    let mut rep = Report::default();
    let size = 200_000usize;
    let kinds = ["absent", "same", "different", "readonly", "readonly_same"];

    // A. hook crash points ------------------------------------------------------------
    for kind in kinds {
        let mut points: Vec<Option<&str>> = LABELS.iter().map(|l| Some(*l)).collect();
        points.push(None);
        for point in points {
            let name = format!("hook_{kind}_{}", point.unwrap_or("none").replace('.', "_"));
            let scn = setup(&base, &name, kind, size);
            let id = if kind == "same" || kind == "readonly_same" { "old" } else { "w1" };
            let tf = base.join(format!("{name}.trace"));
            let _ = std::fs::remove_file(&tf);
            let mut c = child_cmd(&scn.target, id, size, kind.starts_with("readonly"));
            // the trace file must be writable by the unprivileged child
            std::fs::write(&tf, "").unwrap();
            {
                use std::os::unix::fs::PermissionsExt;
                std::fs::set_permissions(&tf, std::fs::Permissions::from_mode(0o666)).unwrap();
            }
            c.env("VERIF_TRACE_FILE", &tf);
            if let Some(p) = point {
                c.env("VERIF_CRASH_AT", p);
            }
            let st = c.status().expect("spawn child");
            let labels = read_labels(&tf);
            let fin = classify(&scn.target, size, &["w1".to_string()]);
            let result = match st.code() {
                Some(0) => "ok",
                Some(3) => "err",
                _ => "killed",
            };
            rep.evaluations += 1;
            rep.nontrivial(&name);
            let ev = json!({"ev": "Hook", "kind": kind, "crash_at": point.unwrap_or(""), "labels": labels, "result": result,
                "final": fin, "tmp_left": tmp_left(&scn.dir)});
            writeln!(f, "{ev}").unwrap();
            rep.traces += 1;
            let mut ok = intact(kind, &fin);
            // equal contents must succeed even when the file cannot be rewritten
            if point.is_none() && (kind == "same" || kind == "readonly_same") && result != "ok" {
                ok = false;
            }
            // a crash point that was never reached is a hole in the enumeration (hook removed/misplaced): tool-level check in python
            if !ok {
                rep.violation(json!({"property": "C19", "kind": "crash-point", "scenario": ev}));
            }
            if rep.samples.len() < 3 {
                rep.sample(ev);
            }
        }
    }

    // B + C. syscall level: record the clean syscall sequence, then kill before each syscall in turn
    let strace_ok = Command::new("strace").arg("-V").stdout(Stdio::null()).stderr(Stdio::null()).status().map(|s| s.success()).unwrap_or(false);
    rep.count_n("strace_available", strace_ok as u64);
    if strace_ok {
        let set = "openat,open,creat,write,pwrite64,writev,rename,renameat,renameat2,unlink,unlinkat,truncate,ftruncate,link,linkat,fsync,fdatasync,chmod,fchmod";
        for kind in ["absent", "same", "different"] {
            let name = format!("sys_{kind}_clean");
            let scn = setup(&base, &name, kind, size);
            let id = if kind == "same" { "old" } else { "w1" };
            let log = base.join(format!("{name}.strace"));
            let mut c = Command::new("strace");
            c.args(["-f", "-o", log.to_str().unwrap(), "-e", &format!("trace={set}")]);
            c.arg(child_exe());
            c.args(["c19-child", "--mode", "gentle", "--target", scn.target.to_str().unwrap(), "--content", id, "--size", &size.to_string()]);
            c.stdout(Stdio::null()).stderr(Stdio::null());
            let _ = c.status();
            let calls = parse_strace(&log, &scn);
            let fin = classify(&scn.target, size, &["w1".to_string()]);
            writeln!(f, "{}", json!({"ev": "Sys", "kind": kind, "calls": calls, "final": fin})).unwrap();
            rep.traces += 1;
            rep.evaluations += 1;
            let mutates = calls.iter().any(|c| c == "mutate_T");
            if mutates || !intact(kind, &fin) {
                rep.violation(json!({"property": "C19", "kind": "syscall-sequence", "init": kind, "calls": calls, "final": fin}));
            }
            // number of traced syscalls in the whole run (not only those on the scenario directory)
            let total = std::fs::read_to_string(&log).map(|s| s.lines().filter(|l| l.contains('(') && !l.contains("+++") && !l.contains("---")).count()).unwrap_or(0);
            let ks: Vec<usize> = if thorough { (1..=total).collect() } else { (1..=total).rev().take(14).collect() };
            for k in ks {
                let name = format!("sys_{kind}_{k}");
                let scn = setup(&base, &name, kind, size);
                let mut c = Command::new("strace");
                c.args(["-f", "-o", "/dev/null", "-e", &format!("trace={set}"), "-e", &format!("inject={set}:signal=SIGKILL:when={k}")]);
                c.arg(child_exe());
                c.args(["c19-child", "--mode", "gentle", "--target", scn.target.to_str().unwrap(), "--content", id, "--size", &size.to_string()]);
                c.stdout(Stdio::null()).stderr(Stdio::null());
                let st = c.status().expect("strace run");
                let fin = classify(&scn.target, size, &["w1".to_string()]);
                rep.evaluations += 1;
                rep.nontrivial(&name);
                let ev = json!({"ev": "SysKill", "kind": kind, "k": k, "of": total, "exit": st.code().unwrap_or(-1), "final": fin, "tmp_left": tmp_left(&scn.dir)});
                writeln!(f, "{ev}").unwrap();
                rep.traces += 1;
                if !intact(kind, &fin) {
                    rep.violation(json!({"property": "C19", "kind": "syscall-crash-point", "scenario": ev}));
                }
                let _ = std::fs::remove_dir_all(&scn.dir);
            }
        }
    }

    // D. concurrent writers and readers ------------------------------------------------
    let rounds = if thorough { 40 } else { 6 };
    for round in 0..rounds {
        let nw = 1 + (round % 8);
        let kind = ["different", "absent", "same"][round % 3];
        let name = format!("conc_{round}");
        let scn = setup(&base, &name, kind, size);
        let ids: Vec<String> = (0..nw).map(|i| if kind == "same" && i == 0 { "old".to_string() } else { format!("w{i}") }).collect();
        let stop = std::sync::Arc::new(std::sync::atomic::AtomicBool::new(false));
        let mut readers = vec![];
        for _ in 0..3 {
            let stop = stop.clone();
            let target = scn.target.clone();
            let ids = ids.clone();
            readers.push(std::thread::spawn(move || {
                let mut seen: Vec<String> = vec![];
                while !stop.load(std::sync::atomic::Ordering::SeqCst) {
                    let c = classify(&target, size, &ids);
                    if !seen.contains(&c) {
                        seen.push(c);
                    }
                }
                seen
            }));
        }
        let mut kids = vec![];
        for _rep in 0..3 {
            for id in &ids {
                kids.push(child_cmd(&scn.target, id, size, false).spawn().expect("spawn writer"));
            }
        }
        let mut results = vec![];
        for mut k in kids {
            results.push(k.wait().map(|s| s.code().unwrap_or(-1)).unwrap_or(-1));
        }
        stop.store(true, std::sync::atomic::Ordering::SeqCst);
        let mut obs: Vec<String> = vec![];
        for r in readers {
            for o in r.join().unwrap() {
                if !obs.contains(&o) {
                    obs.push(o);
                }
            }
        }
        let fin = classify(&scn.target, size, &ids);
        rep.evaluations += 1;
        rep.nontrivial(&name);
        let ev = json!({"ev": "Conc", "kind": kind, "writers": nw, "observations": obs, "final": fin, "exit_codes": results, "tmp_left": tmp_left(&scn.dir)});
        writeln!(f, "{ev}").unwrap();
        rep.traces += 1;
        let bad_obs = obs.iter().any(|o| !(o == "old" || o.starts_with("new:") || (o == "absent" && kind == "absent")));
        if bad_obs || !intact(kind, &fin) || results.iter().any(|c| *c != 0) {
            rep.violation(json!({"property": "C19", "kind": "concurrent", "scenario": ev}));
        }
        let _ = std::fs::remove_dir_all(&scn.dir);
    }

    // E. the real file-to-file entry point (compile_clvm) with hook crash points
    for point in LABELS.iter().map(|l| Some(*l)).chain(std::iter::once(None)) {
        let name = format!("compile_{}", point.unwrap_or("none").replace('.', "_"));
        let scn = setup(&base, &name, "different", 1000);
        let input = scn.dir.join("in.clsp");
        std::fs::write(&input, "(mod (X) (+ X 1))").unwrap();
        // compile_clvm skips the write when the output is newer than the input: age the output
        let old_time = std::time::SystemTime::now() - std::time::Duration::from_secs(3600);
        let _ = std::fs::File::options().write(true).open(&scn.target).and_then(|fh| fh.set_modified(old_time));
        let mut c = Command::new(child_exe());
        c.args(["c19-child", "--mode", "compile", "--target", scn.target.to_str().unwrap(), "--input", input.to_str().unwrap()]);
        c.stdout(Stdio::null()).stderr(Stdio::null());
        if let Some(p) = point {
            c.env("VERIF_CRASH_AT", p);
        }
        let st = c.status().expect("spawn");
        let got = std::fs::read_to_string(&scn.target).unwrap_or_default();
        let fin = if got == content("old", 1000) { "old" } else if got == "ff10ff02ffff010180\n" { "new:compiled" } else if got.is_empty() { "empty" } else { "partial" };
        rep.evaluations += 1;
        rep.nontrivial(&name);
        let ev = json!({"ev": "Compile", "crash_at": point.unwrap_or(""), "exit": st.code().unwrap_or(-1), "final": fin, "content_head": got.chars().take(40).collect::<String>()});
        writeln!(f, "{ev}").unwrap();
        rep.traces += 1;
        let want_new = point.is_none() || point == Some("atomic.persisted");
        if !(fin == "old" || fin == "new:compiled") || (want_new && fin != "new:compiled") {
            rep.violation(json!({"property": "C19", "kind": "compile-entry-point", "scenario": ev}));
        }
    }
    // F. faults of the environment short of a crash: a file size limit (RLIMIT_FSIZE with SIGXFSZ ignored, the same
    // errno path as a full disk or an exhausted quota) stops the staged write part way.  The new contents are larger
    // than the limit, so no complete new output can be written by any route; whatever the caller does about the error,
    // the output path must still hold its complete previous contents (AtomicWrite!WriteFails, OnError = "report")
    for mode in ["compile", "gentle"] {
        for kind in ["different", "same", "absent"] {
            let name = format!("fault_{mode}_{kind}");
            let scn = setup(&base, &name, if kind == "same" { "different" } else { kind }, 1000);
            let input = scn.dir.join("in.clsp");
            let big = "a".repeat(3000);
            std::fs::write(&input, format!("(mod (X) (c \"{big}\" X))")).unwrap();
            let child_args: Vec<String> = if mode == "compile" {
                vec!["c19-child".into(), "--mode".into(), "compile".into(), "--target".into(), scn.target.to_str().unwrap().into(), "--input".into(), input.to_str().unwrap().into()]
            } else {
                vec!["c19-child".into(), "--mode".into(), "gentle".into(), "--target".into(), scn.target.to_str().unwrap().into(), "--content".into(),
                    if kind == "same" { "old".into() } else { "w1".into() }, "--size".into(), "6000".into()]
            };
            let mut expect_old = if kind == "absent" { None } else { Some(content("old", 1000)) };
            if kind == "same" {
                // the previous contents are what this very write produces: written once without a limit
                let _ = std::fs::remove_file(&scn.target);
                if mode == "compile" {
                    let st = Command::new(child_exe()).args(&child_args).stdout(Stdio::null()).stderr(Stdio::null()).status().expect("spawn");
                    if !st.success() {
                        rep.violation(json!({"property": "C19", "kind": "fault-scenario-setup", "scenario": name}));
                        continue;
                    }
                } else {
                    std::fs::write(&scn.target, content("old", 6000)).unwrap();
                }
                expect_old = std::fs::read_to_string(&scn.target).ok();
            }
            if mode == "compile" && kind != "absent" {
                let old_time = std::time::SystemTime::now() - std::time::Duration::from_secs(3600);
                let _ = std::fs::File::options().write(true).open(&scn.target).and_then(|fh| fh.set_modified(old_time));
            }
            let quoted: Vec<String> = std::iter::once(child_exe().to_str().unwrap().to_string()).chain(child_args.iter().cloned()).map(|a| format!("'{}'", a.replace('\'', "'\\''"))).collect();
            let script = format!("trap '' XFSZ; ulimit -f 1; exec {}", quoted.join(" "));
            let st = Command::new("sh").arg("-c").arg(&script).stdout(Stdio::null()).stderr(Stdio::null()).status().expect("spawn sh");
            let got = std::fs::read_to_string(&scn.target).ok();
            let fin = match (&got, &expect_old) {
                (None, _) => "absent".to_string(),
                (Some(g), Some(o)) if g == o => "old".to_string(),
                (Some(g), _) if g.is_empty() => "empty".to_string(),
                // the limit is 512 bytes and every complete new output is far larger
                (Some(g), _) if g.len() > 4000 => "new:complete".to_string(),
                _ => "partial".to_string(),
            };
            let result = match st.code() {
                Some(0) => "ok",
                Some(3) => "err",
                _ => "killed",
            };
            rep.evaluations += 1;
            rep.nontrivial(&name);
            // the limit bites whenever more than 512 bytes have to be staged
            let ev = json!({"ev": "Fault", "mode": mode, "kind": kind, "fault": "file-size-limit", "fault_hit": true, "result": result, "final": fin,
                "len": got.as_ref().map(|g| g.len()).unwrap_or(0), "tmp_left": tmp_left(&scn.dir)});
            writeln!(f, "{ev}").unwrap();
            rep.traces += 1;
            let intact_ok = (fin == "old" && kind != "absent") || (fin == "absent" && kind == "absent");
            let ok = intact_ok && (kind != "same" || result == "ok") && (kind == "same" || result == "err");
            if !ok {
                rep.violation(json!({"property": "C19", "kind": "environment-fault", "scenario": ev}));
            }
            let _ = std::fs::remove_dir_all(&scn.dir);
        }
    }
    let _ = std::fs::remove_dir_all(&base);
    rep.write(outp);
}

/// map a strace log to abstract operations on the scenario directory
fn parse_strace(log: &Path, scn: &Scn) -> Vec<String> {
    let text = std::fs::read_to_string(log).unwrap_or_default();
    let t = scn.target.to_str().unwrap();
    let d = scn.dir.to_str().unwrap();
    let mut fds: HashMap<String, String> = HashMap::new(); // fd -> "T" | "tmp"
    let mut out = vec![];
    for line in text.lines() {
        let l = line.splitn(2, ' ').nth(1).unwrap_or(line).trim();
        if l.starts_with("openat(") || l.starts_with("open(") || l.starts_with("creat(") {
            if !l.contains(d) {
                continue;
            }
            let fd = l.rsplit("= ").next().unwrap_or("").split(' ').next().unwrap_or("").to_string();
            let is_t = l.contains(&format!("\"{t}\""));
            let writes = l.contains("O_WRONLY") || l.contains("O_RDWR") || l.contains("O_TRUNC") || l.contains("O_CREAT") || l.starts_with("creat(");
            if is_t {
                if writes {
                    out.push("mutate_T".to_string());
                } else {
                    out.push("open_T_rdonly".to_string());
                }
                fds.insert(fd, "T".to_string());
            } else if l.contains("O_EXCL") && l.contains("O_CREAT") {
                out.push("open_excl_tmp".to_string());
                fds.insert(fd, "tmp".to_string());
            } else if writes {
                out.push("open_other_write".to_string());
                fds.insert(fd, "tmp".to_string());
            }
        } else if l.starts_with("write(") || l.starts_with("pwrite64(") || l.starts_with("writev(") {
            let fd = l.split('(').nth(1).unwrap_or("").split(',').next().unwrap_or("").to_string();
            match fds.get(&fd).map(|s| s.as_str()) {
                Some("T") => out.push("mutate_T".to_string()),
                Some("tmp") => out.push("write_tmp".to_string()),
                _ => {}
            }
        } else if l.starts_with("rename") {
            if l.contains(&format!("\"{t}\"")) {
                // rename(<tmp in the same directory>, T)
                let first = l.split('"').nth(1).unwrap_or("");
                if first.starts_with(d) && first != t {
                    out.push("rename_tmp_T".to_string());
                } else {
                    out.push("mutate_T".to_string());
                }
            }
        } else if (l.starts_with("unlink") || l.starts_with("truncate") || l.starts_with("link")) && l.contains(&format!("\"{t}\"")) {
            out.push("mutate_T".to_string());
        } else if l.starts_with("ftruncate(") {
            let fd = l.split('(').nth(1).unwrap_or("").split(',').next().unwrap_or("").to_string();
            if fds.get(&fd).map(|s| s.as_str()) == Some("T") {
                out.push("mutate_T".to_string());
            }
        }
    }
    out
}
