// C18: the dependency listing names every file a compilation reads.
// Model file systems (from TLC) and random larger include graphs are materialised in a
// scratch directory; gather_dependencies is called in-process (worker), the files a
// compilation really reads are observed with strace on a child `vh job compile`.
use crate::util::{read_tlc_vectors, Report};
use serde_json::{json, Value};
use std::collections::{BTreeSet, HashMap};
use std::io::Write;
use std::path::{Path, PathBuf};
use std::process::{Command, Stdio};
use std::sync::atomic::{AtomicUsize, Ordering};
use std::sync::{Arc, Mutex};

pub fn op_deps(job: &Value) -> Value {
    use chialisp::compiler::compiler::DefaultCompilerOpts;
    use chialisp::compiler::comptypes::CompilerOpts;
    use chialisp::compiler::preprocessor::gather_dependencies;
    use std::rc::Rc;
    let file = job["file"].as_str().unwrap();
    let search: Vec<String> = job["search"].as_array().unwrap().iter().map(|x| x.as_str().unwrap().to_string()).collect();
    let text = match std::fs::read_to_string(file) {
        Ok(t) => t,
        Err(e) => return json!({"err": format!("read {e}")}),
    };
    let opts: Rc<dyn CompilerOpts> = Rc::new(DefaultCompilerOpts::new(file)).set_search_paths(&search);
    match gather_dependencies(opts, file, &text) {
        Ok(v) => json!({"deps": v.iter().map(|d| String::from_utf8_lossy(&d.name).to_string()).collect::<Vec<_>>()}),
        Err(e) => json!({"err": format!("{}: {}", e.0, e.1)}),
    }
}

struct Case {
    id: usize,
    files: Vec<(String, String, Value)>, // dir, name, content forms
    path: Vec<String>,
    main: Value,
    sigil: String,
    model_reads: Option<BTreeSet<String>>,
    model_err: Option<bool>,
}

fn form_text(f: &Value, k: usize) -> String {
    if f[0] == "include" {
        format!("(include {})", f[1].as_str().unwrap())
    } else if f[0] == "nested" {
        // a (mod ...) used as an expression, here inside a function nobody calls: its files are read all the same
        format!("(defun nest{k} (Y) (a {} (list Y)))", nested_mod(&f[1], k))
    } else {
        format!("(embed-file EMB{}_{} {} {})", k, f[2].as_str().unwrap().replace(['.', '/'], "_"), f[1].as_str().unwrap(), f[2].as_str().unwrap())
    }
}

fn nested_mod(content: &Value, k: usize) -> String {
    let inner: Vec<String> = content.as_array().unwrap().iter().enumerate().map(|(j, g)| form_text(g, k * 100 + j)).collect();
    format!("(mod (Z) {} Z)", inner.join(" "))
}

fn materialise(base: &Path, c: &Case) -> (PathBuf, Vec<String>) {
    let root = base.join(format!("case{}", c.id));
    let _ = std::fs::remove_dir_all(&root);
    std::fs::create_dir_all(&root).unwrap();
    for (d, n, content) in &c.files {
        let dir = root.join(d);
        std::fs::create_dir_all(&dir).unwrap();
        let forms: Vec<String> = content.as_array().unwrap().iter().enumerate().map(|(k, f)| form_text(f, k + 10)).collect();
        // an include file is a list of forms; "()" (no forms) is also a valid s-expression / byte string for embedding
        let text = format!("({}\n)", forms.iter().map(|f| format!("\n  {f}")).collect::<String>());
        // (a name may be qualified by a subdirectory: "v2/inc0.clinc")
        if let Some(parent) = dir.join(n).parent() {
            std::fs::create_dir_all(parent).unwrap();
        }
        std::fs::write(dir.join(n), text).unwrap();
    }
    // a nested (mod ...) of the main program sits, by turns, in a function nobody calls, in a function the main
    // expression calls, or in the main expression itself
    let mut mains: Vec<String> = vec![];
    let mut extra = String::new();
    for (k, f) in c.main.as_array().unwrap().iter().enumerate() {
        if f[0] == "nested" {
            // by turns: a function nobody calls / a called function / the main expression, each plain and inline, then a
            // let binding, a lambda body and the branch of an if (the classic compiler never looks at what nobody calls
            // and has no let or lambda)
            let m = nested_mod(&f[1], k);
            let pos = if c.sigil.is_empty() { [1usize, 2, 4, 8][(c.id + k) % 4] } else { (c.id + k) % 11 };
            match pos {
                0 => mains.push(form_text(f, k)),
                1 => {
                    mains.push(form_text(f, k));
                    extra.push_str(&format!(" (nest{k} X)"));
                }
                2 => extra.push_str(&format!(" (a {m} (list X))")),
                3 => mains.push(format!("(defun-inline nest{k} (Y) (a {m} (list Y)))")),
                4 => {
                    mains.push(format!("(defun-inline nest{k} (Y) (a {m} (list Y)))"));
                    extra.push_str(&format!(" (nest{k} X)"));
                }
                5 => extra.push_str(&format!(" (let ((NL{k} {m})) (a NL{k} (list X)))")),
                6 => extra.push_str(&format!(" (a (lambda ((& X) NZ{k}) (a {m} (list NZ{k}))) (list X))")),
                7 => {
                    mains.push(format!("(defun nest{k} (Y) (if Y (a {m} (list Y)) 0))"));
                    extra.push_str(&format!(" (nest{k} X)"));
                }
                8 => extra.push_str(&format!(" (if X (a {m} (list X)) 0)")),
                // the forms themselves in the body of a macro (a macro is a program of its own), used or not
                _ => {
                    let inner: Vec<String> = f[1].as_array().unwrap().iter().enumerate().map(|(j, g)| form_text(g, k * 100 + j)).collect();
                    mains.push(format!("(defmacro nmac{k} (A) {} (qq (+ (unquote A) 0)))", inner.join(" ")));
                    if pos == 10 {
                        extra.push_str(&format!(" (nmac{k} X)"));
                    }
                }
            }
        } else {
            mains.push(form_text(f, k));
        }
    }
    let sig = if c.sigil.is_empty() { String::new() } else { format!("(include {})", c.sigil) };
    let main_text = format!("(mod (X) {} {} (+ X 1{}))", sig, mains.join(" "), extra);
    let main_path = root.join("main.clsp");
    std::fs::write(&main_path, main_text).unwrap();
    for d in &c.path {
        std::fs::create_dir_all(root.join(d)).unwrap();
    }
    let search: Vec<String> = c.path.iter().map(|d| root.join(d).to_str().unwrap().to_string()).collect();
    (main_path, search)
}

/// compile in a child under strace; returns (files under `root` opened successfully for reading, compile ok?)
fn traced_compile(root: &Path, main_path: &Path, search: &[String]) -> Option<(BTreeSet<String>, bool)> {
    let log = root.join("strace.log");
    let text = std::fs::read_to_string(main_path).ok()?;
    let job = json!({"op": "compile", "text": text, "file": main_path.to_str().unwrap(), "search": search});
    let out = Command::new("strace")
        .args(["-f", "-e", "trace=openat,open", "-o", log.to_str().unwrap()])
        .arg(std::env::current_exe().unwrap())
        .args(["job", &job.to_string()])
        .stdin(Stdio::null())
        .stderr(Stdio::null())
        .output()
        .ok()?;
    let res: Value = crate::util::parse_json(String::from_utf8_lossy(&out.stdout).lines().last().unwrap_or("null")).unwrap_or(Value::Null);
    let ok = res.get("ok").is_some();
    let rs = root.to_str().unwrap();
    let mut reads = BTreeSet::new();
    for line in std::fs::read_to_string(&log).unwrap_or_default().lines() {
        if line.contains(" = -1") || !line.contains(rs) {
            continue;
        }
        if let Some(p) = line.split('"').nth(1) {
            if p.starts_with(rs) && p != main_path.to_str().unwrap() && !p.ends_with("strace.log") && Path::new(p).is_file() {
                reads.insert(p.to_string());
            }
        }
    }
    let _ = std::fs::remove_file(&log);
    Some((reads, ok))
}

fn first_match(search: &[String], name: &str) -> Option<String> {
    for d in search {
        let p = Path::new(d).join(name);
        if p.is_file() {
            return Some(p.to_str().unwrap().to_string());
        }
    }
    None
}

pub fn drive(args: &HashMap<String, String>) {
    use rand::{Rng, SeedableRng};
    let trace = args.get("trace").expect("--trace");
    let outp = args.get("out").expect("--out");
    let base = PathBuf::from(args.get("scratch").expect("--scratch"));
    let n_model: usize = args.get("model-cases").map(|s| s.parse().unwrap()).unwrap_or(150);
    let n_rand: usize = args.get("random-cases").map(|s| s.parse().unwrap()).unwrap_or(60);
    let _ = std::fs::remove_dir_all(&base);
    std::fs::create_dir_all(&base).unwrap();
    let mut rng = rand_chacha::ChaCha8Rng::seed_from_u64(crate::util::seed_from_env() ^ 0xC18);
    let sigils = ["*standard-cl-21*", "", "*standard-cl-23*", "*standard-cl-24*", "*strict-cl-21*"];
    let mut cases: Vec<Case> = vec![];
    if let Some(inp) = args.get("in") {
        let vs = read_tlc_vectors(inp, "V");
        // configurations in which something is embedded or sits in a nested (mod ..) first, the rest spread evenly over
        // the file (TLC writes small file systems first); classic, cl21 and cl23 by turns
        let flagged: Vec<usize> = (0..vs.len()).filter(|i| vs[*i]["noembed_differs"] == true || vs[*i]["nonested_differs"] == true).collect();
        let mut chosen: Vec<usize> = vec![];
        let want_flagged = (n_model * 2 / 3).min(flagged.len());
        for k in 0..want_flagged {
            chosen.push(flagged[k * flagged.len() / want_flagged.max(1)]);
        }
        let rest = n_model.saturating_sub(chosen.len()).min(vs.len());
        for k in 0..rest {
            chosen.push(k * vs.len() / rest.max(1));
        }
        chosen.sort();
        chosen.dedup();
        let model_sigils = ["*standard-cl-21*", "", "*standard-cl-23*"];
        for (n, i) in chosen.into_iter().enumerate() {
            let v = &vs[i];
            let sigil = model_sigils[n % 3];
            let files = v["files"].as_array().unwrap().iter().map(|f| (f[0].as_str().unwrap().to_string(), f[1].as_str().unwrap().to_string(), f[2].clone())).collect();
            let path: Vec<String> = v["path"].as_array().unwrap().iter().map(|d| d.as_str().unwrap().to_string()).collect();
            // the classic compiler never looks at a function nobody calls
            let field = if sigil.is_empty() { "reads_lazy" } else { "reads" };
            let reads: BTreeSet<String> = v[field].as_array().unwrap().iter().map(|r| format!("{}/{}", r[0].as_str().unwrap(), r[1].as_str().unwrap())).collect();
            // cl21 rejects include / embed-file forms inside an included file
            let err = v[if sigil.is_empty() { "err_lazy" } else { "err" }].as_bool().unwrap_or(false) || (sigil == "*standard-cl-21*" && v["form_in_file"] == true);
            cases.push(Case { id: cases.len(), files, path, main: v["main"].clone(), sigil: sigil.to_string(), model_reads: Some(reads), model_err: Some(err) });
        }
    }
    // random larger graphs: depth 0..4, includes only reachable through other includes, embeds of each kind,
    // the same name in several directories, every search-path order
    for i in 0..n_rand {
        let names: Vec<String> = (0..rng.random_range(1..=6)).map(|k| format!("inc{k}.clinc")).collect();
        let dirs = ["d1", "d2", "d3"];
        let mut files = vec![];
        for (k, n) in names.iter().enumerate() {
            let ndirs = if rng.random_range(0..3) == 0 { 2 } else { 1 };
            let mut ds: Vec<&str> = dirs.to_vec();
            for _ in 0..ndirs {
                let d = ds.remove(rng.random_range(0..ds.len()));
                // forms only point at later names: acyclic
                let mut forms = vec![];
                for later in names.iter().skip(k + 1) {
                    match rng.random_range(0..5) {
                        0 => forms.push(json!(["include", later])),
                        1 => {
                            let kind = if rng.random_bool(0.5) { "bin" } else { "sexp" };
                            forms.push(json!(["embed", kind, later]))
                        }
                        2 if rng.random_bool(0.3) => forms.push(json!(["nested", [["include", later]]])),
                        _ => {}
                    }
                }
                files.push((d.to_string(), n.clone(), json!(forms)));
            }
        }
        // dedicated embed targets of each kind
        files.push((dirs[i % 3].to_string(), "data.hex".to_string(), json!([])));
        let mut path: Vec<String> = dirs.iter().map(|d| d.to_string()).collect();
        for k in (1..path.len()).rev() {
            path.swap(k, rng.random_range(0..=k));
        }
        let mut main = vec![json!(["include", names[0]])];
        // a second file of the same base name below a subdirectory, included by its qualified name before or after the
        // bare name (two different files whose paths end alike)
        if i % 3 != 0 {
            let k = rng.random_range(0..names.len());
            let qualified = format!("v2/{}", names[k]);
            files.push((dirs[rng.random_range(0..3)].to_string(), qualified.clone(), json!([])));
            let bare = json!(["include", names[k]]);
            let qual = json!(["include", qualified]);
            if i % 2 == 0 {
                main.insert(0, qual);
                main.push(bare);
            } else {
                main.push(bare);
                main.push(qual);
            }
        }
        if names.len() > 2 && rng.random_bool(0.5) {
            main.push(json!(["embed", "bin", names[names.len() - 1]]));
        }
        // files only a (mod ...) expression asks for
        if i % 4 == 1 {
            files.push((dirs[rng.random_range(0..3)].to_string(), "only_nested.clinc".to_string(), json!([])));
            let mut inner = vec![json!(["include", "only_nested.clinc"])];
            if rng.random_bool(0.5) {
                inner.push(json!(["embed", "hex", "data.hex"]));
            }
            main.push(json!(["nested", inner]));
        }
        if rng.random_bool(0.5) {
            main.push(json!(["embed", "hex", "data.hex"]));
        }
        cases.push(Case { id: cases.len(), files, path, main: json!(main), sigil: sigils[i % sigils.len()].to_string(), model_reads: None, model_err: None });
    }

    let cases = Arc::new(cases);
    let next = Arc::new(AtomicUsize::new(0));
    let results: Arc<Mutex<Vec<Option<Value>>>> = Arc::new(Mutex::new(vec![None; cases.len()]));
    let mut ths = vec![];
    for _ in 0..8 {
        let (cases, next, results, base) = (cases.clone(), next.clone(), results.clone(), base.clone());
        ths.push(std::thread::spawn(move || loop {
            let i = next.fetch_add(1, Ordering::SeqCst);
            if i >= cases.len() {
                break;
            }
            let c = &cases[i];
            let (main_path, search) = materialise(&base, c);
            // the hex embed target must be a valid hex encoding
            for d in &search {
                let p = Path::new(d).join("data.hex");
                if p.exists() {
                    std::fs::write(&p, "ff0180").unwrap();
                }
            }
            let root = main_path.parent().unwrap().to_path_buf();
            let deps = crate::pool::guarded(op_deps, &json!({"file": main_path.to_str().unwrap(), "search": search}));
            let traced = traced_compile(&root, &main_path, &search);
            let r = match traced {
                None => json!({"tool_error": "strace failed"}),
                Some((reads, ok)) => {
                    let strip = |p: &str| p.strip_prefix(root.to_str().unwrap()).unwrap_or(p).trim_start_matches('/').to_string();
                    let listed: Vec<String> = deps.get("deps").and_then(|d| d.as_array()).map(|a| a.iter().map(|x| x.as_str().unwrap().to_string()).collect()).unwrap_or_default();
                    // each listed path must be the first match of its file name in search-path order
                    let mut wrong = vec![];
                    for l in &listed {
                        // the name the file was asked for by: its path below the search directory it was found in
                        let name = search.iter().find_map(|d| l.strip_prefix(&format!("{d}/")).map(|x| x.to_string()))
                            .unwrap_or_else(|| Path::new(l).file_name().map(|x| x.to_str().unwrap().to_string()).unwrap_or_default());
                        let fm = first_match(&search, &name);
                        if fm.as_deref() != Some(l.as_str()) {
                            wrong.push(json!({"listed": strip(l), "first_match": fm.map(|x| strip(&x))}));
                        }
                    }
                    json!({"compiled": ok, "reads": reads.iter().map(|p| strip(p)).collect::<Vec<_>>(),
                        "listed": listed.iter().map(|p| strip(p)).collect::<Vec<_>>(), "deps_err": deps.get("err"), "deps_panic": deps.get("panic"), "wrong": wrong})
                }
            };
            let _ = std::fs::remove_dir_all(&root);
            results.lock().unwrap()[i] = Some(r);
        }));
    }
    for t in ths {
        let _ = t.join();
    }
    let results = results.lock().unwrap();
    let mut rep = Report::default();
    let mut f = std::io::BufWriter::new(std::fs::File::create(trace).expect("trace"));
    for (c, r) in cases.iter().zip(results.iter()) {
        let r = r.clone().unwrap_or(json!({"tool_error": "no result"}));
        rep.evaluations += 1;
        if r.get("tool_error").is_some() {
            rep.count("tool_errors");
            continue;
        }
        let desc = json!({"files": c.files.iter().map(|(d, n, k)| json!([d, n, k])).collect::<Vec<_>>(), "path": c.path, "main": c.main, "sigil": c.sigil});
        let reads: BTreeSet<String> = r["reads"].as_array().unwrap().iter().map(|x| x.as_str().unwrap().to_string()).collect();
        let listed: BTreeSet<String> = r["listed"].as_array().unwrap().iter().map(|x| x.as_str().unwrap().to_string()).collect();
        rep.traces += 1;
        writeln!(f, "{}", json!({"compiled": r["compiled"], "reads": reads.iter().collect::<Vec<_>>(), "listed": listed.iter().collect::<Vec<_>>(),
            "wrong": r["wrong"].as_array().unwrap().len(), "has_model": c.model_reads.is_some(),
            "model_reads": c.model_reads.clone().unwrap_or_default().iter().collect::<Vec<_>>(), "model_err": c.model_err.unwrap_or(false)})).unwrap();
        if !reads.is_empty() {
            rep.nontrivial(&desc.to_string());
        }
        if r.get("deps_panic").map(|p| !p.is_null()).unwrap_or(false) {
            rep.violation(json!({"property": "C18", "kind": "listing-panicked", "case": desc}));
            continue;
        }
        // the property is about compilations: a program that does not compile lists nothing useful
        if r["compiled"] == true {
            let missing: Vec<&String> = reads.difference(&listed).collect();
            if !missing.is_empty() {
                rep.violation(json!({"property": "C18", "kind": "read-but-not-listed", "case": desc, "missing": missing, "reads": reads, "listed": listed, "listing_error": r["deps_err"],
                    "missing_are_embeds_only": missing.iter().all(|m| is_embed_only(c, m))}));
            }
        }
        if !r["wrong"].as_array().unwrap().is_empty() {
            rep.violation(json!({"property": "C18", "kind": "listed-is-not-first-match", "case": desc, "wrong": r["wrong"]}));
        }
        if let Some(mr) = &c.model_reads {
            if r["compiled"] == true && *mr != reads {
                rep.drift(json!({"case": desc, "model_reads": mr, "observed_reads": reads}));
            }
            if c.model_err == Some(false) && r["compiled"] != true {
                rep.drift(json!({"case": desc, "model": "compiles", "observed": "does not compile"}));
            }
            if c.model_err == Some(true) && r["compiled"] == true {
                rep.drift(json!({"case": desc, "model": "does not compile", "observed": "compiles"}));
            }
        }
        if rep.samples.len() < 4 && reads.len() > 1 {
            rep.sample(json!({"case": desc, "observed": r}));
        }
    }
    let _ = std::fs::remove_dir_all(&base);
    rep.write(outp);
}

/// is this file (relative path dir/name) referenced only through embed-file forms anywhere in the case?
fn is_embed_only(c: &Case, rel: &str) -> bool {
    let name = rel.rsplit('/').next().unwrap_or(rel);
    let mut included = false;
    fn check(forms: &Value, name: &str, included: &mut bool) {
        for f in forms.as_array().unwrap() {
            if f[0] == "include" && f[1].as_str() == Some(name) {
                *included = true;
            }
            if f[0] == "nested" {
                check(&f[1], name, included);
            }
        }
    }
    check(&c.main, name, &mut included);
    for (_, _, k) in &c.files {
        check(k, name, &mut included);
    }
    !included
}
