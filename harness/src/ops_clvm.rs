// Worker-side operations on raw CLVM: consensus evaluation, the tool's stepping
// evaluator, the CLVM-level optimiser (C04, C06).
use crate::rich::{from_rich, spelling_of, to_rich};
use crate::val::{consensus_run, Outcome, CONS_MAX_COST, V};
use chialisp::classic::clvm_tools::stages::stage_0::{DefaultProgramRunner, TRunProgram};
use chialisp::classic::clvm_tools::stages::stage_2::optimize::optimize_sexp;
use chialisp::compiler::clvm::run;
use chialisp::compiler::prims::prim_map;
use chialisp::compiler::runtypes::RunFailure;
use clvmr::allocator::Allocator;
use serde_json::{json, Value};
use std::rc::Rc;

pub const STEP_LIMIT: usize = 200_000;

pub fn stepper_run(prog: &V, env: &V, spelling: &str) -> Outcome {
    let sp = spelling_of(spelling);
    let mut allocator = Allocator::new();
    let runner: Rc<dyn TRunProgram> = Rc::new(DefaultProgramRunner::new());
    let p = to_rich(prog, sp);
    let e = to_rich(env, sp);
    match run(&mut allocator, runner, prim_map(), p, e, None, Some(STEP_LIMIT)) {
        Ok(v) => Outcome::Ok(from_rich(&v)),
        Err(RunFailure::RunErr(_, m)) => {
            if m == "timeout" {
                Outcome::Fuel
            } else {
                Outcome::Err(m)
            }
        }
        Err(RunFailure::RunExn(_, v)) => Outcome::Err(format!("throw {v}")),
    }
}

pub fn classic_optimize(prog: &V) -> Result<V, String> {
    let mut allocator = Allocator::new();
    let runner: Rc<dyn TRunProgram> = Rc::new(DefaultProgramRunner::new());
    let p = prog.to_node(&mut allocator);
    match optimize_sexp(&mut allocator, p, runner) {
        Ok(n) => Ok(V::from_node(&allocator, n)),
        Err(e) => Err(format!("{e}")),
    }
}

pub fn op_clvm(job: &Value) -> Value {
    let prog = V::from_json(&job["prog"]).expect("prog");
    let env = V::from_json(&job["env"]).expect("env");
    let cons = consensus_run(&prog, &env, CONS_MAX_COST);
    let mut out = json!({"cons": cons.to_json_msg()});
    if let Some(sps) = job.get("spellings").and_then(|s| s.as_array()) {
        let mut m = serde_json::Map::new();
        for s in sps {
            let s = s.as_str().unwrap();
            let r = std::panic::catch_unwind(|| stepper_run(&prog, &env, s));
            let o = match r {
                Ok(o) => o,
                Err(_) => Outcome::Panic("stepper".to_string()),
            };
            m.insert(s.to_string(), o.to_json_msg());
        }
        out["step"] = Value::Object(m);
    }
    if job.get("opt").and_then(|b| b.as_bool()).unwrap_or(false) {
        let r = std::panic::catch_unwind(|| classic_optimize(&prog));
        match r {
            Ok(Ok(o)) => {
                let res = consensus_run(&o, &env, CONS_MAX_COST);
                out["opt"] = json!({"out": o.to_json(), "res": res.to_json_msg(), "changed": o != prog});
            }
            Ok(Err(m)) => {
                out["opt"] = json!({"fail": m});
            }
            Err(_) => {
                out["opt"] = json!({"panic": true});
            }
        }
    }
    // the cl23+ post-codegen rewrites (null_optimization, remove_double_apply, brief_path_selection) applied as the
    // Strategy23 hooks apply them
    if job.get("postopt").and_then(|b| b.as_bool()).unwrap_or(false) {
        let r = std::panic::catch_unwind(|| {
            use chialisp::compiler::optimize::brief::brief_path_selection;
            use chialisp::compiler::optimize::double_apply::remove_double_apply;
            use chialisp::compiler::optimize::null_optimization_of_expression;
            let code = crate::rich::to_rich(&prog, crate::rich::Spelling::Int);
            let (_, a) = null_optimization_of_expression(code);
            let (_, b) = remove_double_apply(a, true);
            let (_, c) = brief_path_selection(b);
            crate::rich::from_rich(&c)
        });
        match r {
            Ok(o) => {
                let res = consensus_run(&o, &env, CONS_MAX_COST);
                out["postopt"] = json!({"out": o.to_json(), "res": res.to_json_msg(), "changed": o != prog});
            }
            Err(_) => {
                out["postopt"] = json!({"panic": true});
            }
        }
    }
    out
}
