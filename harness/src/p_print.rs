// C09: printed values re-read to the identical value in both syntaxes.
use crate::pool::{run_jobs, PoolCfg};
use crate::util::{read_tlc_vectors, Report};
use crate::val::V;
use serde_json::{json, Value};
use std::collections::HashMap;
use std::io::Write;
use std::time::Duration;

fn bytes_to_string(j: &Value) -> String {
    let b: Vec<u8> = j.as_array().map(|a| a.iter().map(|x| x.as_i64().unwrap_or(63) as u8).collect()).unwrap_or_default();
    String::from_utf8_lossy(&b).to_string()
}

/// P on observed values; returns number of failing clauses
fn decide(rep: &mut Report, v: &V, r: &Value, ctx: &str) -> usize {
    if r.get("classic2").is_none() {
        rep.violation(json!({"property": "C09", "kind": "printer-crash", "value": v.to_json(), "observed": r, "context": ctx}));
        return 1;
    }
    let want = json!(["ok", v.to_json()]);
    let mut bad = 0;
    for ver in 0..3 {
        let c = &r[format!("classic{ver}")];
        if c["back"] != want {
            bad += 1;
            rep.violation(json!({"property": "C09", "kind": "classic-roundtrip", "version": ver, "value": v.to_json(),
                "text": c["text"], "back": c["back"], "context": ctx}));
        }
    }
    let m = &r["modern"];
    if m.get("text").is_none() {
        bad += 1;
        rep.violation(json!({"property": "C09", "kind": "modern-print-fails", "value": v.to_json(), "observed": m, "context": ctx}));
    } else {
        if m["back"] != want {
            bad += 1;
            rep.violation(json!({"property": "C09", "kind": "modern-reader-roundtrip", "value": v.to_json(), "text": m["text"], "back": m["back"], "context": ctx}));
        }
        if m["classic_back"] != want {
            bad += 1;
            rep.violation(json!({"property": "C09", "kind": "modern-text-classic-assembler", "value": v.to_json(), "text": m["text"], "back": m["classic_back"], "context": ctx}));
        }
    }
    bad
}

pub fn replay(args: &HashMap<String, String>) {
    let input = args.get("in").expect("--in");
    let outp = args.get("out").expect("--out");
    let vectors = read_tlc_vectors(input, "V");
    let mut jobs = vec![];
    let mut meta = vec![];
    for v in &vectors {
        let atom = V::A(v["atom"].as_array().unwrap().iter().map(|b| b.as_u64().unwrap() as u8).collect());
        for (k, val) in [("alone", atom.clone()), ("head", V::list(&[atom.clone(), V::A(vec![1])])),
                         ("nonhead", V::list(&[V::A(vec![4]), atom.clone()])), ("tail", V::cons(V::A(vec![2]), atom.clone()))] {
            jobs.push(json!({"op": "print", "value": val.to_json()}));
            meta.push((val, k, v.clone()));
        }
    }
    let cfg = PoolCfg { batch: 128, timeout: Duration::from_secs(20), ..PoolCfg::default() };
    let results = run_jobs(jobs, &cfg);
    let mut rep = Report::default();
    for ((val, k, vec), r) in meta.iter().zip(results.iter()) {
        rep.evaluations += 1;
        decide(&mut rep, val, r, k);
        if *k == "alone" {
            rep.nontrivial(&vec["atom"].to_string());
            if r.get("classic2").is_some() {
                // text predicted by the model vs text printed by the code: drift
                let model_c = bytes_to_string(&vec["classic"]);
                if r["classic2"]["text"].as_str() != Some(&model_c) {
                    rep.drift(json!({"atom": vec["atom"], "which": "classic", "model": model_c, "impl": r["classic2"]["text"]}));
                }
                if vec["modern"] != json!([-1]) {
                    let model_m = bytes_to_string(&vec["modern"]);
                    if r["modern"]["text"].as_str() != Some(&model_m) {
                        rep.drift(json!({"atom": vec["atom"], "which": "modern", "model": model_m, "impl": r["modern"]["text"]}));
                    }
                }
            }
            if rep.samples.len() < 4 && vec["atom"].as_array().unwrap().len() == 3 {
                rep.sample(json!({"atom": vec["atom"], "observed": r}));
            }
        } else if *k == "head" && r.get("classic2").is_some() {
            let model_c = bytes_to_string(&vec["classic_kw"]);
            let want = format!("({} 1)", model_c);
            if r["classic2"]["text"].as_str() != Some(&want) && !model_c.is_empty() {
                rep.drift(json!({"atom": vec["atom"], "which": "classic head", "model": want, "impl": r["classic2"]["text"]}));
            }
        }
    }
    rep.traces = rep.evaluations;
    rep.write(outp);
}

pub fn drive(args: &HashMap<String, String>) {
    use crate::gen_clvm::ClvmGen;
    use rand::{Rng, SeedableRng};
    let n: usize = args.get("n").map(|s| s.parse().unwrap()).unwrap_or(500);
    let trace = args.get("trace").expect("--trace");
    let outp = args.get("out").expect("--out");
    let seed = crate::util::seed_from_env();
    let mut g = ClvmGen { rng: rand_chacha::ChaCha8Rng::seed_from_u64(seed ^ 0xC09), opzoo: false };
    let mut vals: Vec<V> = vec![];
    let zoo: &[&[u8]] = &[b"q", b"a", b"sha256", b"0x41", b"0X41", b"-5", b"007", b"12a", b"a b", b"a;b", b"(a)", b"a.b", b".", b"#a", b"\"q\"", b"'q'",
        b"a\\b", b"a\\", b"\\\\", b"a\"b", b"it's", b"keccak256", b">s", b"-", b"--1", b"1e5", b"0x", b"0xg1", b" lead", b"trail ", b"a\tb", b"a\nb", b"%", b"%%%"];
    for z in zoo {
        vals.push(V::A(z.to_vec()));
        vals.push(V::list(&[V::A(z.to_vec()), V::A(z.to_vec())]));
        vals.push(V::cons(V::A(vec![1]), V::A(z.to_vec())));
    }
    for i in 0..n {
        let len = g.rng.random_range(3..12usize);
        let mut b: Vec<u8> = (0..len).map(|_| 32 + g.rng.random_range(0..95u8)).collect();
        if i % 3 == 0 {
            let k = g.rng.random_range(0..len);
            b[k] = [b'"', b'\\', b'\'', b'(', b')', b'.', b';', b'#', b' '][g.rng.random_range(0..9)];
        }
        if i % 7 == 0 {
            b = (0..len).map(|_| g.rng.random::<u8>()).collect();
        }
        if i % 11 == 0 {
            b = format!("{}", g.rng.random_range(-100000i64..100000)).into_bytes();
        }
        vals.push(V::A(b.clone()));
        if i % 2 == 0 {
            vals.push(V::list(&[V::A(b.clone()), g.value(2)]));
            vals.push(V::cons(g.value(1), V::A(b)));
        }
    }
    for i in 0..n {
        vals.push(g.value(1 + i % 5));
    }
    // IntBoundaries: canonical integers where a printer switches notation or a reader switches arithmetic: +-2^k and
    // their neighbours for the word sizes a parser might use, 10^j and its neighbours (where the digit count changes),
    // the same values with a sign byte or zero padding (non-canonical spellings of the same number)
    {
        use num_bigint::BigInt;
        let mut ints: Vec<BigInt> = vec![];
        for k in [7u32, 8, 15, 16, 23, 24, 31, 32, 33, 53, 62, 63, 64, 65, 95, 96, 127, 128, 129, 255, 256, 257] {
            let p = BigInt::from(1) << k;
            for d in [-2i32, -1, 0, 1, 2] {
                ints.push(&p + d);
                ints.push(-(&p) + d);
            }
        }
        let mut ten = BigInt::from(1);
        for j in 1..=80u32 {
            ten *= 10;
            if j <= 24 || j % 7 == 0 || (37..=40).contains(&j) || (76..=79).contains(&j) {
                for d in [-1i32, 0, 1] {
                    ints.push(&ten + d);
                    ints.push(-(&ten) + d);
                }
                // a value in the middle of the digit class (e.g. 93 * 10^(j-2))
                ints.push(&ten * 93 / 100);
            }
        }
        for (i, x) in ints.iter().enumerate() {
            let canon = crate::val::int_bytes(x);
            vals.push(V::A(canon.clone()));
            match i % 4 {
                0 => vals.push(V::cons(V::A(vec![1]), V::A(canon.clone()))),
                1 => vals.push(V::list(&[V::A(canon.clone()), V::A(canon.clone())])),
                2 => {
                    // the same number with one more sign byte (a different atom)
                    let mut padded = vec![if canon.first().map(|b| b & 0x80 != 0).unwrap_or(false) { 0xff } else { 0x00 }];
                    padded.extend(&canon);
                    vals.push(V::A(padded));
                }
                _ => {}
            }
        }
    }
    let jobs: Vec<Value> = vals.iter().map(|v| json!({"op": "print", "value": v.to_json()})).collect();
    let cfg = PoolCfg { batch: 64, timeout: Duration::from_secs(20), ..PoolCfg::default() };
    let results = run_jobs(jobs, &cfg);
    let mut rep = Report::default();
    let mut f = std::io::BufWriter::new(std::fs::File::create(trace).expect("trace"));
    for (v, r) in vals.iter().zip(results.iter()) {
        rep.evaluations += 1;
        rep.nontrivial(&v.to_json().to_string());
        decide(&mut rep, v, r, "random");
        if r.get("classic2").is_some() && r["modern"].get("text").is_some() {
            let atom_texts = if let V::A(b) = v {
                json!({"is_atom": true, "atom": b, "classic": r["classic2"]["text"].as_str().unwrap().as_bytes(), "modern": r["modern"]["text"].as_str().unwrap().as_bytes()})
            } else {
                json!({"is_atom": false, "atom": [], "classic": [], "modern": []})
            };
            let ok = |x: &Value| if x[0] == "ok" { x.clone() } else { json!(["err"]) };
            writeln!(f, "{}", json!({"value": v.to_json(), "c0": ok(&r["classic0"]["back"]), "c1": ok(&r["classic1"]["back"]), "c2": ok(&r["classic2"]["back"]),
                "m": ok(&r["modern"]["back"]), "mc": ok(&r["modern"]["classic_back"]), "t": atom_texts})).unwrap();
            rep.traces += 1;
        }
        if rep.samples.len() < 4 {
            rep.sample(json!({"value_text": v.show(), "classic": r["classic2"]["text"], "modern": r["modern"]["text"]}));
        }
    }
    rep.write(outp);
}
