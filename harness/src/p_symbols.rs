// C13: symbol tables describe the emitted program.
use crate::ast::{Helper, Program};
use crate::gen::{Gen, GenOpts};
use crate::pool::{run_jobs, PoolCfg};
use crate::util::Report;
use crate::val::{consensus_run, sha256tree, V, CONS_MAX_COST};
use serde_json::{json, Value};
use std::collections::HashMap;
use std::io::Write;
use std::time::Duration;

fn subtrees(v: &V, out: &mut HashMap<String, V>) {
    out.insert(hex::encode(sha256tree(v)), v.clone());
    if let V::P(a, b) = v {
        subtrees(a, out);
        subtrees(b, out);
    }
}

/// (a (q . MAIN) (c (q . TABLE) 1)) -> TABLE
fn left_env_of(code: &V) -> V {
    if let V::P(h, rest) = code {
        if **h == V::A(vec![2]) {
            if let V::P(_main, rest2) = &**rest {
                if let V::P(envexpr, _) = &**rest2 {
                    if let V::P(c, cargs) = &**envexpr {
                        if **c == V::A(vec![4]) {
                            if let V::P(qt, _) = &**cargs {
                                if let V::P(q, table) = &**qt {
                                    if **q == V::A(vec![1]) {
                                        return (**table).clone();
                                    }
                                }
                            }
                        }
                    }
                }
            }
        }
    }
    V::nil()
}

/// the function table is a binary tree whose leaves are function bodies: walking down from the root, a node whose tree
/// hash is a key of the symbol table is a leaf.  Returns how many leaves share their hash with an earlier leaf (two
/// functions with identical code have one key, hence one entry, between them).
fn surplus_leaves(table: &V, keys: &std::collections::HashSet<String>, seen: &mut HashMap<String, usize>) -> usize {
    let h = hex::encode(sha256tree(table));
    if keys.contains(&h) {
        let c = seen.entry(h).or_insert(0);
        *c += 1;
        return if *c > 1 { 1 } else { 0 };
    }
    match table {
        V::P(a, b) => surplus_leaves(a, keys, seen) + surplus_leaves(b, keys, seen),
        _ => 0,
    }
}

pub fn drive(args: &HashMap<String, String>) {
    use rand::SeedableRng;
    let n: usize = args.get("n").map(|s| s.parse().unwrap()).unwrap_or(100);
    let trace = args.get("trace").expect("--trace");
    let cases = args.get("cases").expect("--cases");
    let outp = args.get("out").expect("--out");
    let seed = crate::util::seed_from_env() ^ 0xC13;
    let mut o = GenOpts::full();
    o.max_helpers = 8;
    o.macros = false;
    o.at_patterns = false;
    o.big_literals = false;
    let mut g = Gen::new(rand_chacha::ChaCha8Rng::seed_from_u64(seed), o.clone());
    let builds = ["cl21", "cl21+O", "cl23", "cl231", "cl24", "classic"];
    let mut progs = vec![];
    for i in 0..n {
        g.o = if i % 5 == 4 { GenOpts::classic() } else { o.clone() };
        g.o.macros = false;
        progs.push(g.program());
    }
    let mut jobs = vec![];
    let mut owner = vec![];
    for (pi, p) in progs.iter().enumerate() {
        for b in builds {
            if !crate::p_compile::renderable(p, b) {
                continue;
            }
            jobs.push(json!({"op": "compile", "text": p.render(crate::p_compile::sigil_of(b)), "optimize": b.ends_with("+O"), "symbols": true}));
            owner.push((pi, b.to_string()));
        }
    }
    let cfg = PoolCfg { batch: 1, timeout: Duration::from_secs(20), ..PoolCfg::default() };
    let results = run_jobs(jobs, &cfg);
    let mut rep = Report::default();
    let mut tf = std::io::BufWriter::new(std::fs::File::create(trace).expect("trace"));
    let mut cf = std::io::BufWriter::new(std::fs::File::create(cases).expect("cases"));
    for ((pi, b), r) in owner.iter().zip(results.iter()) {
        rep.evaluations += 1;
        let p: &Program = &progs[*pi];
        if r.get("ok").is_none() {
            rep.count("not_compiled");
            continue;
        }
        let code = V::from_json(&r["ok"]).unwrap();
        let syms = r["symbols"].as_object().cloned().unwrap_or_default();
        let mut subs = HashMap::new();
        subtrees(&code, &mut subs);
        let table = left_env_of(&code);
        let mut entries = vec![];
        for (k, v) in syms.iter() {
            if k.len() != 64 || !syms.contains_key(&format!("{k}_arguments")) {
                continue;
            }
            let name = v.as_str().unwrap_or("").to_string();
            let args_text = syms[&format!("{k}_arguments")].as_str().unwrap_or("").to_string();
            let left_env = syms.get(&format!("{k}_left_env")).and_then(|x| x.as_str()).unwrap_or("1") == "1";
            let in_program = subs.contains_key(k);
            // the function this entry claims to be
            let helper = p.helpers.iter().find(|h| h.name() == name);
            let (pat_text, calls) = match (helper, in_program) {
                (Some(Helper::Defun { pat, .. }), true) => {
                    let f = &subs[k];
                    let mut calls = vec![];
                    for _ in 0..3 {
                        let argtree = g.value_for(pat);
                        let env = if left_env { V::cons(table.clone(), argtree.clone()) } else { argtree.clone() };
                        let out = consensus_run(f, &env, CONS_MAX_COST);
                        calls.push(json!({"args": argtree.to_json(), "out": if out.is_ok() { out.to_json() } else { json!([out.kind()]) }}));
                    }
                    (pat.render(), calls)
                }
                (Some(Helper::Defun { pat, .. }), false) => (pat.render(), vec![]),
                _ => (String::new(), vec![]),
            };
            entries.push(json!({"name": name, "args_text": args_text, "pat_text": pat_text, "in_program": in_program,
                "is_user_function": matches!(helper, Some(Helper::Defun { .. })), "inline": matches!(helper, Some(Helper::Defun { inline: true, .. })), "calls": calls}));
        }
        let keys: std::collections::HashSet<String> = syms.keys().filter(|k| k.len() == 64).cloned().collect();
        let shared_code = surplus_leaves(&table, &keys, &mut HashMap::new());
        if shared_code > 0 {
            rep.count("functions_sharing_code_with_another");
        }
        rep.traces += 1;
        if !entries.is_empty() {
            rep.nontrivial(&format!("{}|{}", p.render(""), b));
        }
        writeln!(tf, "{}", json!({"ast": p.to_json(), "build": b, "optimized": b.ends_with("+O") || b.starts_with("cl23") || b.starts_with("cl24"),
            "reports_symbols": !syms.is_empty(), "shared_code": shared_code, "entries": entries})).unwrap();
        writeln!(cf, "{}", json!({"source": p.render(crate::p_compile::sigil_of(b)), "build": b, "symbols": syms,
            "zero_leading_literal": crate::ast::features(&p).zero_leading_literal})).unwrap();
        if rep.samples.len() < 3 && entries.len() > 1 {
            rep.sample(json!({"source": p.render(crate::p_compile::sigil_of(b)), "entries": entries}));
        }
    }
    rep.write(outp);
}
