// Worker pool: every call into code under test runs in a child process of vh
// (`vh worker`), so that aborts (stack overflow), panics and hangs of the code
// under test are data, not failures of the harness.
use serde_json::{json, Value};
use std::io::{BufRead, BufReader, Write};
use std::process::{Child, ChildStdin, Command, Stdio};
use std::sync::mpsc::{channel, Receiver, RecvTimeoutError};
use std::sync::{Arc, Mutex};
use std::time::Duration;

struct Worker {
    child: Child,
    stdin: ChildStdin,
    rx: Receiver<String>,
}

fn spawn_worker(envs: &[(String, String)]) -> Worker {
    let exe = std::env::current_exe().expect("current exe");
    let mut cmd = Command::new(exe);
    cmd.arg("worker")
        .stdin(Stdio::piped())
        .stdout(Stdio::piped())
        .stderr(Stdio::null());
    for (k, v) in envs {
        cmd.env(k, v);
    }
    let mut child = cmd.spawn().expect("spawn worker");
    let stdin = child.stdin.take().unwrap();
    let stdout = child.stdout.take().unwrap();
    let (tx, rx) = channel();
    std::thread::spawn(move || {
        let rd = BufReader::new(stdout);
        for line in rd.lines() {
            match line {
                Ok(l) => {
                    if tx.send(l).is_err() {
                        break;
                    }
                }
                Err(_) => break,
            }
        }
    });
    Worker { child, stdin, rx }
}

impl Worker {
    fn kill(&mut self) {
        let _ = self.child.kill();
        let _ = self.child.wait();
    }
    /// send one line, wait for one line
    fn call(&mut self, line: &str, timeout: Duration) -> Result<String, &'static str> {
        if self.stdin.write_all(line.as_bytes()).is_err()
            || self.stdin.write_all(b"\n").is_err()
            || self.stdin.flush().is_err()
        {
            return Err("abort");
        }
        match self.rx.recv_timeout(timeout) {
            Ok(l) => Ok(l),
            Err(RecvTimeoutError::Timeout) => Err("timeout"),
            Err(RecvTimeoutError::Disconnected) => Err("abort"),
        }
    }
}

pub struct PoolCfg {
    pub workers: usize,
    pub batch: usize,
    pub timeout: Duration,
    pub envs: Vec<(String, String)>,
}

impl Default for PoolCfg {
    fn default() -> Self {
        let n = std::env::var("VERIF_WORKERS")
            .ok()
            .and_then(|s| s.parse().ok())
            .unwrap_or(14usize);
        PoolCfg {
            workers: n,
            batch: 1,
            timeout: Duration::from_secs(20),
            envs: vec![],
        }
    }
}

/// Run all jobs; result i corresponds to job i.  A job whose worker died gets
/// {"abort":true}, one that exceeded the time limit {"timeout":true}.
pub fn run_jobs(jobs: Vec<Value>, cfg: &PoolCfg) -> Vec<Value> {
    let mut results = run_jobs_once(jobs.clone(), cfg);
    // a time limit that expires on a loaded machine says nothing about the code under test: every timed-out job is
    // confirmed on its own, two at a time, with six times the limit (at least 120 s), before it is reported
    let late: Vec<usize> = (0..results.len()).filter(|i| results[*i].get("timeout").is_some()).collect();
    if !late.is_empty() {
        // confirmed four at a time, in order, for at most ten minutes altogether: on the unchanged tree a handful of jobs
        // at most get here and all of them are confirmed; code under test that hangs on one input usually hangs on
        // hundreds, and confirming each of them for minutes would take hours -- the ones not reached stand as timeouts
        let again = PoolCfg { workers: 4, batch: 1, timeout: (cfg.timeout * 6).max(Duration::from_secs(120)), envs: cfg.envs.clone() };
        let deadline = std::time::Instant::now() + Duration::from_secs(600);
        for chunk in late.chunks(4) {
            if std::time::Instant::now() > deadline {
                break;
            }
            let rs = run_jobs_once(chunk.iter().map(|i| jobs[*i].clone()).collect(), &again);
            for (i, r) in chunk.iter().zip(rs.into_iter()) {
                results[*i] = r;
            }
        }
    }
    results
}

/// One pass without the confirmation of timed-out jobs (screening: "does this finish quickly at all?").
pub fn run_jobs_unconfirmed(jobs: Vec<Value>, cfg: &PoolCfg) -> Vec<Value> {
    run_jobs_once(jobs, cfg)
}

fn run_jobs_once(jobs: Vec<Value>, cfg: &PoolCfg) -> Vec<Value> {
    let n = jobs.len();
    let results: Arc<Mutex<Vec<Option<Value>>>> = Arc::new(Mutex::new(vec![None; n]));
    let jobs = Arc::new(jobs);
    let next = Arc::new(Mutex::new(0usize));
    let nworkers = cfg.workers.max(1).min(n.max(1));
    let mut handles = vec![];
    for _ in 0..nworkers {
        let jobs = jobs.clone();
        let results = results.clone();
        let next = next.clone();
        let batch = cfg.batch.max(1);
        let timeout = cfg.timeout;
        let envs = cfg.envs.clone();
        handles.push(std::thread::spawn(move || {
            let mut w = spawn_worker(&envs);
            loop {
                let (lo, hi) = {
                    let mut g = next.lock().unwrap();
                    let lo = *g;
                    if lo >= jobs.len() {
                        break;
                    }
                    let hi = (lo + batch).min(jobs.len());
                    *g = hi;
                    (lo, hi)
                };
                let mut done = false;
                if hi - lo > 1 {
                    let line = serde_json::to_string(&Value::Array(jobs[lo..hi].to_vec())).unwrap();
                    let to = timeout * (hi - lo) as u32;
                    match w.call(&line, to) {
                        Ok(resp) => {
                            if let Ok(Value::Array(rs)) = crate::util::parse_json(&resp) {
                                if rs.len() == hi - lo {
                                    let mut g = results.lock().unwrap();
                                    for (k, r) in rs.into_iter().enumerate() {
                                        g[lo + k] = Some(r);
                                    }
                                    done = true;
                                }
                            }
                        }
                        Err(_) => {
                            w.kill();
                            w = spawn_worker(&envs);
                        }
                    }
                }
                if !done {
                    for i in lo..hi {
                        let line = serde_json::to_string(&jobs[i]).unwrap();
                        let r = match w.call(&line, timeout) {
                            Ok(resp) => crate::util::parse_json(&resp)
                                .unwrap_or_else(|_| json!({"abort": true, "garbled": resp})),
                            Err(kind) => {
                                w.kill();
                                w = spawn_worker(&envs);
                                if kind == "timeout" {
                                    json!({"timeout": true})
                                } else {
                                    json!({"abort": true})
                                }
                            }
                        };
                        results.lock().unwrap()[i] = Some(r);
                    }
                }
            }
            w.kill();
        }));
    }
    for h in handles {
        let _ = h.join();
    }
    let mut g = results.lock().unwrap();
    g.iter_mut()
        .map(|r| r.take().unwrap_or_else(|| json!({"abort": true})))
        .collect()
}

/// worker main loop: one JSON job (or array of jobs) per line in, one JSON result per line out
pub fn worker_main(handler: fn(&Value) -> Value) {
    // silence panic messages of code under test
    std::panic::set_hook(Box::new(|_| {}));
    let stdin = std::io::stdin();
    let stdout = std::io::stdout();
    let mut out = stdout.lock();
    for line in stdin.lock().lines() {
        let line = match line {
            Ok(l) => l,
            Err(_) => break,
        };
        let v: Value = match crate::util::parse_json(&line) {
            Ok(v) => v,
            Err(e) => {
                let _ = writeln!(out, "{}", json!({"error": format!("bad job: {e}")}));
                let _ = out.flush();
                continue;
            }
        };
        let res = match &v {
            Value::Array(js) => Value::Array(js.iter().map(|j| guarded(handler, j)).collect()),
            j => guarded(handler, j),
        };
        let _ = writeln!(out, "{}", res);
        let _ = out.flush();
    }
}

pub fn guarded(handler: fn(&Value) -> Value, j: &Value) -> Value {
    let jj = j.clone();
    match std::panic::catch_unwind(std::panic::AssertUnwindSafe(move || handler(&jj))) {
        Ok(v) => v,
        Err(e) => {
            let msg = if let Some(s) = e.downcast_ref::<&str>() {
                s.to_string()
            } else if let Some(s) = e.downcast_ref::<String>() {
                s.clone()
            } else {
                "panic".to_string()
            };
            json!({"panic": msg})
        }
    }
}
