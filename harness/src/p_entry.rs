// C11: every compile entry point produces the same program for the same source.
use crate::corpus;
use crate::ops_compile::compile_lib;
use crate::pool::{run_jobs, PoolCfg};
use crate::util::{hash_str, Report};
use crate::val::{serialize, V};
use chialisp::classic::clvm::__type_compatibility__::Stream;
use chialisp::classic::clvm_tools::binutils::assemble;
use chialisp::classic::clvm_tools::cmds::launch_tool;
use chialisp::classic::clvm_tools::comp_input::RunAndCompileInputData;
use chialisp::classic::platform::argparse::ArgumentValue;
use chialisp::compiler::clvm::convert_to_clvm_rs;
use clvmr::allocator::Allocator;
use serde_json::{json, Value};
use std::collections::HashMap;
use std::io::Write;
use std::time::Duration;

fn hexbytes(v: &V) -> String {
    let mut b = vec![];
    serialize(v, &mut b);
    hex::encode(b)
}

fn looks_like_error(t: &str) -> bool {
    // "<file>(<line>):<col>...: message", "FAIL: ...", "error ... compiling ..."
    let t = t.trim_start();
    if t.starts_with("FAIL") || t.starts_with("error ") || t.is_empty() {
        return true;
    }
    if let Some(i) = t.find("):") {
        let head = &t[..i];
        if let Some(j) = head.rfind('(') {
            return !head[..j].contains(' ') && head[j + 1..].chars().all(|c| c.is_ascii_digit()) && j > 0;
        }
    }
    false
}

/// the command line compiler; returns (canonical bytes of the program its text denotes, the text itself)
fn cli_run(file: &str, search: &[String], optimize: bool, dump: bool, symfile: &str) -> Result<(String, String), String> {
    let mut args: Vec<String> = vec!["run".to_string()];
    if optimize {
        args.push("-O".to_string());
    }
    if dump {
        args.push("-d".to_string());
    }
    for s in search {
        args.push("-i".to_string());
        args.push(s.clone());
    }
    args.push("--symbol-output-file".to_string());
    args.push(symfile.to_string());
    args.push(file.to_string());
    let mut s = Stream::new(None);
    launch_tool(&mut s, &args, "run", 2);
    let text = s.get_value().decode();
    let t = text.trim();
    // -d dumps hex on the classic path; the modern path prints program text whatever the flag says
    if dump && !t.is_empty() && t.bytes().all(|c| c.is_ascii_hexdigit()) {
        let mut a = Allocator::new();
        let bytes = hex::decode(t).map_err(|_| format!("not hex: {}", t.chars().take(200).collect::<String>()))?;
        let n = clvmr::serde::node_from_bytes(&mut a, &bytes).map_err(|e| format!("{e}"))?;
        Ok((hexbytes(&V::from_node(&a, n)), String::new()))
    } else {
        if looks_like_error(t) {
            return Err(t.chars().take(300).collect());
        }
        let mut a = Allocator::new();
        let n = assemble(&mut a, t).map_err(|e| format!("{e}: {}", t.chars().take(200).collect::<String>()))?;
        Ok((hexbytes(&V::from_node(&a, n)), t.to_string()))
    }
}

/// the debugger's compile step; returns (bytes, printed text) and the derived options
fn dbg_compile(file: &str, text: &str, search: &[String], optimize: bool) -> (Result<(String, String), String>, Value) {
    let mut a = Allocator::new();
    let mut pa: HashMap<String, ArgumentValue> = HashMap::new();
    pa.insert("path_or_code".to_string(), ArgumentValue::ArgString(Some(file.to_string()), text.to_string()));
    pa.insert("include".to_string(), ArgumentValue::ArgArray(search.iter().map(|s| ArgumentValue::ArgString(None, s.clone())).collect()));
    if optimize {
        pa.insert("optimize".to_string(), ArgumentValue::ArgBool(true));
    }
    let parsed = match RunAndCompileInputData::new(&mut a, &pa) {
        Ok(p) => p,
        Err(e) => return (Err(e), json!(null)),
    };
    let opts = json!({"optimize": parsed.opts.optimize(), "frontend_opt": parsed.opts.frontend_opt(), "post_opt": parsed.do_optimize});
    let mut syms = HashMap::new();
    let r = parsed
        .compile_modern(&mut a, &mut syms)
        .map_err(|e| format!("{}: {}", e.0, e.1))
        .and_then(|r| {
            let text = r.to_string();
            convert_to_clvm_rs(&mut a, r).map_err(|e| format!("{e}")).map(|n| (hexbytes(&V::from_node(&a, n)), text))
        });
    (r, opts)
}

fn stepping_of(text: &str) -> u64 {
    for (s, n) in [("*standard-cl-21*", 21), ("*strict-cl-21*", 21), ("*standard-cl-22*", 22), ("*standard-cl-23.1*", 23), ("*standard-cl-23*", 23), ("*standard-cl-24*", 24)] {
        if text.contains(s) {
            return n;
        }
    }
    0
}

pub fn op_entry(job: &Value) -> Value {
    let file = job["file"].as_str().unwrap();
    let search: Vec<String> = job["search"].as_array().unwrap().iter().map(|x| x.as_str().unwrap().to_string()).collect();
    let symfile = job["symfile"].as_str().unwrap();
    let text = match std::fs::read_to_string(file) {
        Ok(t) => t,
        Err(e) => return json!({"error": format!("{e}")}),
    };
    let res = |r: Result<(String, String), String>| match r {
        Ok((h, t)) => json!(["ok", h, t]),
        Err(m) => json!(["err", m]),
    };
    let lib = compile_lib(&text, file, &search, None).map(|c| (hexbytes(&c.code), String::new())).map_err(|e| e.msg());
    let cli_o = cli_run(file, &search, true, false, symfile);
    let cli_o_dump = cli_run(file, &search, true, true, symfile);
    let cli = cli_run(file, &search, false, false, symfile);
    let stepping = stepping_of(&text);
    let mut out = json!({"stepping": stepping, "lib": res(lib), "cli_o": res(cli_o), "cli_o_dump": res(cli_o_dump), "cli": res(cli)});
    if stepping > 0 {
        let (d, o) = dbg_compile(file, &text, &search, false);
        let (d_o, o_o) = dbg_compile(file, &text, &search, true);
        out["dbg"] = res(d);
        out["dbg_o"] = res(d_o);
        out["opts"] = o;
        out["opts_o"] = o_o;
    }
    let _ = std::fs::remove_file(symfile);
    out
}

pub fn drive(args: &HashMap<String, String>) {
    let trace = args.get("trace").expect("--trace");
    let outp = args.get("out").expect("--out");
    let scratch = args.get("scratch").expect("--scratch");
    let extra = args.get("programs"); // ndjson of {name, text} generated programs
    let _ = std::fs::remove_dir_all(scratch);
    std::fs::create_dir_all(format!("{scratch}/inc")).unwrap();
    // an include file found through the search path
    std::fs::write(format!("{scratch}/inc/helpers.clinc"), "(\n (defun-inline sq (X) (* X X))\n (defun dbl (X) (+ X X))\n (defconstant SEVEN 7)\n)\n").unwrap();
    let mut progs: Vec<(String, String, Vec<String>)> = vec![]; // (name, file, search)
    for rel in corpus::SHIPPED {
        if let Some((path, _t, search)) = corpus::load(rel) {
            progs.push((format!("shipped:{rel}"), path, search));
        }
    }
    let mut k = 0;
    let mut add = |name: String, text: String, progs: &mut Vec<(String, String, Vec<String>)>| {
        let path = format!("{scratch}/p{k}.clsp");
        k += 1;
        std::fs::write(&path, text).unwrap();
        progs.push((name, path, vec![format!("{scratch}/inc")]));
    };
    let bodies = [
        "(defun f (A B) (let ((Q (+ A 1)) (R (* B 2))) (list Q R))) (f X Y)",
        "(include helpers.clinc) (list (sq X) (dbl Y) SEVEN)",
        "(include helpers.clinc) (defun g (A) (if A (c (sq (f A)) (g (r A))) ())) (g (list X Y SEVEN))",
        "(defconstant K 0x00ff) (list K \"str\" -129 0x0000 (+ X Y) (q . (1 2 \"a\\\\b\")))",
        "(defun-inline h ((A . B) C) (c A (c B C))) (h X Y)",
    ];
    for (i, b) in bodies.iter().enumerate() {
        for sig in ["", "*standard-cl-21*", "*strict-cl-21*", "*standard-cl-22*", "*standard-cl-23*", "*standard-cl-23.1*", "*standard-cl-24*"] {
            if sig.is_empty() && b.contains("let ") {
                continue;
            }
            let inc = if sig.is_empty() { String::new() } else { format!("(include {sig}) ") };
            add(format!("fixed{i}:{sig}"), format!("(mod (X Y) {inc}{b})"), &mut progs);
        }
    }
    // search paths with several directories: the same file name with different content in two of them, every order,
    // and a directory named twice (the first directory that has the file wins, for every entry point)
    std::fs::create_dir_all(format!("{scratch}/incA")).unwrap();
    std::fs::create_dir_all(format!("{scratch}/incB")).unwrap();
    std::fs::write(format!("{scratch}/incA/which.clinc"), "(\n (defconstant WHICH 11)\n)\n").unwrap();
    std::fs::write(format!("{scratch}/incB/which.clinc"), "(\n (defconstant WHICH 99)\n)\n").unwrap();
    let (da, db, dc) = (format!("{scratch}/incA"), format!("{scratch}/incB"), format!("{scratch}/inc"));
    let orders: Vec<Vec<String>> = vec![vec![da.clone(), db.clone()], vec![db.clone(), da.clone()], vec![da.clone(), db.clone(), da.clone()], vec![db.clone(), da.clone(), db.clone()],
        vec![dc.clone(), da.clone(), db.clone(), da.clone()], vec![da.clone(), da.clone(), db.clone()], vec![db.clone(), dc.clone(), da.clone(), dc.clone(), db.clone()]];
    for (oi, order) in orders.iter().enumerate() {
        for sig in ["", "*standard-cl-21*", "*standard-cl-22*", "*standard-cl-23*", "*standard-cl-24*"] {
            let inc = if sig.is_empty() { String::new() } else { format!("(include {sig}) ") };
            let path = format!("{scratch}/s{oi}_{}.clsp", sig.replace('*', ""));
            std::fs::write(&path, format!("(mod (X) {inc}(include which.clinc) (+ X WHICH))")).unwrap();
            progs.push((format!("searchorder{oi}:{sig}"), path, order.clone()));
        }
    }
    // raw source text: bytes that an entry point might normalise before compiling (line endings, control characters,
    // wide characters) inside string constants, in comments and between forms; the same bytes must reach the compiler
    // whichever tool reads the file
    {
        let texts: Vec<(&str, String)> = vec![
            ("crlf-in-string", "(mod (X) SIG(c \"a\r\nb\" X))".to_string()),
            ("crlf-everywhere", "(mod (X)\r\n  SIG\r\n  (defun f (A)\r\n    (c \"two\r\nlines\" A)) ; note\r\n  (f X))\r\n".to_string()),
            ("cr-in-string", "(mod (X) SIG(c \"a\rb\" X))".to_string()),
            ("lf-in-string", "(mod (X) SIG(c \"a\nb\" X))".to_string()),
            ("tab-ff-in-string", "(mod (X) SIG(c \"a\tb\u{c}c\" X))".to_string()),
            ("wide-in-string", "(mod (X) SIG(c \"\u{e9}\u{4e2d}\u{1f600}\" X))".to_string()),
            ("trailing-cr", "(mod (X) SIG(c \"s\" X))\r".to_string()),
            ("cr-between-forms", "(mod (X)\rSIG\r(c \"s\" X))".to_string()),
            ("crlf-in-comment-and-string", "(mod (X) SIG ; c\r\n (c \"x\r\n\r\ny\" (c \"\r\n\" X)))".to_string()),
            ("nbsp-and-escapes", "(mod (X) SIG(c \"a\\\\b \u{a0} \\\"q\\\"\" X))".to_string()),
        ];
        for (name, t) in texts {
            for sig in ["", "*standard-cl-21*", "*standard-cl-23*"] {
                let inc = if sig.is_empty() { String::new() } else { format!("(include {sig}) ") };
                add(format!("rawtext:{name}:{sig}"), t.replace("SIG", &inc), &mut progs);
            }
        }
    }
    if let Some(p) = extra {
        for v in crate::util::read_ndjson(p) {
            add(v["name"].as_str().unwrap().to_string(), v["text"].as_str().unwrap().to_string(), &mut progs);
        }
    }
    let jobs: Vec<Value> = progs.iter().enumerate().map(|(i, (_, f, s))| json!({"op": "entry", "file": f, "search": s, "symfile": format!("{scratch}/sym{i}.sym")})).collect();
    let cfg = PoolCfg { batch: 1, timeout: Duration::from_secs(120), ..PoolCfg::default() };
    let results = run_jobs(jobs, &cfg);
    let mut rep = Report::default();
    let mut f = std::io::BufWriter::new(std::fs::File::create(trace).expect("trace"));
    let mut ids: HashMap<u64, u64> = HashMap::new();
    let mut id_of = |v: &Value| -> u64 {
        if v[0] == "ok" {
            let n = ids.len() as u64 + 1;
            *ids.entry(hash_str(v[1].as_str().unwrap())).or_insert(n)
        } else {
            0
        }
    };
    for ((name, file, search), r) in progs.iter().zip(results.iter()) {
        rep.evaluations += 1;
        if r.get("lib").is_none() {
            // abort / timeout of code under test in one of the entry points
            rep.count("entry_point_crashed_or_slow");
            rep.drift(json!({"program": name, "observed": r}));
            continue;
        }
        let modern = r["stepping"].as_u64().unwrap() > 0;
        // ids by content.  For programs that declare a dialect the command line prints program *text*: it is compared
        // with the debugger's result printed by the same printer, and the library's bytes with the debugger's bytes.
        let text_of = |v: &Value| if v[0] == "ok" { json!(["ok", v[2]]) } else { json!(["err"]) };
        let lib = id_of(&r["lib"]);
        let (cli_o, cli, dbg, dbg_o, dbg_o_bytes, cli_o_dump);
        if modern {
            cli_o = id_of(&text_of(&r["cli_o"]));
            cli_o_dump = cli_o;
            cli = id_of(&text_of(&r["cli"]));
            dbg = id_of(&text_of(&r["dbg"]));
            dbg_o = id_of(&text_of(&r["dbg_o"]));
            dbg_o_bytes = id_of(&r["dbg_o"]);
        } else {
            cli_o = id_of(&r["cli_o"]);
            cli_o_dump = id_of(&r["cli_o_dump"]);
            cli = id_of(&r["cli"]);
            dbg = 0;
            dbg_o = 0;
            dbg_o_bytes = lib;
        }
        let noopts = json!({"optimize": false, "frontend_opt": false, "post_opt": false});
        // in the trace: lib is compared with cli_o; for modern programs through the chain lib =(bytes) dbg_o =(text) cli_o
        let lib_for_trace = if modern { if lib == dbg_o_bytes { cli_o.max(dbg_o) } else { u64::MAX / 2 } } else { lib };
        writeln!(f, "{}", json!({"stepping": r["stepping"], "lib": if modern && lib == dbg_o_bytes { dbg_o } else { lib_for_trace }, "cli_o": cli_o, "cli_o_dump": cli_o_dump, "cli": cli, "dbg": dbg, "dbg_o": dbg_o,
            "opts": if modern && !r["opts"].is_null() { r["opts"].clone() } else { noopts.clone() },
            "opts_o": if modern && !r["opts_o"].is_null() { r["opts_o"].clone() } else { noopts.clone() }})).unwrap();
        rep.traces += 1;
        if lib != 0 {
            rep.nontrivial(name);
        }
        let p1 = if modern { lib == dbg_o_bytes && dbg_o == cli_o } else { lib == cli_o && cli_o == cli_o_dump };
        let p2 = !modern || (dbg == cli && dbg_o == cli_o);
        if !(p1 && p2) {
            let short = |v: &Value| if v[0] == "ok" { json!(["ok", v[1].as_str().unwrap().chars().take(80).collect::<String>()]) } else { v.clone() };
            rep.violation(json!({"property": "C11", "kind": if !p1 { "library-vs-cli" } else { "debugger-vs-cli" }, "program": name, "file": file, "search": search,
                "lib": short(&r["lib"]), "cli_o": short(&r["cli_o"]), "cli_o_dump": short(&r["cli_o_dump"]), "cli": short(&r["cli"]),
                "dbg": short(&r["dbg"]), "dbg_o": short(&r["dbg_o"])}));
        }
        if rep.samples.len() < 4 {
            rep.sample(json!({"program": name, "stepping": r["stepping"], "ids": [lib, cli_o, cli_o_dump, cli, dbg, dbg_o], "opts": r.get("opts"), "opts_o": r.get("opts_o")}));
        }
    }
    let _ = std::fs::remove_dir_all(scratch);
    rep.write(outp);
}
