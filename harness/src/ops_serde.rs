// Worker-side operations for C08: the classic (de)serialiser against clvmr's.
use crate::val::V;
use chialisp::classic::clvm::__type_compatibility__::{Bytes, BytesFromType, Stream};
use chialisp::classic::clvm::serialize::{sexp_from_stream, sexp_to_stream, SimpleCreateCLVMObject};
use clvmr::allocator::Allocator;
use serde_json::{json, Value};

pub fn impl_decode(bytes: &[u8]) -> Result<V, String> {
    let mut a = Allocator::new();
    let mut s = Stream::new(Some(Bytes::new(Some(BytesFromType::Raw(bytes.to_vec())))));
    match sexp_from_stream(&mut a, &mut s, Box::new(SimpleCreateCLVMObject {})) {
        Ok(r) => Ok(V::from_node(&a, r.1)),
        Err(e) => Err(format!("{e}")),
    }
}

pub fn cons_decode(bytes: &[u8]) -> Result<V, String> {
    let mut a = Allocator::new();
    match clvmr::serde::node_from_bytes(&mut a, bytes) {
        Ok(n) => Ok(V::from_node(&a, n)),
        Err(e) => Err(format!("{e}")),
    }
}

pub fn impl_encode(v: &V) -> Vec<u8> {
    let mut a = Allocator::new();
    let n = v.to_node(&mut a);
    let mut s = Stream::new(None);
    sexp_to_stream(&mut a, n, &mut s);
    s.get_value().data().clone()
}

pub fn cons_encode(v: &V) -> Vec<u8> {
    let mut a = Allocator::new();
    let n = v.to_node(&mut a);
    match clvmr::serde::node_to_bytes(&a, n) {
        Ok(b) => b,
        // clvmr's serialiser refuses outputs of 128 MiB and more ("OutOfMemory"): the encoding is then written
        // out from the format definition (what Serialize.tla's Enc says), which is what clvmr produces below that size
        Err(_) => format_encode(v),
    }
}

/// The CLVM serialisation format, written out: 0xff pair; one byte for 0x00..0x7f; otherwise a length prefix of 1..5
/// bytes (0x80 | 6 bits, 0xc0 | 13, 0xe0 | 20, 0xf0 | 27, 0xf8 | 34) and the content.
pub fn format_encode(v: &V) -> Vec<u8> {
    fn go(v: &V, out: &mut Vec<u8>) {
        match v {
            V::P(a, b) => {
                out.push(0xff);
                go(a, out);
                go(b, out);
            }
            V::A(c) => {
                let n = c.len() as u64;
                if n == 0 {
                    out.push(0x80);
                } else if n == 1 && c[0] < 0x80 {
                    out.push(c[0]);
                } else {
                    if n < 0x40 {
                        out.push(0x80 | n as u8);
                    } else if n < 0x2000 {
                        out.extend([0xc0 | (n >> 8) as u8, n as u8]);
                    } else if n < 0x10_0000 {
                        out.extend([0xe0 | (n >> 16) as u8, (n >> 8) as u8, n as u8]);
                    } else if n < 0x800_0000 {
                        out.extend([0xf0 | (n >> 24) as u8, (n >> 16) as u8, (n >> 8) as u8, n as u8]);
                    } else {
                        out.extend([0xf8 | (n >> 32) as u8, (n >> 24) as u8, (n >> 16) as u8, (n >> 8) as u8, n as u8]);
                    }
                    out.extend_from_slice(c);
                }
            }
        }
    }
    let mut out = vec![];
    go(v, &mut out);
    out
}

fn res_json(r: &Result<V, String>) -> Value {
    match r {
        Ok(v) => json!(["ok", v.to_json()]),
        Err(m) => json!(["err", m]),
    }
}

fn digest(b: &[u8]) -> String {
    use sha2::{Digest, Sha256};
    hex::encode(Sha256::digest(b))
}

pub fn op_serde(job: &Value) -> Value {
    if let Some(bs) = job.get("bytes") {
        let bytes: Vec<u8> = bs.as_array().unwrap().iter().map(|b| b.as_u64().unwrap() as u8).collect();
        let i = impl_decode(&bytes);
        let c = cons_decode(&bytes);
        return json!({"impl": res_json(&i), "cons": res_json(&c)});
    }
    if let Some(v) = job.get("value") {
        let v = V::from_json(v).unwrap();
        let ib = impl_encode(&v);
        let cb = cons_encode(&v);
        let back = impl_decode(&ib);
        return json!({"impl_bytes": ib, "cons_bytes": cb, "back": res_json(&back)});
    }
    if let Some(n) = job.get("biglen") {
        // a large atom (optionally inside a pair): contents are a pattern; compared by prefix, length and digest
        let n = n.as_u64().unwrap() as usize;
        let fill = job["fill"].as_u64().unwrap_or(0x5a) as u8;
        let mut content = vec![fill; n];
        if n > 0 {
            content[0] = job["first"].as_u64().unwrap_or(0x81) as u8;
            content[n - 1] = 0x7e;
        }
        let v = if job["paired"].as_bool().unwrap_or(false) {
            V::cons(V::A(content.clone()), V::A(vec![1]))
        } else {
            V::A(content.clone())
        };
        let ib = impl_encode(&v);
        let cb = cons_encode(&v);
        let back = impl_decode(&ib);
        let back_ok = matches!(&back, Ok(b) if *b == v);
        let back_msg = match &back {
            Ok(_) => "value".to_string(),
            Err(m) => m.clone(),
        };
        return json!({"len": n, "impl_prefix": ib[..ib.len().min(8)].to_vec(), "cons_prefix": cb[..cb.len().min(8)].to_vec(),
            "impl_len": ib.len(), "cons_len": cb.len(), "impl_digest": digest(&ib), "cons_digest": digest(&cb),
            "back_ok": back_ok, "back_msg": back_msg});
    }
    json!({"error": "bad serde job"})
}
