// Worker-side operations for C08: the classic (de)serialiser against clvmr's.
use crate::val::V;
use chialisp::classic::clvm::__type_compatibility__::{Bytes, BytesFromType, Stream};
use chialisp::classic::clvm::serialize::{sexp_from_stream, sexp_to_stream, SimpleCreateCLVMObject};
use clvmr::allocator::Allocator;
use serde_json::{json, Value};

pub fn impl_decode(bytes: &[u8]) -> Result<V, String> {
    let mut a = Allocator::new();
    let mut s = Stream::new(Some(Bytes::new(Some(BytesFromType::Raw(bytes.to_vec())))));
    match sexp_from_stream(&mut a, &mut s, Box::new(SimpleCreateCLVMObject {})) {
        Ok(r) => Ok(V::from_node(&a, r.1)),
        Err(e) => Err(format!("{e}")),
    }
}

pub fn cons_decode(bytes: &[u8]) -> Result<V, String> {
    let mut a = Allocator::new();
    match clvmr::serde::node_from_bytes(&mut a, bytes) {
        Ok(n) => Ok(V::from_node(&a, n)),
        Err(e) => Err(format!("{e}")),
    }
}

pub fn impl_encode(v: &V) -> Vec<u8> {
    let mut a = Allocator::new();
    let n = v.to_node(&mut a);
    let mut s = Stream::new(None);
    sexp_to_stream(&mut a, n, &mut s);
    s.get_value().data().clone()
}

pub fn cons_encode(v: &V) -> Vec<u8> {
    let mut a = Allocator::new();
    let n = v.to_node(&mut a);
    clvmr::serde::node_to_bytes(&a, n).expect("clvmr serialise")
}

fn res_json(r: &Result<V, String>) -> Value {
    match r {
        Ok(v) => json!(["ok", v.to_json()]),
        Err(m) => json!(["err", m]),
    }
}

fn digest(b: &[u8]) -> String {
    use sha2::{Digest, Sha256};
    hex::encode(Sha256::digest(b))
}

pub fn op_serde(job: &Value) -> Value {
    if let Some(bs) = job.get("bytes") {
        let bytes: Vec<u8> = bs.as_array().unwrap().iter().map(|b| b.as_u64().unwrap() as u8).collect();
        let i = impl_decode(&bytes);
        let c = cons_decode(&bytes);
        return json!({"impl": res_json(&i), "cons": res_json(&c)});
    }
    if let Some(v) = job.get("value") {
        let v = V::from_json(v).unwrap();
        let ib = impl_encode(&v);
        let cb = cons_encode(&v);
        let back = impl_decode(&ib);
        return json!({"impl_bytes": ib, "cons_bytes": cb, "back": res_json(&back)});
    }
    if let Some(n) = job.get("biglen") {
        // a large atom (optionally inside a pair): contents are a pattern; compared by prefix, length and digest
        let n = n.as_u64().unwrap() as usize;
        let fill = job["fill"].as_u64().unwrap_or(0x5a) as u8;
        let mut content = vec![fill; n];
        if n > 0 {
            content[0] = job["first"].as_u64().unwrap_or(0x81) as u8;
            content[n - 1] = 0x7e;
        }
        let v = if job["paired"].as_bool().unwrap_or(false) {
            V::cons(V::A(content.clone()), V::A(vec![1]))
        } else {
            V::A(content.clone())
        };
        let ib = impl_encode(&v);
        let cb = cons_encode(&v);
        let back = impl_decode(&ib);
        let back_ok = matches!(&back, Ok(b) if *b == v);
        let back_msg = match &back {
            Ok(_) => "value".to_string(),
            Err(m) => m.clone(),
        };
        return json!({"len": n, "impl_prefix": ib[..ib.len().min(8)].to_vec(), "cons_prefix": cb[..cb.len().min(8)].to_vec(),
            "impl_len": ib.len(), "cons_len": cb.len(), "impl_digest": digest(&ib), "cons_digest": digest(&cb),
            "back_ok": back_ok, "back_msg": back_msg});
    }
    json!({"error": "bad serde job"})
}
