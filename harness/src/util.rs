use serde_json::Value;
use std::collections::HashMap;
use std::io::{BufRead, BufReader};

/// parse TLC output: every line `<<"V", "<json as TLA+ string>">>` gives one JSON value
pub fn read_tlc_vectors(path: &str, tag: &str) -> Vec<Value> {
    let f = std::fs::File::open(path).unwrap_or_else(|e| panic!("open {path}: {e}"));
    let rd = BufReader::new(f);
    let prefix = format!("<<\"{tag}\", ");
    let mut out: Vec<(String, Value)> = vec![];
    for line in rd.lines() {
        let line = line.unwrap();
        if let Some(rest) = line.strip_prefix(&prefix) {
            if let Some(lit) = rest.strip_suffix(">>") {
                let s: String = serde_json::from_str(lit).unwrap_or_else(|e| panic!("bad literal {e}: {lit}"));
                let v: Value = parse_json(&s).unwrap_or_else(|e| panic!("bad json {e}: {s}"));
                out.push((s, v));
            }
        }
    }
    // TLC's workers print in no particular order: whatever is sampled from the vectors must not depend on it
    out.sort_by(|a, b| a.0.cmp(&b.0));
    out.into_iter().map(|(_, v)| v).collect()
}

/// serde_json with the recursion limit lifted (deep lists are ordinary CLVM values)
pub fn parse_json(s: &str) -> Result<Value, String> {
    use serde::Deserialize;
    let mut de = serde_json::Deserializer::from_str(s);
    de.disable_recursion_limit();
    Value::deserialize(&mut de).map_err(|e| format!("{e}"))
}

pub fn read_ndjson(path: &str) -> Vec<Value> {
    let f = std::fs::File::open(path).unwrap_or_else(|e| panic!("open {path}: {e}"));
    BufReader::new(f)
        .lines()
        .map(|l| l.unwrap())
        .filter(|l| !l.trim().is_empty())
        .map(|l| parse_json(&l).unwrap_or_else(|e| panic!("bad json line {e}: {l}")))
        .collect()
}

pub fn args_map(args: &[String]) -> HashMap<String, String> {
    let mut m = HashMap::new();
    let mut i = 0;
    while i < args.len() {
        if let Some(k) = args[i].strip_prefix("--") {
            if i + 1 < args.len() && !args[i + 1].starts_with("--") {
                m.insert(k.to_string(), args[i + 1].clone());
                i += 2;
            } else {
                m.insert(k.to_string(), "true".to_string());
                i += 1;
            }
        } else {
            i += 1;
        }
    }
    m
}

pub fn seed_from_env() -> u64 {
    std::env::var("VERIF_SEED")
        .ok()
        .and_then(|s| s.parse::<u64>().ok())
        .unwrap_or(20260923)
}

/// Result accumulator shared by all sub-commands; written as one JSON file that
/// the python driver merges into the evidence and matches against known findings.
#[derive(Default)]
pub struct Report {
    pub evaluations: u64,
    pub nontrivial: std::collections::HashSet<u64>,
    pub traces: u64,
    pub drift: u64,
    pub samples: Vec<Value>,
    pub violations: Vec<Value>,
    pub spec_errors: Vec<Value>,
    pub drift_samples: Vec<Value>,
    pub counts: std::collections::BTreeMap<String, u64>,
}

pub fn hash_str(s: &str) -> u64 {
    use std::hash::{Hash, Hasher};
    let mut h = std::collections::hash_map::DefaultHasher::new();
    s.hash(&mut h);
    h.finish()
}

impl Report {
    pub fn count(&mut self, k: &str) {
        *self.counts.entry(k.to_string()).or_insert(0) += 1;
    }
    pub fn count_n(&mut self, k: &str, n: u64) {
        *self.counts.entry(k.to_string()).or_insert(0) += n;
    }
    pub fn nontrivial(&mut self, key: &str) {
        self.nontrivial.insert(hash_str(key));
    }
    pub fn sample(&mut self, v: Value) {
        if self.samples.len() < 5 {
            self.samples.push(v);
        }
    }
    pub fn violation(&mut self, v: Value) {
        self.count("violations_raw");
        if self.violations.len() < 5000 {
            self.violations.push(v);
        }
    }
    pub fn spec_error(&mut self, v: Value) {
        self.count("spec_errors");
        if self.spec_errors.len() < 50 {
            self.spec_errors.push(v);
        }
    }
    pub fn drift(&mut self, v: Value) {
        self.drift += 1;
        if self.drift_samples.len() < 20 {
            self.drift_samples.push(v);
        }
    }
    pub fn write(&self, path: &str) {
        let v = serde_json::json!({
            "evaluations": self.evaluations,
            "distinct_nontrivial": self.nontrivial.len(),
            "traces": self.traces,
            "drift": self.drift,
            "samples": self.samples,
            "violations": self.violations,
            "spec_errors": self.spec_errors,
            "drift_samples": self.drift_samples,
            "counts": self.counts,
        });
        std::fs::write(path, serde_json::to_string(&v).unwrap()).expect("write report");
    }
}

/// remove the renaming suffix _$_<n> from every string of a JSON value (scope events name renamed variables)
pub fn strip_renaming(v: &Value) -> Value {
    match v {
        Value::String(s) => Value::String(match s.find("_$_") {
            // name_$_12 and name_$_12_$_340 (renamed more than once)
            Some(i) if i + 3 < s.len() && s[i..].split("_$_").skip(1).all(|part| !part.is_empty() && part.chars().all(|c| c.is_ascii_digit())) => s[..i].to_string(),
            _ => s.clone(),
        }),
        Value::Array(a) => Value::Array(a.iter().map(strip_renaming).collect()),
        Value::Object(o) => Value::Object(o.iter().map(|(k, x)| (k.clone(), strip_renaming(x))).collect()),
        other => other.clone(),
    }
}

/// one Trace_ComScope record
pub fn scope_record(idents: &[String], result: &Value) -> Option<Value> {
    let evs = result.get("events")?.as_array()?;
    // the events keep the renamed names (x_$_12: unique per binder, so a re-bound name is not confused with the one it
    // shadows); for the comparison with the program's own identifiers the renaming suffix is removed
    let coms: Vec<Value> = evs.iter().filter(|e| e["ev"] == "com").map(|e| {
        let mut e = e.clone();
        let stripped = strip_renaming(&e);
        let mut known: Vec<Value> = vec![];
        for k in ["args", "env_only", "bound_inside"] {
            known.extend(stripped[k].as_array().cloned().unwrap_or_default());
        }
        e["u_free"] = stripped["free"].clone();
        e["u_known"] = Value::Array(known);
        e
    }).collect();
    if coms.is_empty() {
        return None;
    }
    Some(serde_json::json!({"idents": idents, "events": coms}))
}

/// nesting depth of a JSON value (TLC's JSON reader stops at 255)
pub fn json_depth(v: &Value) -> usize {
    match v {
        Value::Array(a) => 1 + a.iter().map(json_depth).max().unwrap_or(0),
        Value::Object(o) => 1 + o.values().map(json_depth).max().unwrap_or(0),
        _ => 0,
    }
}
