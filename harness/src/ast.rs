// Chialisp abstract syntax shared with Chialisp.tla (JSON encoding of DESIGN.md 2.2) and the
// renderer that turns an AST into source text for a given dialect.  Rendering is the trusted
// direction: programs are generated as ASTs and only ever printed, never parsed back.
use crate::val::{int_of_bytes, V};
use crate::rich::is_canonical_int;
use serde_json::{json, Value};

#[derive(Clone, Debug, PartialEq)]
pub enum Pat {
    Nil,
    Var(String),
    Cons(Box<Pat>, Box<Pat>),
    At(String, Box<Pat>),
}

#[derive(Clone, Debug, PartialEq)]
pub enum Expr {
    Lit(V),
    Var(String),
    Prim(u8, Vec<Expr>),
    Call(String, Vec<Expr>, Option<Box<Expr>>),
    If(Box<Expr>, Box<Expr>, Box<Expr>),
    List(Vec<Expr>),
    Let(bool, Vec<(String, Expr)>, Box<Expr>), // true = let* (sequential)
    Assign(Vec<(Pat, Expr)>, Box<Expr>),
    Lambda(Vec<String>, Pat, Box<Expr>),
    Apply(Box<Expr>, Box<Expr>),
    Mod(Box<Program>),
}

#[derive(Clone, Debug, PartialEq)]
pub enum Helper {
    Defun { name: String, pat: Pat, body: Expr, inline: bool },
    DefConstant { name: String, value: V },
    DefConst { name: String, expr: Expr },
    DefMacro { name: String, params: Vec<String>, template: Expr },
}

#[derive(Clone, Debug, PartialEq)]
pub struct Program {
    pub args: Pat,
    pub helpers: Vec<Helper>,
    pub body: Expr,
}

pub fn op_name(op: u8) -> &'static str {
    match op {
        3 => "i", 4 => "c", 5 => "f", 6 => "r", 7 => "l", 8 => "x", 9 => "=", 10 => ">s", 11 => "sha256", 12 => "substr",
        13 => "strlen", 14 => "concat", 16 => "+", 17 => "-", 18 => "*", 19 => "/", 20 => "divmod", 21 => ">", 22 => "ash",
        23 => "lsh", 24 => "logand", 25 => "logior", 26 => "logxor", 27 => "lognot", 32 => "not", 33 => "any", 34 => "all",
        61 => "%",
        _ => panic!("no name for opcode {op}"),
    }
}

impl Pat {
    pub fn to_json(&self) -> Value {
        match self {
            Pat::Nil => json!(["pn"]),
            Pat::Var(n) => json!(["pv", n]),
            Pat::Cons(a, b) => json!(["pc", a.to_json(), b.to_json()]),
            Pat::At(n, p) => json!(["pat", n, p.to_json()]),
        }
    }
    pub fn names(&self, out: &mut Vec<String>) {
        match self {
            Pat::Nil => {}
            Pat::Var(n) => out.push(n.clone()),
            Pat::Cons(a, b) => {
                a.names(out);
                b.names(out);
            }
            Pat::At(n, p) => {
                out.push(n.clone());
                p.names(out);
            }
        }
    }
    pub fn list(items: Vec<Pat>, tail: Pat) -> Pat {
        let mut r = tail;
        for i in items.into_iter().rev() {
            r = Pat::Cons(Box::new(i), Box::new(r));
        }
        r
    }
    pub fn render(&self) -> String {
        match self {
            Pat::Nil => "()".to_string(),
            Pat::Var(n) => n.clone(),
            Pat::At(n, p) => format!("(@ {} {})", n, p.render()),
            Pat::Cons(_, _) => {
                let mut s = String::from("(");
                let mut cur = self;
                let mut first = true;
                loop {
                    match cur {
                        Pat::Cons(a, b) => {
                            if !first {
                                s.push(' ');
                            }
                            first = false;
                            s.push_str(&a.render());
                            cur = b;
                        }
                        Pat::Nil => break,
                        other => {
                            s.push_str(" . ");
                            s.push_str(&other.render());
                            break;
                        }
                    }
                }
                s.push(')');
                s
            }
        }
    }
}

/// a datum inside quoted data / as a literal: atoms as decimal when they are canonical numbers, else hex
pub fn render_datum(v: &V) -> String {
    match v {
        V::A(b) => {
            if b.is_empty() {
                "()".to_string()
            } else if is_canonical_int(b) {
                int_of_bytes(b).to_string()
            } else {
                format!("0x{}", hex::encode(b))
            }
        }
        V::P(_, _) => {
            let mut s = String::from("(");
            let mut cur = v;
            let mut first = true;
            loop {
                match cur {
                    V::P(a, b) => {
                        if !first {
                            s.push(' ');
                        }
                        first = false;
                        s.push_str(&render_datum(a));
                        cur = b;
                    }
                    V::A(b) => {
                        if !b.is_empty() {
                            s.push_str(" . ");
                            s.push_str(&render_datum(cur));
                        }
                        break;
                    }
                }
            }
            s.push(')');
            s
        }
    }
}

fn printable_string(b: &[u8]) -> bool {
    b.len() >= 2 && b.iter().all(|c| (*c >= b'a' && *c <= b'z') || *c == b' ' || (*c >= b'A' && *c <= b'Z'))
}

impl Expr {
    pub fn to_json(&self) -> Value {
        match self {
            Expr::Lit(v) => json!(["lit", v.to_json()]),
            Expr::Var(n) => json!(["var", n]),
            Expr::Prim(op, args) => json!(["prim", op, args.iter().map(|a| a.to_json()).collect::<Vec<_>>()]),
            Expr::Call(f, args, rest) => json!(["call", f, args.iter().map(|a| a.to_json()).collect::<Vec<_>>(),
                match rest { None => json!(["none"]), Some(r) => r.to_json() }]),
            Expr::If(c, t, e) => json!(["if", c.to_json(), t.to_json(), e.to_json()]),
            Expr::List(args) => json!(["list", args.iter().map(|a| a.to_json()).collect::<Vec<_>>()]),
            Expr::Let(seq, bs, body) => json!(["let", if *seq { "seq" } else { "par" },
                bs.iter().map(|(n, e)| json!([n, e.to_json()])).collect::<Vec<_>>(), body.to_json()]),
            Expr::Assign(bs, body) => json!(["assign", bs.iter().map(|(p, e)| json!([p.to_json(), e.to_json()])).collect::<Vec<_>>(), body.to_json()]),
            Expr::Lambda(caps, pat, body) => json!(["lambda", caps, pat.to_json(), body.to_json()]),
            Expr::Apply(f, a) => json!(["apply", f.to_json(), a.to_json()]),
            Expr::Mod(p) => json!(["mod", p.to_json()]),
        }
    }

    pub fn render(&self) -> String {
        match self {
            Expr::Lit(v) => match v {
                V::A(b) if printable_string(b) => format!("\"{}\"", String::from_utf8_lossy(b)),
                V::A(_) => render_datum(v),
                V::P(_, _) => format!("(q . {})", render_datum(v)),
            },
            Expr::Var(n) => n.clone(),
            Expr::Prim(op, args) => format!("({}{})", op_name(*op), args.iter().map(|a| format!(" {}", a.render())).collect::<String>()),
            Expr::Call(f, args, rest) => format!("({}{}{})", f, args.iter().map(|a| format!(" {}", a.render())).collect::<String>(),
                match rest { None => String::new(), Some(r) => format!(" &rest {}", r.render()) }),
            Expr::If(c, t, e) => format!("(if {} {} {})", c.render(), t.render(), e.render()),
            Expr::List(args) => format!("(list{})", args.iter().map(|a| format!(" {}", a.render())).collect::<String>()),
            Expr::Let(seq, bs, body) => format!("({} ({}) {})", if *seq { "let*" } else { "let" },
                bs.iter().map(|(n, e)| format!("({} {})", n, e.render())).collect::<Vec<_>>().join(" "), body.render()),
            Expr::Assign(bs, body) => format!("(assign {} {})", bs.iter().map(|(p, e)| format!("{} {}", p.render(), e.render())).collect::<Vec<_>>().join(" "), body.render()),
            Expr::Lambda(caps, pat, body) => {
                if caps.is_empty() {
                    format!("(lambda {} {})", pat.render(), body.render())
                } else {
                    let capture = format!("(& {})", caps.join(" "));
                    // ((& caps..) . PAT)
                    let patr = pat.render();
                    let args = match pat {
                        Pat::Nil => format!("({capture})"),
                        Pat::Cons(_, _) => format!("({capture} {}", &patr[1..]),
                        _ => format!("({capture} . {patr})"),
                    };
                    format!("(lambda {} {})", args, body.render())
                }
            }
            Expr::Apply(f, a) => format!("(a {} {})", f.render(), a.render()),
            Expr::Mod(p) => p.render(""),
        }
    }
}

impl Helper {
    pub fn name(&self) -> &str {
        match self {
            Helper::Defun { name, .. } | Helper::DefConstant { name, .. } | Helper::DefConst { name, .. } | Helper::DefMacro { name, .. } => name,
        }
    }
    pub fn to_json(&self) -> Value {
        match self {
            Helper::Defun { name, pat, body, inline } => json!(["defun", name, pat.to_json(), body.to_json(), inline]),
            Helper::DefConstant { name, value } => json!(["defconstant", name, value.to_json()]),
            Helper::DefConst { name, expr } => json!(["defconst", name, expr.to_json()]),
            Helper::DefMacro { name, params, template } => json!(["defmacro", name, params, template.to_json()]),
        }
    }
    pub fn render(&self) -> String {
        match self {
            Helper::Defun { name, pat, body, inline } => format!("({} {} {} {})", if *inline { "defun-inline" } else { "defun" }, name, pat.render(), body.render()),
            Helper::DefConstant { name, value } => format!("(defconstant {} {})", name, render_datum(value)),
            Helper::DefConst { name, expr } => format!("(defconst {} {})", name, expr.render()),
            Helper::DefMacro { name, params, template } => format!("(defmacro {} ({}) (qq {}))", name, params.join(" "), render_template(template, params)),
        }
    }
}

/// macro templates: the body with every parameter occurrence unquoted
fn render_template(e: &Expr, params: &[String]) -> String {
    match e {
        Expr::Var(n) if params.contains(n) => format!("(unquote {n})"),
        Expr::Var(n) => n.clone(),
        Expr::Lit(_) => e.render(),
        Expr::Prim(op, args) => format!("({}{})", op_name(*op), args.iter().map(|a| format!(" {}", render_template(a, params))).collect::<String>()),
        Expr::If(c, t, x) => format!("(if {} {} {})", render_template(c, params), render_template(t, params), render_template(x, params)),
        Expr::List(args) => format!("(list{})", args.iter().map(|a| format!(" {}", render_template(a, params))).collect::<String>()),
        Expr::Call(f, args, None) => format!("({}{})", f, args.iter().map(|a| format!(" {}", render_template(a, params))).collect::<String>()),
        other => other.render(),
    }
}

impl Program {
    pub fn to_json(&self) -> Value {
        json!({"args": self.args.to_json(), "helpers": self.helpers.iter().map(|h| h.to_json()).collect::<Vec<_>>(), "body": self.body.to_json()})
    }
    /// sigil: "" for classic, else e.g. "*standard-cl-21*"
    pub fn render(&self, sigil: &str) -> String {
        let mut s = format!("(mod {}", self.args.render());
        if !sigil.is_empty() {
            s.push_str(&format!(" (include {sigil})"));
        }
        for h in &self.helpers {
            s.push(' ');
            s.push_str(&h.render());
        }
        s.push(' ');
        s.push_str(&self.body.render());
        s.push(')');
        s
    }
}

/// features a program uses, for the dialect feature matrix
#[derive(Default, Debug, Clone)]
pub struct Features {
    pub lets: bool,
    pub assign: bool,
    pub lambda: bool,
    pub rest: bool,
    pub fnval: bool,
    pub defconst: bool,
    pub nested_mod: bool,
    pub at_pattern: bool,
    pub macros: bool,
    pub zero_leading_literal: bool,
}

pub fn features(p: &Program) -> Features {
    let mut f = Features::default();
    let fnames: Vec<String> = p.helpers.iter().filter(|h| matches!(h, Helper::Defun { .. })).map(|h| h.name().to_string()).collect();
    fn pat_has_at(p: &Pat) -> bool {
        match p {
            Pat::At(_, _) => true,
            Pat::Cons(a, b) => pat_has_at(a) || pat_has_at(b),
            _ => false,
        }
    }
    fn lit_zero_leading(v: &V) -> bool {
        match v {
            V::A(b) => !b.is_empty() && !is_canonical_int(b),
            V::P(a, b) => lit_zero_leading(a) || lit_zero_leading(b),
        }
    }
    fn walk(e: &Expr, f: &mut Features, fnames: &[String]) {
        match e {
            Expr::Lit(v) => f.zero_leading_literal |= lit_zero_leading(v),
            Expr::Var(n) => f.fnval |= fnames.contains(n),
            Expr::Prim(_, a) | Expr::List(a) => a.iter().for_each(|x| walk(x, f, fnames)),
            Expr::Call(_, a, r) => {
                a.iter().for_each(|x| walk(x, f, fnames));
                if let Some(r) = r {
                    f.rest = true;
                    walk(r, f, fnames);
                }
            }
            Expr::If(c, t, x) => {
                walk(c, f, fnames);
                walk(t, f, fnames);
                walk(x, f, fnames);
            }
            Expr::Let(_, bs, b) => {
                f.lets = true;
                bs.iter().for_each(|(_, x)| walk(x, f, fnames));
                walk(b, f, fnames);
            }
            Expr::Assign(bs, b) => {
                f.assign = true;
                bs.iter().for_each(|(p, x)| {
                    f.at_pattern |= pat_has_at(p);
                    walk(x, f, fnames)
                });
                walk(b, f, fnames);
            }
            Expr::Lambda(_, p, b) => {
                f.lambda = true;
                f.at_pattern |= pat_has_at(p);
                walk(b, f, fnames);
            }
            Expr::Apply(a, b) => {
                walk(a, f, fnames);
                walk(b, f, fnames);
            }
            Expr::Mod(p) => {
                f.nested_mod = true;
                let inner = features(p);
                f.lets |= inner.lets;
                f.assign |= inner.assign;
                f.lambda |= inner.lambda;
                f.rest |= inner.rest;
                f.fnval |= inner.fnval;
                f.at_pattern |= inner.at_pattern;
                f.macros |= inner.macros;
                f.defconst |= inner.defconst;
                f.zero_leading_literal |= inner.zero_leading_literal;
            }
        }
    }
    f.at_pattern |= pat_has_at(&p.args);
    for h in &p.helpers {
        match h {
            Helper::Defun { pat, body, .. } => {
                f.at_pattern |= pat_has_at(pat);
                walk(body, &mut f, &fnames);
            }
            Helper::DefConst { expr, .. } => {
                f.defconst = true;
                walk(expr, &mut f, &fnames);
            }
            Helper::DefMacro { template, .. } => {
                f.macros = true;
                walk(template, &mut f, &fnames);
            }
            Helper::DefConstant { value, .. } => f.zero_leading_literal |= lit_zero_leading(value),
        }
    }
    walk(&p.body, &mut f, &fnames);
    f
}

// ---- renaming (used to give main parameters lower-case names for the unused-argument check)
impl Pat {
    pub fn rename(&self, f: &dyn Fn(&str) -> String) -> Pat {
        match self {
            Pat::Nil => Pat::Nil,
            Pat::Var(n) => Pat::Var(f(n)),
            Pat::Cons(a, b) => Pat::Cons(Box::new(a.rename(f)), Box::new(b.rename(f))),
            Pat::At(n, p) => Pat::At(f(n), Box::new(p.rename(f))),
        }
    }
}
impl Expr {
    pub fn rename(&self, f: &dyn Fn(&str) -> String) -> Expr {
        let rs = |v: &Vec<Expr>| v.iter().map(|e| e.rename(f)).collect::<Vec<_>>();
        match self {
            Expr::Lit(v) => Expr::Lit(v.clone()),
            Expr::Var(n) => Expr::Var(f(n)),
            Expr::Prim(o, a) => Expr::Prim(*o, rs(a)),
            Expr::Call(n, a, r) => Expr::Call(n.clone(), rs(a), r.as_ref().map(|x| Box::new(x.rename(f)))),
            Expr::If(c, t, e) => Expr::If(Box::new(c.rename(f)), Box::new(t.rename(f)), Box::new(e.rename(f))),
            Expr::List(a) => Expr::List(rs(a)),
            Expr::Let(s, bs, b) => Expr::Let(*s, bs.iter().map(|(n, e)| (f(n), e.rename(f))).collect(), Box::new(b.rename(f))),
            Expr::Assign(bs, b) => Expr::Assign(bs.iter().map(|(p, e)| (p.rename(f), e.rename(f))).collect(), Box::new(b.rename(f))),
            Expr::Lambda(c, p, b) => Expr::Lambda(c.iter().map(|n| f(n)).collect(), p.rename(f), Box::new(b.rename(f))),
            Expr::Apply(a, b) => Expr::Apply(Box::new(a.rename(f)), Box::new(b.rename(f))),
            Expr::Mod(p) => Expr::Mod(p.clone()),
        }
    }
}
impl Expr {
    /// every variable name occurring in or bound by the expression (not the names in call position)
    pub fn var_names(&self, out: &mut Vec<String>) {
        match self {
            Expr::Lit(_) => {}
            Expr::Var(n) => out.push(n.clone()),
            Expr::Prim(_, a) | Expr::List(a) => a.iter().for_each(|x| x.var_names(out)),
            Expr::Call(_, a, r) => {
                a.iter().for_each(|x| x.var_names(out));
                if let Some(x) = r {
                    x.var_names(out);
                }
            }
            Expr::If(a, b, c) => {
                a.var_names(out);
                b.var_names(out);
                c.var_names(out);
            }
            Expr::Let(_, bs, body) => {
                for (n, e) in bs {
                    out.push(n.clone());
                    e.var_names(out);
                }
                body.var_names(out);
            }
            Expr::Assign(bs, body) => {
                for (p, e) in bs {
                    p.names(out);
                    e.var_names(out);
                }
                body.var_names(out);
            }
            Expr::Lambda(caps, pat, body) => {
                out.extend(caps.iter().cloned());
                pat.names(out);
                body.var_names(out);
            }
            Expr::Apply(f, a) => {
                f.var_names(out);
                a.var_names(out);
            }
            Expr::Mod(p) => out.extend(p.var_names()),
        }
    }
}

impl Program {
    /// the variable names of the program: parameters of the program and of its functions, and every binder
    pub fn var_names(&self) -> Vec<String> {
        let mut out = vec![];
        self.args.names(&mut out);
        for h in &self.helpers {
            match h {
                Helper::Defun { pat, body, .. } => {
                    pat.names(&mut out);
                    body.var_names(&mut out);
                }
                Helper::DefConst { expr, .. } => expr.var_names(&mut out),
                Helper::DefMacro { params, template, .. } => {
                    out.extend(params.iter().cloned());
                    template.var_names(&mut out);
                }
                Helper::DefConstant { .. } => {}
            }
        }
        self.body.var_names(&mut out);
        out.sort();
        out.dedup();
        // (function and constant names used as values are not variables)
        let helper_names: Vec<String> = self.helpers.iter().map(|h| h.name().to_string()).collect();
        out.retain(|n| !helper_names.contains(n));
        out
    }

    /// rename variables (not helper names) everywhere
    pub fn rename_vars(&self, f: &dyn Fn(&str) -> String) -> Program {
        Program {
            args: self.args.rename(f),
            helpers: self.helpers.iter().map(|h| match h {
                Helper::Defun { name, pat, body, inline } => Helper::Defun { name: name.clone(), pat: pat.rename(f), body: body.rename(f), inline: *inline },
                Helper::DefConst { name, expr } => Helper::DefConst { name: name.clone(), expr: expr.rename(f) },
                Helper::DefMacro { name, params, template } => Helper::DefMacro { name: name.clone(), params: params.iter().map(|n| f(n)).collect(), template: template.rename(f) },
                other => other.clone(),
            }).collect(),
            body: self.body.rename(f),
        }
    }
}
