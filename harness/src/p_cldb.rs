// C12: the debugger's trace is a faithful account of the real execution.
use crate::rich::{from_rich, to_rich, Spelling};
use crate::util::{read_tlc_vectors, Report};
use crate::val::{consensus_run, serialize, Outcome, CONS_MAX_COST, V};
use crate::pool::{run_jobs, PoolCfg};
use chialisp::classic::clvm_tools::stages::stage_0::{DefaultProgramRunner, TRunProgram};
use chialisp::compiler::cldb::{hex_to_modern_sexp, CldbNoOverride, CldbRun, CldbRunEnv};
use chialisp::compiler::clvm::{start_step, RunStep};
use chialisp::compiler::prims::prim_map;
use chialisp::compiler::srcloc::Srcloc;
use clvmr::allocator::Allocator;
use serde_json::{json, Value};
use std::borrow::Borrow;
use std::collections::HashMap;
use std::io::Write;
use std::rc::Rc;
use std::time::Duration;

fn list_items(v: &V) -> Vec<V> {
    let mut out = vec![];
    let mut cur = v.clone();
    while let V::P(a, b) = cur {
        out.push((*a).clone());
        cur = (*b).clone();
    }
    out
}

/// run one program under the debugger; rows carry structured values taken from the step state
pub fn op_cldb(job: &Value) -> Value {
    let prog = V::from_json(&job["prog"]).unwrap();
    let env = V::from_json(&job["env"]).unwrap();
    let hexmode = job["hex"].as_bool().unwrap_or(false);
    let mut allocator = Allocator::new();
    let runner: Rc<dyn TRunProgram> = Rc::new(DefaultProgramRunner::new());
    let (p, e) = if hexmode {
        let hx = |v: &V| {
            let mut b = vec![];
            serialize(v, &mut b);
            hex::encode(b)
        };
        let p = match hex_to_modern_sexp(&mut allocator, &HashMap::new(), Srcloc::start("*program*"), &hx(&prog)) {
            Ok(p) => p,
            Err(e) => return json!({"error": format!("{e}")}),
        };
        let e = match hex_to_modern_sexp(&mut allocator, &HashMap::new(), Srcloc::start("*args*"), &hx(&env)) {
            Ok(p) => p,
            Err(e) => return json!({"error": format!("{e}")}),
        };
        (p, e)
    } else {
        (to_rich(&prog, Spelling::Int), to_rich(&env, Spelling::Int))
    };
    let cenv = CldbRunEnv::new(None, Rc::new(vec![]), Box::new(CldbNoOverride::new()));
    let mut run = CldbRun::new(runner, prim_map(), Box::new(cenv), start_step(p, e));
    let mut rows = vec![];
    // mirror of the row assembler on structured values
    let mut pending: Option<(V, V)> = None; // (operator, argument list as evaluated)
    let mut steps = 0usize;
    loop {
        if run.is_ended() {
            break;
        }
        steps += 1;
        if steps > 200_000 {
            return json!({"limit": true});
        }
        let row = run.step(&mut allocator);
        let cur = run.current_step();
        match &cur {
            RunStep::Op(head, _c, args, None, _) => {
                pending = Some((from_rich(head.borrow()), from_rich(args.borrow())));
            }
            _ => {}
        }
        if let Some(r) = row {
            let mut jr = serde_json::Map::new();
            for (k, v) in r.iter() {
                if !k.ends_with("-Location") {
                    jr.insert(k.clone(), json!(v));
                }
            }
            let mut ev = json!({"text": jr});
            if r.contains_key("Value") {
                if let RunStep::OpResult(_, x, _) = &cur {
                    ev["value"] = from_rich(x.borrow()).to_json();
                }
                if let Some((op, args)) = &pending {
                    ev["op"] = op.to_json();
                    ev["args"] = json!(list_items(args).iter().map(|a| a.to_json()).collect::<Vec<_>>());
                    // what the consensus evaluator says about (op (q . a1) (q . a2) ...)
                    let quoted: Vec<V> = list_items(args).iter().map(|a| V::cons(V::A(vec![1]), a.clone())).collect();
                    let call = V::cons(op.clone(), V::list(&quoted));
                    let o = consensus_run(&call, &V::nil(), CONS_MAX_COST);
                    ev["cons"] = if o.is_ok() { o.to_json() } else { json!([o.kind()]) };
                }
                ev["kind"] = json!("row");
            } else if r.contains_key("Final") {
                ev["kind"] = json!("final");
                if let Some(f) = run.final_result() {
                    ev["value"] = from_rich(f.borrow()).to_json();
                }
            } else if r.contains_key("Failure") || r.contains_key("Throw") {
                ev["kind"] = json!("failure");
            } else {
                ev["kind"] = json!("other");
            }
            ev["row"] = json!(r.get("Row").and_then(|x| x.parse::<i64>().ok()).unwrap_or(-1));
            rows.push(ev);
        }
    }
    let cons = consensus_run(&prog, &env, CONS_MAX_COST);
    json!({"rows": rows, "cons": if cons.is_ok() { cons.to_json() } else { json!([cons.kind()]) }})
}

fn run_cases(cases: Vec<(V, V)>, trace: &str, outp: &str) {
    let mut jobs = vec![];
    for (p, e) in &cases {
        jobs.push(json!({"op": "cldb", "prog": p.to_json(), "env": e.to_json(), "hex": false}));
        jobs.push(json!({"op": "cldb", "prog": p.to_json(), "env": e.to_json(), "hex": true}));
    }
    let cfg = PoolCfg { batch: 16, timeout: Duration::from_secs(20), ..PoolCfg::default() };
    let results = run_jobs(jobs, &cfg);
    let mut rep = Report::default();
    let mut f = std::io::BufWriter::new(std::fs::File::create(trace).expect("trace"));
    for (i, (p, e)) in cases.iter().enumerate() {
        let (src, hexr) = (&results[2 * i], &results[2 * i + 1]);
        rep.evaluations += 1;
        let case = json!({"prog": p.to_json(), "env": e.to_json(), "prog_text": p.show(), "env_text": e.show()});
        if src.get("rows").is_none() {
            if src.get("limit").is_some() {
                rep.count("step_limit");
                continue;
            }
            rep.violation(json!({"property": "C12", "kind": "debugger-crashed", "case": case, "observed": src}));
            continue;
        }
        rep.traces += 1;
        rep.nontrivial(&format!("{}|{}", p.show(), e.show()));
        // hex-supplied programs behave identically to their source form (modulo locations, which are not in the rows here)
        let same_hex = hexr.get("rows") == src.get("rows");
        writeln!(f, "{}", json!({"prog": p.to_json(), "env": e.to_json(), "cons": src["cons"], "same_hex": same_hex,
            "rows": src["rows"].as_array().unwrap().iter().map(|r| {
                let has = r.get("op").is_some() && r.get("value").is_some();
                json!({"kind": r["kind"], "row": r["row"], "has": has,
                    "op": r.get("op").cloned().unwrap_or(json!(["a", []])), "args": r.get("args").cloned().unwrap_or(json!([])),
                    "value": r.get("value").cloned().unwrap_or(json!(["a", []])), "cons": r.get("cons").cloned().unwrap_or(json!(["none"]))})
            }).collect::<Vec<_>>()})).unwrap();
        if !same_hex {
            rep.violation(json!({"property": "C12", "kind": "hex-differs-from-source", "case": case, "source_rows": src["rows"], "hex": hexr}));
        }
        if rep.samples.len() < 3 && src["rows"].as_array().unwrap().len() > 2 {
            rep.sample(json!({"case": case, "rows": src["rows"], "consensus": src["cons"]}));
        }
    }
    rep.write(outp);
}

pub fn replay(args: &HashMap<String, String>) {
    let vectors = if args.contains_key("ndjson") { crate::util::read_ndjson(args.get("in").unwrap()) } else { read_tlc_vectors(args.get("in").expect("--in"), "V") };
    let cases = vectors.iter().map(|v| (V::from_json(&v["prog"]).unwrap(), V::from_json(&v["env"]).unwrap())).collect();
    run_cases(cases, args.get("trace").expect("--trace"), args.get("out").expect("--out"));
}

pub fn drive(args: &HashMap<String, String>) {
    use crate::gen_clvm::ClvmGen;
    use rand::{Rng, SeedableRng};
    let n: usize = args.get("n").map(|s| s.parse().unwrap()).unwrap_or(300);
    let seed = crate::util::seed_from_env() ^ 0xC12;
    let mut g = ClvmGen { rng: rand_chacha::ChaCha8Rng::seed_from_u64(seed), opzoo: true };
    let mut cases = vec![];
    for i in 0..n {
        let p = g.prog(1 + i % 4, i % 2 == 0);
        let mut e = if g.rng.random_bool(0.3) { g.list_env(10) } else { g.value(3) };
        // every third case: an environment built along one of the program's path atoms (so that wide, sign-bit and padded
        // paths resolve and the rows report what was found there)
        if i % 3 == 1 {
            if let Some(along) = g.env_along(&p) {
                e = along;
            }
        }
        if p.size() < 200 {
            cases.push((p, e));
        }
    }
    // path atoms at byte and sign boundaries, alone and under first / rest, each in the environment built along it
    for bytes in [vec![0x80u8], vec![0xff], vec![0x7f], vec![0x80, 0x00], vec![0xff, 0xff], vec![0x00, 0x80], vec![0x00, 0xff], vec![0xff, 0x80], vec![0x80, 0x00, 0x00], vec![0x01, 0x00],
        vec![0xbf], vec![0x00, 0x00, 0x05], vec![0xff, 0xff, 0xff, 0xff, 0xff, 0xff, 0xff, 0xff], vec![0x80, 0, 0, 0, 0, 0, 0, 0]] {
        let pth = V::A(bytes);
        let f = |op: u8, x: V| V::list(&[V::A(vec![op]), x]);
        for prog in [pth.clone(), f(5, pth.clone()), f(6, pth.clone()), V::list(&[V::A(vec![16]), pth.clone(), V::cons(V::A(vec![1]), V::int(1))])] {
            if let Some(env) = g.env_along(&pth) {
                cases.push((prog, env));
            }
        }
    }
    // compiled generated programs (every dialect) with argument trees
    {
        use crate::gen::{Gen, GenOpts};
        let mut pg = Gen::new(rand_chacha::ChaCha8Rng::seed_from_u64(seed ^ 7), GenOpts::core());
        let builds = ["cl21", "cl23", "cl231", "classic", "cl24"];
        // compiled in worker processes: a compiler that overflows its stack or loops on a generated program must not
        // take the driver down (that is C14's business; here such a program is skipped and counted)
        let mut progs = vec![];
        let mut jobs = vec![];
        for i in 0..(n / 10) {
            let p = pg.program();
            let b = builds[i % builds.len()];
            if !crate::p_compile::renderable(&p, b) {
                continue;
            }
            jobs.push(json!({"op": "compile", "text": p.render(crate::p_compile::sigil_of(b)), "optimize": false}));
            let envs = pg.args_for(&p, 2);
            progs.push((p, envs));
        }
        let rs = run_jobs(jobs, &PoolCfg { batch: 1, timeout: Duration::from_secs(60), ..PoolCfg::default() });
        for ((p, envs), r) in progs.iter().zip(rs.iter()) {
            if let Some(code) = r.get("ok").and_then(|j| V::from_json(j).ok()) {
                for e in envs {
                    if code.size() < 400 {
                        cases.push((code.clone(), e.clone()));
                    }
                }
            } else if r.get("err").is_none() {
                eprintln!("drive-cldb: compiler did not answer on {}", p.render(""));
            }
        }
    }
    let _ = Outcome::Fuel;
    run_cases(cases, args.get("trace").expect("--trace"), args.get("out").expect("--out"));
}
