#!/bin/sh
# Build the harness offline from files on disk (run once after a fresh restore).
set -e
cd "$(dirname "$0")"
mkdir -p .build evidence replays
cp /repo/Cargo.lock harness/Cargo.lock
cd harness
CARGO_NET_OFFLINE=true cargo build --release --offline
